"""Independent numeric evaluator of pyterms (see adcio.py) on small random
tensor models over a prime field; used only for the failing-input search and
for validating the models against the code, never in place of a theorem."""
import hashlib
import itertools
from fractions import Fraction


def _find_prime():
    # prime p = 3 mod 4 such that 2,3,5,7 are quadratic residues
    def is_prime(n):
        if n < 2:
            return False
        for q in (2, 3, 5, 7, 11, 13, 17, 19, 23, 29, 31, 37):
            if n % q == 0:
                return n == q
        d, s = n - 1, 0
        while d % 2 == 0:
            d //= 2
            s += 1
        for a in (2, 3, 5, 7, 11, 13, 17, 19, 23, 29, 31, 37):
            x = pow(a, d, n)
            if x in (1, n - 1):
                continue
            for _ in range(s - 1):
                x = x * x % n
                if x == n - 1:
                    break
            else:
                return False
        return True
    n = (1 << 61) - 1
    while True:
        if n % 4 == 3 and is_prime(n) and all(
                pow(a, (n - 1) // 2, n) == 1 for a in (2, 3, 5, 7)):
            return n
        n -= 2


P = _find_prime()


def inv(x):
    return pow(x % P, P - 2, P)


def sqrt_mod(k):
    k %= P
    r = pow(k, (P + 1) // 4, P)
    if r * r % P != k:
        raise ValueError(f"{k} is not a square mod P")
    return min(r, P - r)


def frac(fr):
    fr = Fraction(fr)
    return fr.numerator % P * inv(fr.denominator) % P


def _h(*key):
    d = hashlib.sha256(repr(key).encode()).digest()
    return int.from_bytes(d[:12], "big") % P


def sort_parity(seq):
    """returns (sorted tuple, parity, has_repeat)"""
    seq = list(seq)
    par = 0
    for i in range(len(seq)):
        for j in range(len(seq) - 1 - i):
            if seq[j] > seq[j + 1]:
                seq[j], seq[j + 1] = seq[j + 1], seq[j]
                par ^= 1
    rep = any(seq[i] == seq[i + 1] for i in range(len(seq) - 1))
    return tuple(seq), par, rep


class Model:
    """nocc/nvirt: (alpha, beta) numbers of occupied / virtual spin orbitals.
    special: name -> callable(model, kind, bks, upper, lower) -> value or None
    """

    def __init__(self, seed, nocc=(1, 1), nvirt=(1, 1), special=None):
        self.seed = seed
        self.orbs = []   # (is_occ, spin)
        for sp, n in zip("ab", nocc):
            self.orbs += [(True, sp)] * n
        for sp, n in zip("ab", nvirt):
            self.orbs += [(False, sp)] * n
        self.special = special or {}
        self.eps = [(_h(seed, "eps", o) % 1000 + 1 + 1000 * (not self.orbs[o][0]))
                    for o in range(len(self.orbs))]

    def rng(self, space, spin):
        out = []
        for o, (occ, sp) in enumerate(self.orbs):
            if space == "occ" and not occ:
                continue
            if space == "virt" and occ:
                continue
            if spin and sp != spin:
                continue
            out.append(o)
        return out

    def tv(self, kind, name, bks, up, lo):
        f = self.special.get(name)
        if f is not None:
            v = f(self, kind, bks, up, lo)
            if v is not None:
                return v % P
        sign = 1
        if kind in ("KAnti", "KAmp"):
            up, p1, r1 = sort_parity(up)
            lo, p2, r2 = sort_parity(lo)
            if r1 or r2:
                return 0
            if p1 ^ p2:
                sign = -1
        elif kind == "KSym":
            up, lo = tuple(sorted(up)), tuple(sorted(lo))
        else:
            up, lo = tuple(up), tuple(lo)
        if kind != "KNonSym" and bks in (1, -1) and len(up) == len(lo):
            if lo < up:
                up, lo = lo, up
                sign *= bks
            elif lo == up and bks == -1:
                return 0
        return sign * _h(self.seed, kind, name, bks, up, lo) % P

    def symv(self, name):
        return _h(self.seed, "sym", name)

    # ---- evaluation ----
    def atom_val(self, a, env):
        if a[0] == "T":
            return self.tv(a[1], a[2], a[3], tuple(env[i] for i in a[4]),
                           tuple(env[i] for i in a[5]))
        if a[0] == "D":
            return 1 if env[a[1]] == env[a[2]] else 0
        if a[0] == "S":
            return self.symv(a[1])
        if a[0] == "R":
            return sqrt_mod(a[1])
        if a[0] == "P":
            tot = 0
            for c, ts in a[1]:
                v = frac(c)
                for t in ts:
                    v = v * self.atom_val(t, env) % P
                tot = (tot + v) % P
            return tot
        raise ValueError(a)

    def term_val(self, term, env):
        v = frac(term[0])
        for a, inv_ in term[1]:
            x = self.atom_val(a, env)
            if inv_:
                if x == 0:
                    raise ZeroDivisionError
                x = inv(x)
            v = v * x % P
            if v == 0:
                return 0
        return v

    def eval_term(self, term, tgenv):
        from adcio import term_contracted
        con = term_contracted(term, set(tgenv))
        ranges = [self.rng(i.space, i.spin) for i in con]
        tot = 0
        env = dict(tgenv)
        for combo in itertools.product(*ranges):
            for i, o in zip(con, combo):
                env[i] = o
            tot = (tot + self.term_val(term, env)) % P
        return tot

    def eval_expr(self, terms, tgenv):
        return sum(self.eval_term(t, tgenv) for t in terms) % P


def orb_energy_special(model, kind, bks, up, lo):
    return model.eps[up[0]]


def canonical_fock(model, kind, bks, up, lo):
    return model.eps[up[0]] if up[0] == lo[0] else 0


def sym_denom(model, kind, bks, up, lo):
    # D^{upper}_{lower} = 1/(sum e_upper - sum e_lower)
    d = (sum(model.eps[o] for o in up) - sum(model.eps[o] for o in lo)) % P
    return inv(d)


def target_assignments(model, tg, limit, rng):
    ranges = [model.rng(i.space, i.spin) for i in tg]
    allc = list(itertools.islice(itertools.product(*ranges), 5000))
    if len(allc) > limit:
        allc = rng.sample(allc, limit)
    return [dict(zip(tg, c)) for c in allc]


def eval_cost(model, terms, tg):
    """number of summand evaluations of the brute-force evaluator"""
    from adcio import term_contracted
    tot = 0
    for t in terms:
        n = 1
        for i in term_contracted(t, set(tg)):
            n *= max(1, len(model.rng(i.space, i.spin)))
        tot += n * max(1, len(t[1]))
    return tot


def find_difference(e1, e2, tg, rng, special=None, models=4, assigns=12,
                    sizes=((1, 1), (1, 1)), scale=None, max_cost=3e6):
    """search for a model and target assignment on which e1 and e2 differ
    (e2 may be scaled by `scale`).  Returns a replay dict or None.  Models
    on which the brute-force evaluation would exceed max_cost summands are
    skipped (the evaluator is exponential in the number of contracted
    indices)."""
    for m in range(models):
        nocc, nvirt = sizes if m % 2 == 0 else ((2, 1), (1, 2))
        model = Model(rng.randrange(1 << 30), nocc, nvirt, special)
        if (eval_cost(model, e1, tg) + eval_cost(model, e2, tg)) * \
                min(assigns, 4) > max_cost:
            continue
        for tgenv in target_assignments(model, list(tg), assigns, rng):
            try:
                v1 = model.eval_expr(e1, tgenv)
                v2 = model.eval_expr(e2, tgenv)
            except ZeroDivisionError:
                continue
            if scale is not None:
                v2 = v2 * frac(scale) % P
            if v1 != v2:
                return {"model_seed": model.seed, "nocc": nocc,
                        "nvirt": nvirt,
                        "targets": {repr(k): v for k, v in tgenv.items()},
                        "value_1": v1, "value_2": v2, "prime": P}
    return None
