"""Helpers of the C16 check: neutral representation of contraction schemes,
Coq literals, an independent step-by-step evaluator / brute-force term value
(plain Python, prime field), a Python mirror of the Coq decision procedure
`wf_scheme` (used only for shrinking and cross-checked against Coq on every
case), pattern canonicalisation and the input generators."""
import hashlib
import itertools
import re

import adcio

P = (1 << 61) - 1


# --------------------------------------------------------------------------
# neutral structures
#   index      : adcio.PyIdx
#   object     : (name, (PyIdx, ...))     name: ("B", k) | ("C", id)
#   step       : dict(id, names, idx, contracted, target, comp, mem)
class Conv:
    """per-case conversion context: sympy Index -> PyIdx, longname -> NBase k"""

    def __init__(self):
        self.ictx = adcio.IdxCtx()
        self.names = {}
        self.icache = {}

    def idx(self, s):
        if s not in self.icache:
            self.icache[s] = self.ictx.conv(s)
        return self.icache[s]

    def idxs(self, t):
        return tuple(self.idx(s) for s in t)

    def name(self, n):
        m = re.fullmatch(r"contraction_(\d+)", n)
        if m:
            return ("C", int(m.group(1)))
        if n not in self.names:
            self.names[n] = len(self.names)
        return ("B", self.names[n])


def counter_value():
    from adcgen.generate_code.contraction import Contraction
    return int(repr(Contraction._instance_counter)[6:-1])


def conv_step(c, cv):
    sc = c.scaling
    f = lambda s: (s.total, s.general, s.virt, s.occ)  # noqa
    names = c.names
    if isinstance(names, str):      # single-object special case
        names = ()
    return {"id": c.id, "names": tuple(cv.name(n) for n in names),
            "idx": tuple(cv.idxs(t) for t in c.indices),
            "contracted": cv.idxs(c.contracted), "target": cv.idxs(c.target),
            "comp": f(sc.computational), "mem": f(sc.memory),
            "cname": c.contraction_name}


def conv_scheme(s, cv):
    return [conv_step(c, cv) for c in s]


# --------------------------------------------------------------------------
# Coq literals
class Lit:
    """index table of one case: indices are written (i k)"""

    def __init__(self):
        self.table = {}

    def ix(self, x):
        if x not in self.table:
            self.table[x] = len(self.table)
        return f"(i {self.table[x]})"

    def il(self, xs):
        return "[" + ";".join(self.ix(x) for x in xs) + "]"

    def name(self, n):
        return f"(NBase {n[1]})" if n[0] == "B" else f"(NContr {n[1]}%N)"

    def obj(self, o):
        return f"({self.name(o[0])},{self.il(o[1])})"

    def objs(self, os):
        return "[" + ";".join(self.obj(o) for o in os) + "]"

    def step(self, c):
        sc = lambda t: "(SC %d %d %d %d)" % t  # noqa
        return ("(mkC %d%%N [%s] [%s] %s %s (Scal %s %s))" % (
            c["id"], ";".join(self.name(n) for n in c["names"]),
            ";".join(self.il(t) for t in c["idx"]), self.il(c["contracted"]),
            self.il(c["target"]), sc(c["comp"]), sc(c["mem"])))

    def scheme(self, s):
        return "[" + ";".join(self.step(c) for c in s) + "]"

    def wrap(self, body):
        tab = sorted(self.table.items(), key=lambda kv: kv[1])
        lst = "[" + ";".join(x.coq() for x, _ in tab) + "]"
        return (f"let I := {lst} in let i := fun k => nth k I "
                f"(Idx Gen NoSpin 0 0 0) in {body}")


def opt(v):
    return "None" if v is None else f"(Some {v})"


COQ_HEADER = """From Coq Require Import ZArith NArith List Bool.
From ADC Require Import Core.Scalar Core.Index Core.Expr Models.Contraction.
Import ListNotations.
"""


# --------------------------------------------------------------------------
# digest (must agree with Models/Contraction.v: scheme_digest)
def _digest(nums):
    h = 7
    for x in nums:
        h = ((h << 20) + 7 * h + x + 1) & P
    return h


def _ilist_code(xs):
    out = [len(xs)]
    for x in xs:
        sp, spn, num, let, uid = x.key
        out.append(sp + 3 * (spn + 3 * (let + 256 * (num + 1024 * uid))))
    return out


def step_code(c):
    out = [c["id"], len(c["names"])]
    out += [2 * n[1] + (1 if n[0] == "C" else 0) for n in c["names"]]
    out.append(len(c["idx"]))
    for t in c["idx"]:
        out += _ilist_code(t)
    out += _ilist_code(c["contracted"]) + _ilist_code(c["target"])
    out += list(c["comp"]) + list(c["mem"])
    return out


def scheme_digest(s):
    nums = [len(s)]
    for c in s:
        nums += step_code(c)
    return _digest(nums)


# --------------------------------------------------------------------------
# Python mirror of wf_scheme (Models/Contraction.v)
def _remove_objs(os, pool):
    pool = list(pool)
    for o in os:
        if o in pool:
            pool.remove(o)
        else:
            return None
    return pool


def step_local_ok(c):
    al = [x for t in c["idx"] for x in t]
    ct, tg = c["contracted"], c["target"]
    return (len(c["names"]) == len(c["idx"]) and len(set(ct)) == len(ct)
            and len(set(tg)) == len(tg) and not set(ct) & set(tg)
            and set(al) == set(ct) | set(tg))


def wf_scheme(objs, tg, s):
    if any(o[0][0] != "B" for o in objs) or len(set(tg)) != len(tg) or not s:
        return False
    pool = list(objs)
    for n, c in enumerate(s):
        pool2 = _remove_objs(list(zip(c["names"], c["idx"])), pool)
        if pool2 is None or not step_local_ok(c):
            return False
        outside = {x for o in pool2 for x in o[1]}
        if any(x in tg or x in outside for x in c["contracted"]):
            return False
        if any(o[0] == ("C", c["id"]) for o in pool2):
            return False
        if n == len(s) - 1:
            return not pool2 and tuple(c["target"]) == tuple(tg)
        pool = [(("C", c["id"]), tuple(c["target"]))] + pool2
    return False


# --------------------------------------------------------------------------
# numeric evaluation: values in F_P, deterministic pseudo-random tensors
def tensor_value(seed, name, args):
    d = hashlib.sha256(repr((seed, name, tuple(args))).encode()).digest()
    return int.from_bytes(d[:10], "big") % P


def default_ranges(seed=0):
    sizes = {}
    base = {"occ": 2, "virt": 3, "general": 2}
    for sp in base:
        for n, s in enumerate(("", "a", "b")):
            lo = 10 * adcio.SPACE_CODE[sp] + 100 * n
            sizes[(sp, s)] = list(range(lo, lo + base[sp] - (1 if n == 2 and base[sp] > 2 else 0)))
    return sizes


def _assignments(xs, ranges):
    xs = list(xs)
    for vals in itertools.product(*(ranges[x.sort] for x in xs)):
        yield dict(zip(xs, vals))


def term_value(objs, tg, tg_vals, ranges, seed):
    """sum over all non-target indices of the product of all base objects"""
    env0 = dict(zip(tg, tg_vals))
    con = []
    for o in objs:
        for x in o[1]:
            if x not in env0 and x not in con:
                con.append(x)
    tot = 0
    for asg in _assignments(con, ranges):
        env = dict(env0)
        env.update(asg)
        p = 1
        for name, ix in objs:
            p = p * tensor_value(seed, name, [env[x] for x in ix]) % P
        tot = (tot + p) % P
    return tot


class SchemeEvalError(Exception):
    pass


def eval_scheme(s, ranges, seed):
    """step-by-step einsum interpretation; returns (target tuple, function
    tuple of target values -> value) of the last step.  Every step sums over
    its `contracted` indices and is indexed by its `target` indices; indices
    of its objects that are in neither raise SchemeEvalError."""
    store = {}

    def value(name, args):
        if name[0] == "B":
            return tensor_value(seed, name, args)
        if name not in store:
            raise SchemeEvalError(f"result of {name} used before computed")
        return store[name][tuple(args)]

    last = None
    for c in s:
        tab = {}
        for tasg in _assignments(c["target"], ranges):
            tot = 0
            for casg in _assignments(c["contracted"], ranges):
                env = dict(tasg)
                env.update(casg)
                p = 1
                for name, ix in zip(c["names"], c["idx"]):
                    try:
                        args = [env[x] for x in ix]
                    except KeyError:
                        raise SchemeEvalError("index neither contracted nor "
                                              "target in a step")
                    p = p * value(name, args) % P
                tot = (tot + p) % P
            tab[tuple(tasg[x] for x in c["target"])] = tot
        store[("C", c["id"])] = tab
        last = c
    return tuple(last["target"]), store[("C", last["id"])]


MAX_OPS = 400000        # cap on loop iterations of one numeric comparison


def _size(xs, ranges):
    n = 1
    for x in xs:
        n *= len(ranges[x.sort])
    return n


def numeric_cost(objs, tg, s, ranges):
    """number of innermost loop iterations of eval_scheme + term_value;
    None if a step's contracted/target lists are not a partition of its
    indices (evaluation is refused)"""
    cost = 0
    for c in s:
        if not step_local_ok(c):
            return None
        cost += _size(list(c["target"]) + list(c["contracted"]), ranges) \
            * max(1, len(c["names"]))
    alli = {x for o in objs for x in o[1]} | set(tg)
    cost += _size(alli, ranges) * max(1, len(objs))
    return cost


def numeric_check(objs, tg, s, seed=1):
    """True if the scheme evaluates to the term on all target assignments,
    otherwise a description of the first difference.  Guards: the step data
    are validated first (contracted/target must partition the indices of the
    step) and the total work is capped; {"skipped": ...} means that no
    comparison was made."""
    ranges = default_ranges()
    if not s:
        return {"error": "empty scheme"}
    cost = numeric_cost(objs, tg, s, ranges)
    if cost is None:
        return {"error": "contracted/target lists of a step do not "
                         "partition the indices of the step"}
    if cost > MAX_OPS:
        return {"skipped": f"numeric comparison too large ({cost} loop "
                           f"iterations > {MAX_OPS})"}
    try:
        t, tab = eval_scheme(s, ranges, seed)
    except SchemeEvalError as ex:
        return {"error": str(ex)}
    if tuple(t) != tuple(tg):
        return {"final_target": [repr(x) for x in t],
                "requested": [repr(x) for x in tg]}
    for asg in _assignments(tg, ranges):
        vals = tuple(asg[x] for x in tg)
        a, b = tab[vals], term_value(objs, tg, vals, ranges, seed)
        if a != b:
            return {"target_values": list(vals), "scheme_value": a,
                    "term_value": b, "field": f"F_p, p = 2^61-1",
                    "tensor_values": "sha256(seed, name, args) mod p",
                    "seed": seed}
    return True


# --------------------------------------------------------------------------
# canonical description of an index pattern: objects as strings of index
# letters, indices renamed in order of first appearance per (space, spin)
_LET = {"occ": "ijklmno", "virt": "abcdefgh", "general": "pqrstuvw"}


def pattern_key(objs, tg, mid=None, mg=None):
    """objs: list of (name, idx tuple) -- names are dropped except for
    equality (repeated objects); canonical up to renaming of indices and
    reordering of objects is not attempted (order matters for the search)"""
    ren, cnt = {}, {}

    def r(x):
        if x not in ren:
            k = (x.space, x.spin)
            n = cnt.get(k, 0)
            cnt[k] = n + 1
            let = _LET[x.space]
            nm = let[n % len(let)] + (str(n // len(let)) if n >= len(let) else "")
            ren[x] = nm + ("_" + x.spin if x.spin else "")
        return ren[x]

    names = {}
    parts = []
    for name, ix in objs:
        if name not in names:
            names[name] = chr(ord("A") + len(names)) if len(names) < 26 \
                else f"T{len(names)}"
        parts.append(names[name] + "_" + "".join(r(x) for x in ix))
    s = ",".join(parts) + "->" + "".join(r(x) for x in tg)
    if mid is not None:
        s += f";max_itmd_dim={mid}"
    if mg is not None:
        s += f";max_n={mg}"
    return s
