"""Explicit determinant-space linear algebra over the prime field numeric.P:
Hamiltonians of small spin-orbital model spaces, Rayleigh-Schroedinger
perturbation theory for an arbitrary partitioning H = H0 + H1 (MP: H0 = sum
eps_p a+_p a_p; RE: excitation-class conserving part), power series in the
perturbation parameter, projections on excited determinants.  Independent of
adcgen: used to decide C02-C05 numerically against the derived formulas and
as failing-input search."""
import itertools
from numeric import P, inv, _h


def popcount(x):
    return bin(x).count("1")


def act(create, x, det):
    """a+_x / a_x on a determinant (bit mask); returns (sign, det) or None"""
    bit = 1 << x
    occupied = bool(det & bit)
    if create == occupied:
        return None
    sign = -1 if popcount(det & (bit - 1)) & 1 else 1
    return sign, det ^ bit


def apply_string(ops, det):
    """product of elementary operators (leftmost acts last)"""
    sign = 1
    for create, x in reversed(ops):
        r = act(create, x, det)
        if r is None:
            return None
        s, det = r
        sign *= s
    return sign, det


class Vec(dict):
    """sparse vector det -> value mod P"""

    def add(self, det, val):
        v = (self.get(det, 0) + val) % P
        if v:
            self[det] = v
        elif det in self:
            del self[det]

    def scaled(self, c):
        out = Vec()
        for d, v in self.items():
            out.add(d, v * c)
        return out

    def plus(self, other, c=1):
        out = Vec(self)
        for d, v in other.items():
            out.add(d, v * c)
        return out

    def dot(self, other):
        return sum(v * other.get(d, 0) for d, v in self.items()) % P


class Space:
    def __init__(self, nocc, nvirt, seed, canonical=True):
        self.nocc, self.nvirt = nocc, nvirt
        self.n = nocc + nvirt
        self.seed = seed
        self.occ = list(range(nocc))
        self.virt = list(range(nocc, self.n))
        self.ref = (1 << nocc) - 1
        n = self.n
        # orbital energies: occupied below virtual, distinct
        self.eps = [(_h(seed, "eps", p) % 997 + 1 + (2000 if p >= nocc else 0))
                    for p in range(n)]
        # real antisymmetrised integrals <pq||rs>
        V = {}
        for p, q in itertools.combinations(range(n), 2):
            for r, s in itertools.combinations(range(n), 2):
                if (p, q) <= (r, s):
                    v = _h(seed, "V", p, q, r, s) % 2001 - 1000
                    for (a, b, sg1) in ((p, q, 1), (q, p, -1)):
                        for (c, d, sg2) in ((r, s, 1), (s, r, -1)):
                            V[(a, b, c, d)] = sg1 * sg2 * v
                            V[(c, d, a, b)] = sg1 * sg2 * v
        self.V = V
        # Fock matrix: canonical (diagonal) or general symmetric
        self.f = [[0] * n for _ in range(n)]
        for p in range(n):
            self.f[p][p] = self.eps[p]
        if not canonical:
            # non-canonical orbitals that still satisfy Brillouin's theorem
            # (f_ov = 0): only the oo and vv blocks get off-diagonal elements
            for p, q in itertools.combinations(range(n), 2):
                if (p < nocc) != (q < nocc):
                    continue
                v = _h(seed, "f", p, q) % 401 - 200
                self.f[p][q] = self.f[q][p] = v
        self.dets = [sum(1 << o for o in c)
                     for c in itertools.combinations(range(n), nocc)]

    def v(self, p, q, r, s):
        return self.V.get((p, q, r, s), 0)

    def is_occ(self, p):
        return p < self.nocc

    # ---- operators as functions on vectors --------------------------------
    def one_body(self, mat, vec):
        out = Vec()
        n = self.n
        for det, c in vec.items():
            for q in range(n):
                if not det & (1 << q):
                    continue
                s1, d1 = act(False, q, det)
                for p in range(n):
                    m = mat[p][q]
                    if not m:
                        continue
                    r = act(True, p, d1)
                    if r is None:
                        continue
                    out.add(r[1], c * s1 * r[0] * m)
        return out

    def two_body(self, sel, vec):
        """1/4 sum V_pqrs a+_p a+_q a_s a_r restricted to index quadruples
        with sel(p,q,r,s) true"""
        out = Vec()
        n = self.n
        for det, c in vec.items():
            occ = [x for x in range(n) if det & (1 << x)]
            for r, s in itertools.permutations(occ, 2):
                r1 = act(False, r, det)
                r2 = act(False, s, r1[1])
                for p in range(n):
                    for q in range(n):
                        if p == q:
                            continue
                        m = self.v(p, q, r, s)
                        if not m or not sel(p, q, r, s):
                            continue
                        r3 = act(True, q, r2[1])
                        if r3 is None:
                            continue
                        r4 = act(True, p, r3[1])
                        if r4 is None:
                            continue
                        out.add(r4[1], c * r1[0] * r2[0] * r3[0] * r4[0] * m
                                * inv(4))
        return out

    def two_body_ten(self, ten, vec):
        """1/4 sum ten[p,q,r,s] a+_p a+_q a_s a_r for an arbitrary tensor
        (dict), antisymmetric in (p,q) and in (r,s)"""
        out = Vec()
        n = self.n
        for det, c in vec.items():
            occ = [x for x in range(n) if det & (1 << x)]
            for r, s in itertools.permutations(occ, 2):
                r1 = act(False, r, det)
                r2 = act(False, s, r1[1])
                for p in range(n):
                    for q in range(n):
                        if p == q:
                            continue
                        m = ten.get((p, q, r, s), 0)
                        if not m:
                            continue
                        r3 = act(True, q, r2[1])
                        if r3 is None:
                            continue
                        r4 = act(True, p, r3[1])
                        if r4 is None:
                            continue
                        out.add(r4[1], c * r1[0] * r2[0] * r3[0] * r4[0] * m
                                * inv(4))
        return out

    def meanfield(self):
        n = self.n
        return [[-sum(self.v(p, k, q, k) for k in self.occ) % P
                 for q in range(n)] for p in range(n)]

    def _mask(self, mat, keep):
        n = self.n
        return [[mat[p][q] if keep(p, q) else 0 for q in range(n)]
                for p in range(n)]

    def partition(self, variant):
        """returns (H0, H1) as functions vec -> vec"""
        mf = self.meanfield()
        n = self.n
        h_full = [[(self.f[p][q] + mf[p][q]) % P for q in range(n)]
                  for p in range(n)]
        if variant == "mp":
            def H0(v):
                return self.one_body(self.f, v)

            def H1(v):
                return self.one_body(mf, v).plus(
                    self.two_body(lambda *a: True, v))
            return H0, H1
        # RE: excitation-class conserving part
        same = lambda p, q: self.is_occ(p) == self.is_occ(q)  # noqa

        def cons(p, q, r, s):
            return (sum(map(self.is_occ, (p, q))) ==
                    sum(map(self.is_occ, (r, s))))
        h0m = self._mask(h_full, same)
        h1m = self._mask(h_full, lambda p, q: not same(p, q))

        def H0(v):
            return self.one_body(h0m, v).plus(self.two_body(cons, v))

        def H1(v):
            return self.one_body(h1m, v).plus(
                self.two_body(lambda *a: not cons(*a), v))
        return H0, H1

    # ---- RSPT ----------------------------------------------------------------
    def solve(self, H0, e0, rhs):
        """solve (e0 - H0) x = rhs in the space orthogonal to the reference"""
        basis = [d for d in self.dets if d != self.ref]
        idx = {d: i for i, d in enumerate(basis)}
        m = len(basis)
        A = [[0] * (m + 1) for _ in range(m)]
        for j, d in enumerate(basis):
            col = H0(Vec({d: 1}))
            for d2, v in col.items():
                if d2 in idx:
                    A[idx[d2]][j] = (A[idx[d2]][j] - v) % P
            A[j][j] = (A[j][j] + e0) % P
        for d, v in rhs.items():
            if d in idx:
                A[idx[d]][m] = v % P
        # gaussian elimination mod P
        for c in range(m):
            piv = next((r for r in range(c, m) if A[r][c] % P), None)
            if piv is None:
                raise ZeroDivisionError("singular resolvent")
            A[c], A[piv] = A[piv], A[c]
            iv = inv(A[c][c])
            A[c] = [x * iv % P for x in A[c]]
            for r in range(m):
                if r != c and A[r][c]:
                    f = A[r][c]
                    A[r] = [(x - f * y) % P for x, y in zip(A[r], A[c])]
        return Vec({d: A[i][m] for d, i in idx.items() if A[i][m]})

    def rspt(self, variant, order):
        """energies E[0..order] and wavefunctions psi[0..order] (intermediate
        normalisation)"""
        H0, H1 = self.partition(variant)
        ref = Vec({self.ref: 1})
        e0 = H0(ref).get(self.ref, 0)
        E = [e0]
        psi = [ref]
        for n in range(1, order + 1):
            h1p = H1(psi[n - 1])
            E.append(h1p.get(self.ref, 0))
            rhs = Vec(h1p)
            for m in range(1, n + 1):
                if n - m >= 1:
                    rhs = rhs.plus(psi[n - m], -E[m])
            rhs.pop(self.ref, None)
            psi.append(self.solve(H0, e0, rhs))
        self.H0, self.H1 = H0, H1
        return E, psi

    # ---- amplitudes -----------------------------------------------------------
    def excite(self, virt, occ):
        """a+_a a+_b ... a_j a_i |ref>  (creation in the given order,
        annihilation reversed) -> (sign, det) or None"""
        ops = [(True, a) for a in virt] + [(False, i) for i in reversed(occ)]
        return apply_string(ops, self.ref)

    def amplitude(self, vec, virt, occ):
        """coefficient t^{virt}_{occ} with the library's sign convention
        (doubles enter the wavefunction with a minus sign)"""
        r = self.excite(virt, occ)
        if r is None:
            return 0
        sign, det = r
        c = vec.get(det, 0) * sign
        if len(occ) == 2:
            c = -c
        return c % P


# ---- truncated power series of scalars / vectors ---------------------------
def series_mul(a, b, order):
    out = [0] * (order + 1)
    for i, x in enumerate(a):
        for j, y in enumerate(b):
            if i + j <= order:
                out[i + j] = (out[i + j] + x * y) % P
    return out


def series_inv(a, order):
    """1/a for a[0] != 0"""
    out = [inv(a[0])] + [0] * order
    for n in range(1, order + 1):
        s = sum(a[k] * out[n - k] for k in range(1, n + 1)
                if k < len(a)) % P
        out[n] = (-s * out[0]) % P
    return out


# ---- certificate for the Coq checker ADC.Models.RSPTCheck.rspt_ok ---------
def rspt_cert_term(space, E, psi, order):
    """Coq term `rspt_ok P N H0 H1 E Psi ref` for the RSPT solution computed
    by Space.rspt (dense matrices over the determinant basis, values in
    [0, P)); evaluated with vm_compute it must give true"""
    dets = space.dets
    pos = {d: i for i, d in enumerate(dets)}
    n = len(dets)

    def dense(H):
        M = [[0] * n for _ in range(n)]
        for j, d in enumerate(dets):
            for d2, v in H(Vec({d: 1})).items():
                M[pos[d2]][j] = v % P
        return M

    def zl(xs):
        return "[" + "; ".join(str(x % P) for x in xs) + "]"

    def zm(M):
        return "[" + "; ".join(zl(r) for r in M) + "]"
    H0, H1 = dense(space.H0), dense(space.H1)
    Psi = [[psi[k].get(d, 0) for k in range(order + 1)] for d in dets]
    return (f"rspt_ok {P} {order} {zm(H0)} {zm(H1)} {zl(E[:order + 1])} "
            f"{zm(Psi)} {pos[space.ref]}")


RSPT_HEADER = """From Coq Require Import ZArith List.
From ADC Require Import Models.RSPTCheck.
Import ListNotations.
Open Scope Z_scope.
"""


def certify(ctx, prop, models, order, nocc=3, nvirt=3):
    """certify the RSPT series of the given (variant, seed) models with the
    Coq checker; returns True if all were accepted"""
    cases = []
    for variant, seed in models:
        space = Space(nocc, nvirt, seed, canonical=(variant == "mp"))
        E, psi = space.rspt(variant, order)
        cases.append(rspt_cert_term(space, E, psi, order))
    vals, errs = ctx.coq_eval("rspt", cases, header=RSPT_HEADER, shard=4)
    ok_all = True
    for (variant, seed), v in zip(models, vals):
        ctx.case(key=("rspt-certificate", variant, seed), nontrivial=True,
                 kind="rspt-certificate")
        if not ctx.obligation(f"explicit {variant} RSPT series of model "
                              f"{seed} accepted by rspt_ok (orders 0-"
                              f"{order})", v == "true", str(v)):
            ok_all = False
            ctx.violation(f"{prop}:explicit-engine:{variant}",
                          "the explicit determinant-space perturbation "
                          "series is rejected by the verified checker "
                          "rspt_ok (harness/detspace.py is wrong)",
                          {"variant": variant, "seed": seed}, False)
    return ok_all
