"""Helpers of the C15 plug-in: observation wrappers around
adcgen.spatial_orbitals, serialisation of the spin model's inputs, parsing of
the values printed by Coq, input generators and the spin-structured numeric
tensor models."""
import ast
import itertools
import logging
import re

from sympy import Add, Mul, Pow, Rational, S, Symbol

import adcio
import numeric
from adcgen import spatial_orbitals as so
from adcgen.expr_container import Expr
from adcgen.indices import get_symbols, sort_idx_canonical
from adcgen.intermediates import Intermediates
from adcgen.logger import logger
from adcgen.sympy_objects import (AntiSymmetricTensor, SymmetricTensor,
                                  Amplitude, NonSymmetricTensor,
                                  KroneckerDelta)

COQ_HEADER = adcio.COQ_HEADER + \
    "From ADC Require Import Models.Spin.\nOpen Scope list_scope.\n"

ERR_CLASS = {1: "ValueError", 2: "IndexError", 3: "RuntimeError",
             4: "ValueError", 5: "NotImplementedError", 6: "ValueError",
             7: "RuntimeError", 8: "ValueError", 9: "KeyError",
             10: "RuntimeError"}


def quiet():
    logger.setLevel(logging.ERROR)


# --------------------------------------------------------------------------
# Coq literals / parsing
# --------------------------------------------------------------------------
def coq_sp(ch):
    return {"a": "SA", "b": "SB"}[ch]


def coq_block(b):
    return "[" + "; ".join(coq_sp(c) for c in b) + "]"


def coq_blocks(bs):
    return "[" + "; ".join(coq_block(b) for b in bs) + "]"


def coq_itab(tabs):
    return "[" + "; ".join(f"({adcio.coq_str(k)}, {coq_blocks(v)})"
                           for k, v in tabs.items()) + "]"


def coq_tmap(pairs):
    return "[" + "; ".join(f"({x.coq()}, {coq_sp(s)})" for x, s in pairs) + "]"


def coq_bool(b):
    return "true" if b else "false"


def parse_res(v):
    """'Ok <value>' / 'Err n' -> ('ok', python value) / ('err', n);
    values are nested lists over SA/SB/None/true/false"""
    if v is None:
        return ("fail", None)
    v = v.strip()
    if v.startswith("Err"):
        return ("err", int(re.sub(r"[^0-9]", "", v)))
    if v.startswith("Ok"):
        v = v[2:].strip()
    v = v.replace("Some SA", "a").replace("Some SB", "b")
    v = v.replace("Some ", "").replace("(", "").replace(")", "")
    v = v.replace("None", "-").replace("SA", "a").replace("SB", "b")
    v = v.replace("true", "True").replace("false", "False")
    v = re.sub(r"(?<![A-Za-z])([ab\-])(?![A-Za-z])", r"'\1'", v)
    v = v.replace(";", ",")
    return ("ok", ast.literal_eval(v))


# --------------------------------------------------------------------------
# intermediates: block tables dumped from the running library (data tie)
# --------------------------------------------------------------------------
def dump_itab():
    tabs, failed, info = {}, {}, {}
    for name, it in Intermediates().available.items():
        try:
            tabs[name] = tuple(it.allowed_spin_blocks)
        except Exception as ex:       # noqa
            failed[name] = type(ex).__name__
            continue
        tens = it.tensor().terms[0].objects[0]
        info[name] = {"default_idx": tuple(get_symbols(it.default_idx)),
                      "obj_idx": tuple(tens.idx),
                      "longname": tens.longname(True),
                      "obj_blocks": tens.allowed_spin_blocks}
    return tabs, failed, info


# --------------------------------------------------------------------------
# serialisation of a term for the spin model
# --------------------------------------------------------------------------
def term_atoms(term, ictx):
    """atoms of the objects of an adcgen Term in the order of term.objects
    (numbers dropped: they have no indices and no block table)"""
    out = []
    for o in term.objects:
        b = o.sympy
        if b.is_number:
            continue
        if isinstance(b, Pow):
            b = b.args[0]
        out.append(adcio.conv_base(b, ictx))
    return out


def coq_atoms(atoms):
    return "[" + "; ".join(adcio.coq_atom(a) for a in atoms) + "]"


def term_tidx(term, ictx):
    return [ictx.conv(x) for x in
            sorted(set(term.idx), key=sort_idx_canonical)]


# --------------------------------------------------------------------------
# observation of integrate_spin
# --------------------------------------------------------------------------
class Observation:
    def __init__(self):
        self.subs = []          # substitution dict of every variant, in order
        self.pre = []           # contributions before the final simplify
        self.exc = None
        self.exc_in_simplify = False
        self.result = None


def observe_integrate(E, names, spins):
    ob = Observation()
    o_ord, o_simp = so.order_substitutions, so.simplify

    def w_ord(sub):
        ob.subs.append(dict(sub))
        return o_ord(sub)

    def w_simp(x):
        ob.pre.append(x.sympy)
        try:
            return o_simp(x)
        except Exception:
            ob.exc_in_simplify = True
            raise
    so.order_substitutions, so.simplify = w_ord, w_simp
    try:
        ob.result = so.integrate_spin(E, names, spins)
    except Exception as ex:     # noqa
        ob.exc = type(ex).__name__
        ob.exc_msg = str(ex)[:200]
    finally:
        so.order_substitutions, so.simplify = o_ord, o_simp
    return ob


def variants_of(ob, tidx_sym):
    """observed variants as tuples over the sorted term indices"""
    out = []
    for sub in ob.subs:
        out.append([sub[x].spin if x in sub else "-" for x in tidx_sym])
    return out


# --------------------------------------------------------------------------
# generators
# --------------------------------------------------------------------------
OCC, VIRT = "ijkl", "abcd"


def itmd_tensor(name, idx):
    return Intermediates().available[name].tensor(indices=idx,
                                                  return_sympy=True)


def _draw(rng, pool, n):
    return rng.sample(pool, n)


def vocab(rng):
    """returns a list of constructors f(rng) -> sympy object"""
    o = get_symbols(OCC)
    v = get_symbols(VIRT)

    def eri(rng):
        pat = rng.choice(["oovv", "oovv", "ooov", "ovvv", "oooo", "vvvv",
                          "ovov"])
        while True:
            ix = [rng.choice(o if c == "o" else v) for c in pat]
            if ix[0] != ix[1] and ix[2] != ix[3]:
                break
        return AntiSymmetricTensor("V", tuple(ix[:2]), tuple(ix[2:]), 1)

    def t2amp(rng):
        nm = rng.choice(["t1", "t2", "t1", "t3", "t1cc"])
        return Amplitude(nm, tuple(_draw(rng, v, 2)), tuple(_draw(rng, o, 2)))

    def t1amp(rng):
        nm = rng.choice(["t2", "t3", "t2cc"])
        return Amplitude(nm, (rng.choice(v),), (rng.choice(o),))

    def t3amp(rng):
        return Amplitude("t2", tuple(_draw(rng, v, 3)), tuple(_draw(rng, o, 3)))

    def delta(rng):
        p = rng.choice([o, v])
        x, y = _draw(rng, p, 2)
        return KroneckerDelta(x, y)

    def fock(rng):
        pat = rng.choice(["oo", "vv", "ov"])
        ix = [rng.choice(o if c == "o" else v) for c in pat]
        return AntiSymmetricTensor("f", (ix[0],), (ix[1],), 1)

    def orb(rng):
        return NonSymmetricTensor("e", (rng.choice(o + v),))

    def denom(rng):
        if rng.random() < 0.5:
            return SymmetricTensor("D", tuple(_draw(rng, o, 2)),
                                   tuple(_draw(rng, v, 2)), -1)
        return SymmetricTensor("D", (rng.choice(o),), (rng.choice(v),), -1)

    def adcamp(rng):
        nm = rng.choice("XY")
        if rng.random() < 0.5:
            return Amplitude(nm, (rng.choice(v),), (rng.choice(o),))
        return Amplitude(nm, tuple(_draw(rng, v, 2)), tuple(_draw(rng, o, 2)))

    def opmat(rng):
        pat = rng.choice(["oo", "vv", "ov", "vo"])
        ix = [rng.choice(o if c == "o" else v) for c in pat]
        return AntiSymmetricTensor("d", (ix[0],), (ix[1],))

    def itmd(rng):
        nm = rng.choice(["p0_2_oo", "p0_2_vv", "p0_3_ov", "t2eri_1",
                         "t2eri_3", "t2eri_4", "t2eri_6", "t2sq", "t2eri_A"])
        it = Intermediates().available[nm]
        used = {"o": [], "v": []}
        ix = []
        for d in get_symbols(it.default_idx):
            pool = o if d.space == "occ" else v
            key = "o" if d.space == "occ" else "v"
            cand = [x for x in pool if x not in used[key]]
            x = rng.choice(cand)
            used[key].append(x)
            ix.append(x)
        return it.tensor(indices=ix, return_sympy=True)

    def coul(rng):
        pat = rng.choice(["ovov", "oovv", "oooo"])
        ix = [rng.choice(o if c == "o" else v) for c in pat]
        return SymmetricTensor("v", tuple(ix[:2]), tuple(ix[2:]), 1)

    return {"V": eri, "t2": t2amp, "t1": t1amp, "t3": t3amp, "delta": delta,
            "f": fock, "e": orb, "D": denom, "XY": adcamp, "d": opmat,
            "itmd": itmd, "v": coul}


WEIGHTS = [("V", 5), ("t2", 5), ("t1", 3), ("t3", 1), ("delta", 2), ("f", 2),
           ("e", 1), ("D", 2), ("XY", 2), ("d", 1), ("itmd", 3), ("v", 1)]


def random_product(rng, voc, n_obj, kinds=None):
    names = [k for k, w in WEIGHTS for _ in range(w)
             if kinds is None or k in kinds]
    facs, used = [], []
    for _ in range(n_obj):
        k = rng.choice(names)
        used.append(k)
        facs.append(voc[k](rng))
    if rng.random() < 0.1:
        facs[0] = facs[0] ** 2
    c = Rational(rng.choice([1, -1, 1, 2, -1, 1]), rng.choice([1, 2, 4, 1]))
    return c * Mul(*facs), used


def pick_targets(rng, term_sym, max_t=4):
    """choose target indices among the indices of the product: either the
    Einstein targets (indices occurring once) or an explicit choice"""
    E = Expr(term_sym)
    if E.sympy == 0:
        return None
    t = E.terms[0]
    ein = list(t.target)
    allidx = sorted(set(t.idx), key=sort_idx_canonical)
    if len(ein) <= max_t and rng.random() < 0.5:
        return ein, False
    n = rng.randint(0, min(max_t, len(allidx)))
    return rng.sample(allidx, n), True


# --------------------------------------------------------------------------
# numeric tensor models with spin structure
# --------------------------------------------------------------------------
def _spins(model, orbs):
    return "".join(model.orbs[o][1] for o in orbs)


def phys_allowed(name, kind, spins_up, spins_lo, tabs, key):
    """is the spin block of a tensor allowed?  ERI / t-amplitudes: number of
    alpha spins conserved between upper and lower; Coulomb integral (pq|rs)
    stored as v^{pq}_{rs}: s_p = s_q and s_r = s_s; other tensors: the table
    dumped from the running library (None: no restriction)"""
    if name == "V" or re.fullmatch(r"t\d*(cc)?", name):
        return spins_up.count("a") == spins_lo.count("a")
    if name == "v":
        return len(set(spins_up)) <= 1 and len(set(spins_lo)) <= 1
    tb = tabs.get(key)
    if tb is None:
        return True
    blk = (spins_lo + spins_up) if kind == "KAmp" else (spins_up + spins_lo)
    return blk in tb


class SpinSpecial(dict):
    """special-value table of numeric.Model: zero outside the allowed blocks;
    restricted: alpha and beta tensors coincide (value taken at the alpha
    partners); eri_from_coulomb: <pq||rs> = d d (pr|qs) - d d (ps|qr)"""

    def __init__(self, tabs, keyfun, restricted=False, eri_from_coulomb=False):
        super().__init__()
        self["__nonempty__"] = None     # numeric.Model tests truthiness
        self.tabs, self.keyfun = tabs, keyfun
        self.restricted = restricted
        self.eri_from_coulomb = eri_from_coulomb

    def get(self, name, default=None):
        def f(model, kind, bks, up, lo):
            su, sl = _spins(model, up), _spins(model, lo)
            key = self.keyfun(name, model, up, lo)
            if not phys_allowed(name, kind, su, sl, self.tabs, key):
                return 0
            if self.restricted:
                up = tuple(model.alpha_of[o] for o in up)
                lo = tuple(model.alpha_of[o] for o in lo)
            if name == "V" and self.eri_from_coulomb and len(up) == 2 \
                    and len(lo) == 2:
                p, q = up
                r, s = lo
                sp = lambda x: model.orbs[x][1]  # noqa
                val = 0
                if self.restricted:
                    # spins were consumed above; recompute from su/sl
                    a, b_, c, d = su[0], su[1], sl[0], sl[1]
                else:
                    a, b_, c, d = sp(p), sp(q), sp(r), sp(s)
                if a == c and b_ == d:
                    val += model.base.tv("KSym", "v", 1, (p, r), (q, s))
                if a == d and b_ == c:
                    val -= model.base.tv("KSym", "v", 1, (p, s), (q, r))
                return val
            return model.base.tv(kind, name, bks, up, lo)
        return f


def space_key(name, model, up, lo):
    """longname(True) of a tensor that is not a t-amplitude, from the spaces of
    the orbitals"""
    sp = "".join("o" if model.orbs[o][0] else "v" for o in up + lo)
    if re.fullmatch(r"p\d*", name):
        return f"p0_{name[1:]}_{sp}" if name[1:] else f"p0_{sp}"
    if name.startswith("t2eri"):
        return "t2eri_" + name[5:]
    if name == "t2sq":
        return name
    return f"{name}_{sp}"


def spin_model(seed, n, tabs, restricted=False, eri_from_coulomb=False):
    """n alpha + n beta occupied and virtual spin orbitals"""
    spec = SpinSpecial(tabs, space_key, restricted, eri_from_coulomb)
    m = numeric.Model(seed, (n, n), (n, n), spec)
    m.base = numeric.Model(seed, (n, n), (n, n))
    # orbs: occ alpha (n), occ beta (n), virt alpha (n), virt beta (n)
    m.alpha_of = {}
    for o, (occ, s) in enumerate(m.orbs):
        m.alpha_of[o] = o if s == "a" else o - n
    if restricted and eri_from_coulomb:
        # the Coulomb integral must itself be spin independent
        pass
    return m
