"""Serialisation of adcgen / sympy objects into a neutral Python structure
("pyterm") and into Coq literals of ADC.Core.Expr.

The walker looks at the sympy tree directly (Add / Mul / Pow / tensor classes)
and does not use adcgen's Expr/Term/Obj containers, so that a defect in those
containers cannot hide behind the serialiser.
"""
from fractions import Fraction
import sympy
from sympy import Add, Mul, Pow, Rational, Symbol, S
from sympy.physics.secondquant import F, Fd, NO

from adcgen.sympy_objects import (AntiSymmetricTensor, SymmetricTensor,
                                  Amplitude, NonSymmetricTensor,
                                  KroneckerDelta)
from adcgen.indices import Index, Indices


class Unsupported(Exception):
    pass


SPACE = {"general": "Gen", "occ": "Occ", "virt": "Virt"}
SPIN = {"": "NoSpin", "a": "Alpha", "b": "Beta"}
SPACE_CODE = {"general": 0, "occ": 1, "virt": 2}
SPIN_CODE = {"": 0, "a": 1, "b": 2}


class PyIdx(tuple):
    """(space, spin, letter, num, uid) -- hashable neutral index."""
    __slots__ = ()

    def __new__(cls, space, spin, letter, num, uid=0):
        return tuple.__new__(cls, (space, spin, letter, num, uid))

    def __getnewargs__(self):
        return tuple(self)

    space = property(lambda s: s[0])
    spin = property(lambda s: s[1])
    letter = property(lambda s: s[2])
    num = property(lambda s: s[3])
    uid = property(lambda s: s[4])

    @property
    def sort(self):
        return (self[0], self[1])

    @property
    def key(self):
        # sort_idx_canonical
        return (SPACE_CODE[self[0]], SPIN_CODE[self[1]], self[3],
                ord(self[2]), self[4])

    @property
    def name(self):
        return self[2] + (str(self[3]) if self[3] else "")

    def __repr__(self):
        s = self.name + ("_" + self[1] if self[1] else "")
        return s + (f"#{self[4]}" if self[4] else "")

    def coq(self):
        return (f"(Idx {SPACE[self[0]]} {SPIN[self[1]]} {ord(self[2])} "
                f"{self[3]} {self[4]})")


class IdxCtx:
    """Assigns uids to raw Index dummies (those not owned by the registry)."""

    def __init__(self):
        self.raw = {}

    def uid(self, idx):
        reg = Indices()._symbols.get(idx.space, {}).get(idx.spin, {})
        if reg.get(idx.name) is idx:
            return 0
        if idx not in self.raw:
            self.raw[idx] = len(self.raw) + 1
        return self.raw[idx]

    def conv(self, idx):
        if not isinstance(idx, Index):
            raise Unsupported(f"non-Index symbol {idx!r}")
        name = idx.name
        num = int(name[1:]) if name[1:] else 0
        return PyIdx(idx.space, idx.spin, name[0], num, self.uid(idx))


# --- neutral structures ---------------------------------------------------
# tensor atom : ("T", kind, name, bks, upper(tuple PyIdx), lower(tuple PyIdx))
# delta       : ("D", i, j)
# symbol      : ("S", name)
# sqrt        : ("R", int)
# poly        : ("P", ((Fraction, (tensor atoms...)), ...))
# factor      : (atom, inverted: bool)
# term        : (Fraction coef, [factors])

def tens_kind(t):
    if isinstance(t, Amplitude):
        return "KAmp"
    if isinstance(t, SymmetricTensor):
        return "KSym"
    if isinstance(t, AntiSymmetricTensor):
        return "KAnti"
    if isinstance(t, NonSymmetricTensor):
        return "KNonSym"
    raise Unsupported(type(t))


def conv_tensor(t, ctx):
    kind = tens_kind(t)
    if kind == "KNonSym":
        return ("T", kind, t.name, 0,
                tuple(ctx.conv(i) for i in t.indices), ())
    return ("T", kind, t.name, int(t.bra_ket_sym),
            tuple(ctx.conv(i) for i in t.upper),
            tuple(ctx.conv(i) for i in t.lower))


def _split_number(num):
    """number -> (Fraction, [sqrt radicands])"""
    if num.is_Rational:
        return Fraction(int(num.p), int(num.q)), []
    if num.is_Float:
        # binary floats are exact dyadic rationals (e.g. 0.5 in definitions)
        fr = Fraction(float(num))
        if fr.denominator > 1 << 20:
            # e.g. 1/6 written as a float in a definition: the library itself
            # converts prefactors with nsimplify(rational=True)
            r = sympy.nsimplify(num, rational=True)
            if not r.is_Rational or abs(float(r) - float(num)) > 1e-12:
                raise Unsupported(f"float {num!r}")
            fr = Fraction(int(r.p), int(r.q))
        return fr, []
    if isinstance(num, Pow) and num.args[1] in (S.Half, -S.Half) \
            and num.args[0].is_Integer and num.args[0] > 0:
        k = int(num.args[0])
        if num.args[1] == S.Half:
            return Fraction(1), [k]
        return Fraction(1, k), [k]
    if isinstance(num, Pow) and num.args[1] in (S.Half, -S.Half) \
            and num.args[0].is_Rational and num.args[0] > 0:
        p, q = int(num.args[0].p), int(num.args[0].q)
        # sqrt(p/q) = sqrt(p q)/q
        if num.args[1] == S.Half:
            return Fraction(1, q), [p * q]
        return Fraction(1, p), [p * q]
    if isinstance(num, Mul):
        c, r = Fraction(1), []
        for a in num.args:
            c2, r2 = _split_number(a)
            c *= c2
            r += r2
        return c, r
    raise Unsupported(f"number {num!r}")


def conv_poly(p, ctx):
    terms = []
    for t in Add.make_args(p):
        c = Fraction(1)
        ts = []
        for f in Mul.make_args(t):
            if f.is_number:
                c2, r = _split_number(f)
                if r:
                    raise Unsupported("sqrt in polynomial")
                c *= c2
            elif isinstance(f, (AntiSymmetricTensor, NonSymmetricTensor)):
                ts.append(conv_tensor(f, ctx))
            elif isinstance(f, Pow) and f.args[1].is_Integer and \
                    f.args[1] > 0 and isinstance(
                        f.args[0], (AntiSymmetricTensor, NonSymmetricTensor)):
                ts.extend([conv_tensor(f.args[0], ctx)] * int(f.args[1]))
            else:
                raise Unsupported(f"polynomial factor {f!r}")
        terms.append((c, tuple(ts)))
    return ("P", tuple(terms))


def conv_base(b, ctx):
    if isinstance(b, (AntiSymmetricTensor, NonSymmetricTensor)):
        return conv_tensor(b, ctx)
    if isinstance(b, KroneckerDelta):
        return ("D", ctx.conv(b.args[0]), ctx.conv(b.args[1]))
    if isinstance(b, Index):
        raise Unsupported("bare index")
    if isinstance(b, Symbol):
        return ("S", b.name)
    if isinstance(b, Add):
        return conv_poly(b, ctx)
    raise Unsupported(f"object {b!r} of type {type(b)}")


def conv_term(t, ctx):
    coef = Fraction(1)
    facs = []
    for f in Mul.make_args(t):
        if f.is_number:
            c, rads = _split_number(f)
            coef *= c
            facs.extend((("R", r), False) for r in rads)
            continue
        if isinstance(f, Pow):
            base, ex = f.args
            if not ex.is_Integer:
                raise Unsupported(f"exponent {ex}")
            n = int(ex)
            atom = conv_base(base, ctx)
            facs.extend([(atom, n < 0)] * abs(n))
        else:
            facs.append((conv_base(f, ctx), False))
    return (coef, facs)


def conv_expr(e, ctx=None):
    """sympy expression (or adcgen container) -> list of pyterms"""
    if ctx is None:
        ctx = IdxCtx()
    e = getattr(e, "sympy", e)
    e = sympy.sympify(e)
    if e == 0:
        return []
    return [conv_term(t, ctx) for t in Add.make_args(e)]


# --- helpers on pyterms ------------------------------------------------------
def atom_indices(a):
    if a[0] == "T":
        return list(a[4]) + list(a[5])
    if a[0] == "D":
        return [a[1], a[2]]
    if a[0] == "P":
        return [i for _, ts in a[1] for t in ts for i in atom_indices(t)]
    return []


def term_indices(t):
    return [i for a, _ in t[1] for i in atom_indices(a)]


def term_contracted(t, tg):
    seen, out = set(), []
    for i in term_indices(t):
        if i not in seen and i not in tg:
            seen.add(i)
            out.append(i)
    return out


def rename_atom(a, m):
    g = lambda i: m.get(i, i)  # noqa
    if a[0] == "T":
        return a[:4] + (tuple(g(i) for i in a[4]), tuple(g(i) for i in a[5]))
    if a[0] == "D":
        return ("D", g(a[1]), g(a[2]))
    if a[0] == "P":
        return ("P", tuple((c, tuple(rename_atom(t, m) for t in ts))
                           for c, ts in a[1]))
    return a


def rename_term(t, m):
    return (t[0], [(rename_atom(a, m), inv) for a, inv in t[1]])


# --- Coq printing ---------------------------------------------------------
def coq_q(fr):
    fr = Fraction(fr)
    n = f"{fr.numerator}" if fr.numerator >= 0 else f"({fr.numerator})"
    return f"({n}#{fr.denominator})%Q"


def coq_list(items):
    return "[" + "; ".join(items) + "]"


def coq_str(s):
    return '"' + s.replace('"', '""') + '"'


def coq_tens(a):
    _, kind, name, bks, up, lo = a
    bk = f"{bks}" if bks >= 0 else f"({bks})"
    return (f"(Tens {kind} {coq_str(name)} {bk}%Z "
            f"{coq_list(i.coq() for i in up)} {coq_list(i.coq() for i in lo)})")


def coq_atom(a):
    if a[0] == "T":
        return f"(ATens {coq_tens(a)})"
    if a[0] == "D":
        return f"(ADelta {a[1].coq()} {a[2].coq()})"
    if a[0] == "S":
        return f"(ASymb {coq_str(a[1])})"
    if a[0] == "R":
        return f"(ASqrt {a[1]}%positive)"
    if a[0] == "P":
        return "(APoly " + coq_list(
            f"({coq_q(c)}, {coq_list(coq_tens(t) for t in ts)})"
            for c, ts in a[1]) + ")"
    raise ValueError(a)


def coq_term(t):
    c, facs = t
    return (f"(Term {coq_q(c)} " + coq_list(
        f"({coq_atom(a)}, {'true' if inv else 'false'})" for a, inv in facs)
        + ")")


def coq_expr(e):
    return coq_list(coq_term(t) for t in e)


def coq_swaps(sw):
    return coq_list(f"({a.coq()}, {b.coq()})" for a, b in sw)


def coq_cert(cert):
    """cert: list (per term) of list of (Fraction weight, swaps)"""
    return coq_list(coq_list(f"({coq_q(w)}, {coq_swaps(sw)})" for w, sw in tc)
                    for tc in cert)


def coq_cert2(cert):
    """cert: list (per term) of (delta eliminations, weighted swaps)"""
    return coq_list(
        f"(mk_tcert2 {coq_swaps(ds)} "
        + coq_list(f"({coq_q(w)}, {coq_swaps(sw)})" for w, sw in ws) + ")"
        for ds, ws in cert)


COQ_HEADER2 = """From Coq Require Import ZArith QArith List String.
From ADC Require Import Core.Scalar Core.Index Core.Expr Core.Swap Core.Canon Core.Equiv Core.DeltaRule Core.Equiv2.
Import ListNotations. Open Scope string_scope.
"""

COQ_HEADER3 = """From Coq Require Import ZArith QArith List String.
From ADC Require Import Core.Scalar Core.Index Core.Expr Core.Swap Core.Canon Core.Equiv Core.DeltaRule Core.Equiv2 Core.Frac.
Import ListNotations. Open Scope string_scope.
"""

COQ_HEADER = """From Coq Require Import ZArith QArith List String.
From ADC Require Import Core.Scalar Core.Index Core.Expr Core.Swap Core.Canon Core.Equiv.
Import ListNotations. Open Scope string_scope.
"""
