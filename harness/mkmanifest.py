#!/usr/bin/env python3
"""Regenerates /verif/MANIFEST.json from the table below (keeps it valid)."""
import json
import os

VERIF = os.path.dirname(os.path.dirname(os.path.abspath(__file__)))
BASELINE = ("cd /repo && /venv/bin/python -m pytest -ra -q -p no:cacheprovider "
            "--timeout=900 --continue-on-collection-errors")

NOTE_COMMON = ("Trusted: Coq 8.16.1 kernel + vm_compute; hand-written Gallina "
               "models tied to /repo by per-run differential correspondence "
               "(harness/*.py, untrusted generators/serialiser); sympy is "
               "observed not modelled. Axioms: none (all property theorems "
               "'Closed under the global context', re-checked every run).")

CHECKS = {
    "C07": dict(
        technique="Coq proof of a reflexive equivalence validator "
                  "(check_equiv_sound) + per-call refinement check",
        text="Proved in Coq for all tensor models/targets: renaming "
             "contracted indices preserves the value, and every pair accepted "
             "by the validator check_equiv has equal value. Each run feeds "
             "the (input, output) pairs of simplify on generated sums and on "
             "calls captured from real derivations to the validator inside "
             "Coq (kernel-evaluated), plus length/assumption clauses and "
             "kernel-checked detection of unmerged alpha-equivalent output "
             "terms. Completeness is decided per case, not proved for all "
             "inputs.",
        design_ref="DESIGN.md §2.6, §6 C07"),
}

NOT_YET = {}

# per-property fragments harness/props/cxx.manifest.json override the table
for fn in sorted(os.listdir(os.path.join(VERIF, "harness", "props"))):
    if fn.endswith(".manifest.json"):
        frag = json.load(open(os.path.join(VERIF, "harness", "props", fn)))
        CHECKS[fn[:3].upper()] = frag


def main():
    props = [json.loads(l) for l in open(os.path.join(VERIF,
                                                      "properties.jsonl"))]
    checks, na = [], []
    for p in props:
        pid = p["id"]
        if pid in CHECKS:
            c = CHECKS[pid]
            checks.append({
                "property_id": pid,
                "quick_cmd": f"/venv/bin/python harness/check.py {pid} --tier quick",
                "thorough_cmd": f"/venv/bin/python harness/check.py {pid} --tier thorough",
                "evidence_file": f"/verif/evidence/{pid}.json",
                "replay_cmd_template": f"/venv/bin/python harness/check.py {pid} --replay {{path}}",
                "engine": "coq-models",
                "level_claimed": {"category": c.get("category", "proof"),
                                  "text": c["text"],
                                  "design_ref": c["design_ref"]},
                "level_note": c.get("note", NOTE_COMMON),
                "technique": c["technique"],
            })
        else:
            na.append({"property_id": pid,
                       "reason": NOT_YET.get(
                           pid, "check not built yet in this round (planned "
                           "in DESIGN.md §6; no claim is made until the Coq "
                           "model and its correspondence run)")})
    man = {
        "version": 1,
        "setup_cmd": "cd /verif/coq && python3 ../harness/mkcoqproject.py && "
                     "coq_makefile -f _CoqProject -o Makefile && make -j16",
        "hooks": {"guard": "ADCGEN_VERIF", "enable": "ADCGEN_VERIF=1 (set by "
                  "harness/check.py; no source hook exists so far)",
                  "baseline_off_cmd": BASELINE, "source_commits": [],
                  "add_only": True},
        "engines": [{"name": "coq-models", "path": "/verif/coq",
                     "serves_properties": sorted(CHECKS),
                     "kind_free_text": "Coq 8.16.1 development (Core "
                     "semantics + verified validator, per-property models and "
                     "theorems) driven by harness/check.py"}],
        "checks": checks,
        "not_applicable": na,
        "notes": "See DESIGN.md. Every check rebuilds the Coq development "
                 "incrementally, re-checks Props/Cxx.v and evaluates the "
                 "models on inputs produced by /repo's current working tree.",
    }
    with open(os.path.join(VERIF, "MANIFEST.json"), "w") as f:
        json.dump(man, f, indent=1)
    print("checks:", [c["property_id"] for c in checks])


if __name__ == "__main__":
    main()
