#!/usr/bin/env python3
"""Assembles /verif/DESIGN.md from design/*.md and harness/props/cxx.design.md"""
import glob
import os
V = os.path.dirname(os.path.dirname(os.path.abspath(__file__)))
parts = [open(os.path.join(V, "design", "00_head.md")).read(),
         "\n## 6. Per-property sections (as built)\n"]
for f in sorted(glob.glob(os.path.join(V, "harness", "props", "c??.design.md"))):
    parts.append(open(f).read().rstrip() + "\n")
for f in sorted(glob.glob(os.path.join(V, "design", "[1-9]*.md"))):
    parts.append(open(f).read().rstrip() + "\n")
open(os.path.join(V, "DESIGN.md"), "w").write("\n".join(parts))
print("DESIGN.md", sum(len(p) for p in parts), "bytes")
