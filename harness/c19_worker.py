"""Worker process of the C19 check: runs a randomised prior call sequence and
then a fixed list of requests against an adcgen package given by path, and
pickles, per request, the printed text after renaming contracted indices to
the lowest available names and the neutral pyterm serialisation."""
import json
import os
import pickle
import random
import sys

spec = json.loads(sys.argv[1])
sys.path.insert(0, spec["package_root"])
sys.path.insert(0, spec["harness"])
os.environ.setdefault("ADCGEN_LOG_LEVEL", "ERROR")
import adcgen                                   # noqa: E402
from adcgen.expr_container import Expr          # noqa: E402
from adcgen.indices import get_symbols, Indices  # noqa: E402
import adcio                                    # noqa: E402

rng = random.Random(spec["history_seed"])


def _spin_contraction(spin, names=("ga", "gb")):
    """sum_k ga_k gb_k over an occupied index of the given spin, contracted
    index replaced by a fresh generic one"""
    from adcgen.sympy_objects import NonSymmetricTensor
    k = get_symbols("k", spin)[0]
    e = Expr(NonSymmetricTensor(names[0], (k,))
             * NonSymmetricTensor(names[1], (k,)))
    return e.substitute_with_generic()


PRE = {}
ORDERS = {}


def prior_calls(n):
    """perturb the global registry counters and fill caches in random order"""
    gs = adcgen.GroundState(adcgen.Operators())
    isr = adcgen.IntermediateStates(gs, "pp")
    m = adcgen.SecularMatrix(isr)
    acts = [
        lambda: get_symbols(rng.choice(["i5", "a7", "j3k4", "b12", "p3q9"])),
        lambda: Indices().get_generic_indices(occ=rng.randint(1, 4)),
        lambda: Indices().get_generic_indices(virt=rng.randint(1, 3),
                                              general=rng.randint(0, 2)),
        lambda: get_symbols("ia", rng.choice(["ab", "aa", "bb"])),
        lambda: gs.psi(rng.randint(1, 2), rng.choice(["bra", "ket"])),
        lambda: gs.psi(1, "ket"),
        lambda: Indices().get_generic_indices(occ=1, virt=1),
        lambda: gs.amplitude(2, "ph", "ia"),
        lambda: gs.energy(rng.randint(0, 2)),
        lambda: gs.norm_factor(2),
        lambda: gs.overlap(2),
        lambda: gs.amplitude(1, "pphh", "ijab"),
        lambda: m.isr_matrix_block(rng.randint(0, 1), "ph,ph", "ia,jb"),
        lambda: isr.precursor(1, "ph", "ket", "ia"),
        lambda: (isr.intermediate_state(1, "ph", "bra", "ia"),
                 isr.precursor(1, "ph", "bra", "ia")),
        lambda: isr.overlap_precursor(2, "ph,ph", "ia,jb"),
        # spin-labelled generic indices (spatial-orbital expressions): the
        # alpha and beta pools advance independently
        lambda: Indices().get_generic_indices(
            **{rng.choice(["occ_a", "occ_b", "virt_a", "virt_b"]):
               rng.randint(1, 4)}),
        lambda: Indices().get_generic_indices(occ_a=rng.randint(1, 3),
                                              occ_b=rng.randint(1, 3)),
        lambda: Indices().get_generic_indices(
            **{rng.choice(["occ_a", "occ_b"]): 1}),
        lambda: _spin_contraction(rng.choice("ab")),
    ]
    if spec.get("acts") == "spin":
        acts = acts[-4:]
    for _ in range(n):
        rng.choice(acts)()


def requests():
    gs = adcgen.GroundState(adcgen.Operators())
    isr = adcgen.IntermediateStates(gs, "pp")
    m = adcgen.SecularMatrix(isr)
    out = {}
    # FIRST request: an instance on a ground state with first-order singles
    # (results of the plain instances used before / below must not leak in)
    isr_s = adcgen.IntermediateStates(
        adcgen.GroundState(adcgen.Operators(), first_order_singles=True),
        "pp")
    out["overlap_precursor_singles_2"] = (
        isr_s.overlap_precursor(2, "ph,ph", "ia,jb"), "iajb")
    out["energy2"] = (gs.energy(2), "")
    out["amplitude_2_ph"] = (gs.amplitude(2, "ph", "ia"), "ia")
    out["amplitude_2_pphh"] = (gs.amplitude(2, "pphh", "ijab"), "ijab")
    out["expectation_2"] = (gs.expectation_value(2, 1), "")
    out["block_ph_ph_1"] = (m.isr_matrix_block(1, "ph,ph", "ia,jb"), "iajb")
    # explicitly requested NUMBERED target names: they live in the same name
    # space as the generic indices handed out by the registry
    from adcgen.indices import split_idx_string, index_space

    def numbered(key, order, space, idxstr):
        # which of the explicit names existed in the registry before the
        # request (created explicitly or handed out as generic index)?
        reg_ = Indices()
        PRE[key] = [nm for nm in split_idx_string(idxstr)
                    if nm in reg_._symbols[index_space(nm)][""]]
        out[key] = (gs.amplitude(order, space, idxstr), idxstr)
    numbered("amplitude_2_ph_k3c3", 2, "ph", "k3c3")
    numbered("amplitude_2_ph_j3b3", 2, "ph", "j3b3")
    numbered("amplitude_1_pphh_num", 1, "pphh", "i4j5a4b6")
    if spec.get("thorough"):
        out["block_ph_ph_2"] = (m.isr_matrix_block(2, "ph,ph", "ia,jb"),
                                "iajb")
        out["energy3"] = (gs.energy(3), "")
    # explicit target names taken from the registry's CURRENT pool of not yet
    # handed-out generic names (the most hostile explicit request); the
    # targets are renamed to i, a afterwards so that runs are comparable
    reg = Indices()
    while len(reg._generic_indices["occ"][""]) < 2:
        reg.get_generic_indices(occ=2)
    while len(reg._generic_indices["virt"][""]) < 2:
        reg.get_generic_indices(virt=2)
    no = reg._generic_indices["occ"][""][0]
    nv = reg._generic_indices["virt"][""][0]
    e_pool = gs.amplitude(2, "ph", no + nv)
    so, sv = get_symbols(no + nv)
    i_, a_ = get_symbols("ia")
    out["amplitude_2_ph_pool_names"] = (e_pool.xreplace({so: i_, sv: a_}),
                                        "ia")
    # ground-state density intermediates (recognised by the configured
    # density / amplitude names): expansion and perturbation order
    from adcgen.intermediates import Intermediates
    itm = Intermediates().available
    for nm_, idx_ in (("p0_2_oo", "ij"), ("p0_2_vv", "ab")):
        pt = itm[nm_].tensor(indices=idx_, return_sympy=True)
        ex_ = Expr(pt, target_idx=idx_, real=True).expand_intermediates()
        out[f"expand_{nm_}"] = (ex_.sympy, idx_)
        ORDERS[nm_] = Expr(pt, target_idx=idx_).terms[0].order
    # products of independently generated spin-labelled contractions: fresh
    # generic indices must be distinct whatever mixed alpha/beta requests
    # came before
    for spin in "ab":
        fs = [_spin_contraction(spin) for _ in range(3)]
        prod = fs[0].sympy * fs[1].sympy * fs[2].sympy
        out[f"spin_contractions_{spin}"] = (prod, "")
    # wavefunctions requested repeatedly never share contracted indices
    p1 = gs.psi(2, "ket")
    p2 = gs.psi(2, "ket")
    n1 = gs.norm_factor(2)
    n2 = gs.norm_factor(2)
    from adcgen.indices import Index
    share = {
        "psi": sorted(str(s) for s in p1.atoms(Index) & p2.atoms(Index)),
        "norm_factor": sorted(str(s) for s in
                              n1.atoms(Index) & n2.atoms(Index)),
    }
    # products inside one norm factor (S^(2)*S^(2) at fourth order) must not
    # share contracted indices either: every index at most twice per term
    n4 = Expr(gs.norm_factor(4)).expand()
    bad = set()
    for t in n4.terms:
        cnt = {}
        for o in t.objects:
            if o.sympy.is_number:
                continue
            for s_ in o.idx:
                cnt[s_] = cnt.get(s_, 0) + int(o.exponent)
        bad |= {str(s_) for s_, n_ in cnt.items() if n_ > 2}
    share["norm_factor(4) internal products"] = sorted(bad)
    # third-order precursor states on a ground state with first-order
    # singles: wavefunctions used twice in one projector term must not share
    # their contracted indices
    isr3 = adcgen.IntermediateStates(
        adcgen.GroundState(adcgen.Operators(), first_order_singles=True),
        "pp")
    for bk in ("bra", "ket"):
        pre = Expr(isr3.precursor(3, "ph", bk, "ia")).expand()
        bad = set()
        for t in pre.terms:
            cnt = {}
            for o in t.objects:
                if o.sympy.is_number:
                    continue
                for s_ in o.idx:
                    if o.exponent.is_integer:
                        cnt[s_] = cnt.get(s_, 0) + int(o.exponent)
            bad |= {str(s_) for s_, n_ in cnt.items() if n_ > 2}
        share[f"precursor(3,ph,{bk}) with singles"] = sorted(bad)
    return out, share


prior_calls(spec["n_prior"])
res, share = requests()
payload = {"share": share, "results": {}, "pre_existing": PRE,
           "orders": ORDERS}
rename_back = spec.get("rename_back") or {}
for name, (expr, tg) in res.items():
    tgs = get_symbols(tg)
    E = Expr(expr, target_idx=tgs).expand()
    terms = adcio.conv_expr(E)        # raw result (history-dependent names)
    text = str(E.copy().substitute_contracted())
    if rename_back:
        def rn(a):
            if a[0] == "T":
                nm = a[2]
                for new, old in rename_back.items():
                    if nm == new or (nm.startswith(new) and
                                     nm[len(new):].rstrip("c").isdigit()):
                        nm = old + nm[len(new):]
                        break
                return a[:2] + (nm,) + a[3:]
            if a[0] == "P":
                return ("P", tuple((c, tuple(rn(t) for t in ts))
                                   for c, ts in a[1]))
            return a
        terms = [(c, [(rn(a), inv) for a, inv in fs]) for c, fs in terms]
    ictx = adcio.IdxCtx()
    payload["results"][name] = {
        "text": text, "terms": terms,
        "targets": [ictx.conv(s) for s in tgs]}
with open(spec["out"], "wb") as f:
    pickle.dump(payload, f)
