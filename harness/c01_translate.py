"""Fail-closed translator (tie T of C01): reads the *current* source of
adcgen.func._contraction with `ast` and emits a Gallina definition of the
contraction table over the finite domain
    (isinstance(p, Fd), isinstance(q, Fd), space_p, space_q).

Only the shapes listed below are accepted; anything else raises
TranslateError (the check then fails, it never guesses):

  preamble (each statement at most once, any order):
    if not isinstance(p, FermionicOperator) or not isinstance(q, ...): raise
    if p.state.spin or q.state.spin: raise
    p_idx, q_idx = p.args[0], q.args[0]
    space_p, space_q = p_idx.space[0], q_idx.space[0]
    assert space_p in ["o","v","g"] and space_q in ["o","v","g"]
    a docstring
  body: one if/elif/else tree whose tests are and/or/not combinations of
    isinstance(p|q, F|Fd)            and   space_p|space_q ==|!= "o"|"v"|"g"
  and whose leaves are
    return S.Zero
    [<name> = Indices().get_generic_indices(virt=1)[("virt", "")][0]   |
     <name> = Indices().get_generic_indices(occ=1)[("occ", "")][0]]*
    return <product of KroneckerDelta(x, y)>,  x, y in
           p_idx | q_idx | <name bound in this leaf>
  (a new, uniquely named registry index of the virtual / occupied space).
  The former raw `Index('a', above_fermi=True)` is no longer accepted: it
  prints like every other index named 'a' (C18) - a return to it is reported.

Assumption stated in the evidence: F and Fd are the only FermionicOperator
classes, so `isinstance(x, F)` is the negation of `isinstance(x, Fd)`.
"""
import ast
import inspect


class TranslateError(Exception):
    pass


SPACES = {"o": "Occ", "v": "Virt", "g": "Gen"}


def _fail(node, why):
    try:
        src = ast.unparse(node)
    except Exception:
        src = repr(node)
    raise TranslateError(f"{why}: `{src[:200]}` (line "
                         f"{getattr(node, 'lineno', '?')})")


def _is_name(node, name):
    return isinstance(node, ast.Name) and node.id == name


def _is_raise(stmts):
    return len(stmts) == 1 and isinstance(stmts[0], ast.Raise)


def _check_preamble(st, state):
    """returns True if st is an accepted preamble statement"""
    if isinstance(st, ast.Expr) and isinstance(st.value, ast.Constant) \
            and isinstance(st.value.value, str):
        return True
    if isinstance(st, ast.If) and _is_raise(st.body) and not st.orelse:
        src = ast.unparse(st.test)
        if src in ("not isinstance(p, FermionicOperator) or not "
                   "isinstance(q, FermionicOperator)",):
            state["typeguard"] = True
            return True
        if src == "p.state.spin or q.state.spin":
            state["spinguard"] = True
            return True
        return False
    if isinstance(st, ast.Assign):
        src = ast.unparse(st)
        if src == "p_idx, q_idx = (p.args[0], q.args[0])":
            state["idx"] = True
            return True
        if src == "space_p, space_q = (p_idx.space[0], q_idx.space[0])":
            if not state.get("idx"):
                return False
            state["space"] = True
            return True
        return False
    if isinstance(st, ast.Assert):
        src = ast.unparse(st.test)
        return src == ("space_p in ['o', 'v', 'g'] and "
                       "space_q in ['o', 'v', 'g']")
    return False


def _bexpr(node):
    """python test -> Gallina bool expression over p_fd q_fd space_p space_q"""
    if isinstance(node, ast.BoolOp):
        op = "&&" if isinstance(node.op, ast.And) else "||"
        return "(" + f" {op} ".join(_bexpr(v) for v in node.values) + ")"
    if isinstance(node, ast.UnaryOp) and isinstance(node.op, ast.Not):
        return f"(negb {_bexpr(node.operand)})"
    if isinstance(node, ast.Call) and _is_name(node.func, "isinstance") \
            and len(node.args) == 2 and not node.keywords:
        who, cls = node.args
        if not (isinstance(who, ast.Name) and who.id in ("p", "q")
                and isinstance(cls, ast.Name) and cls.id in ("F", "Fd")):
            _fail(node, "unsupported isinstance test")
        var = f"{who.id}_fd"
        return var if cls.id == "Fd" else f"(negb {var})"
    if isinstance(node, ast.Compare) and len(node.ops) == 1 \
            and isinstance(node.ops[0], (ast.Eq, ast.NotEq)):
        left, right = node.left, node.comparators[0]
        if isinstance(left, ast.Constant):
            left, right = right, left
        if not (isinstance(left, ast.Name)
                and left.id in ("space_p", "space_q")
                and isinstance(right, ast.Constant)
                and right.value in SPACES):
            _fail(node, "unsupported comparison")
        e = f"(space_eqb {left.id} {SPACES[right.value]})"
        return e if isinstance(node.ops[0], ast.Eq) else f"(negb {e})"
    _fail(node, "unsupported test")


FRESH = {"virt": "(AFresh Virt)", "occ": "(AFresh Occ)"}


def _fresh_binding(st):
    """`name = Indices().get_generic_indices(<sp>=1)[("<sp>", "")][0]`
    -> (name, darg) or None"""
    if not (isinstance(st, ast.Assign) and len(st.targets) == 1
            and isinstance(st.targets[0], ast.Name)):
        return None
    name = st.targets[0].id
    if name in ("p", "q", "p_idx", "q_idx", "space_p", "space_q"):
        return None
    for sp, darg in FRESH.items():
        if ast.unparse(st.value) in (
                f"Indices().get_generic_indices({sp}=1)['{sp}', ''][0]",
                f"Indices().get_generic_indices({sp}=1)[('{sp}', '')][0]"):
            return name, darg
    return None


def _darg(node, local):
    if _is_name(node, "p_idx"):
        return "AP"
    if _is_name(node, "q_idx"):
        return "AQ"
    if isinstance(node, ast.Name) and node.id in local:
        return local[node.id]
    _fail(node, "unsupported KroneckerDelta argument")


def _deltas(node, local):
    if isinstance(node, ast.BinOp) and isinstance(node.op, ast.Mult):
        return _deltas(node.left, local) + _deltas(node.right, local)
    if isinstance(node, ast.Call) and _is_name(node.func, "KroneckerDelta") \
            and len(node.args) == 2 and not node.keywords:
        return [f"({_darg(node.args[0], local)}, "
                f"{_darg(node.args[1], local)})"]
    _fail(node, "unsupported return value")


def _ret(node, local):
    if isinstance(node, ast.Attribute) and _is_name(node.value, "S") \
            and node.attr == "Zero":
        return "None"
    return "(Some [" + "; ".join(_deltas(node, local)) + "])"


def _stmts(stmts):
    if not stmts:
        _fail(ast.Pass(), "empty branch")
    # leaf: bindings of new indices followed by a return
    local = {}
    k = 0
    while k < len(stmts) - 1:
        b = _fresh_binding(stmts[k])
        if b is None:
            break
        if b[0] in local:
            _fail(stmts[k], "name bound twice")
        local[b[0]] = b[1]
        k += 1
    if k != len(stmts) - 1:
        _fail(stmts[k], "unsupported statement in a branch")
    st = stmts[-1]
    if isinstance(st, ast.Return) and st.value is not None:
        return _ret(st.value, local)
    if local:
        _fail(st, "bindings must be followed by a return")
    if isinstance(st, ast.If):
        if not st.orelse:
            _fail(st, "if without else (fall-through) is not supported")
        return (f"(if {_bexpr(st.test)} then {_stmts(st.body)} "
                f"else {_stmts(st.orelse)})")
    _fail(st, "unsupported statement")


def translate(func):
    """func: the python function object adcgen.func._contraction.
    Returns (gallina_definition_text, python_source)"""
    src = inspect.getsource(func)
    tree = ast.parse(src)
    if len(tree.body) != 1 or not isinstance(tree.body[0], ast.FunctionDef):
        raise TranslateError("source is not a single function definition")
    fn = tree.body[0]
    args = [a.arg for a in fn.args.args]
    if args != ["p", "q"] or fn.args.vararg or fn.args.kwarg \
            or fn.args.kwonlyargs or fn.args.defaults or fn.decorator_list:
        raise TranslateError(f"unexpected signature {args}")
    state = {}
    body = list(fn.body)
    while body and _check_preamble(body[0], state):
        body.pop(0)
    for need in ("idx", "space", "spinguard", "typeguard"):
        if not state.get(need):
            raise TranslateError(f"preamble statement missing or changed: "
                                 f"{need}")
    if len(body) != 1 or not isinstance(body[0], ast.If):
        _fail(body[0] if body else fn,
              "body after the preamble must be one if/elif/else tree")
    expr = _stmts(body)
    text = ("Definition gen_table (p_fd q_fd : bool) (space_p space_q : space)"
            " : gres :=\n  " + expr + ".\n")
    return text, src
