#!/venv/bin/python
"""Driver of every registered check:  check.py Cxx [--tier quick|thorough]
[--replay file].

1. rebuilds the Coq development (full .vo build, incremental) and re-checks
   coq/Props/Cxx.v, recording the `Print Assumptions` output of each property
   theorem;
2. runs the property plug-in harness/props/cxx.py, which regenerates the files
   derived from /repo's working tree, runs the implementation, evaluates the
   Gallina models / the verified validator on the same inputs and reports
   disagreements;
3. writes evidence/Cxx.json, prints VIOLATION / KNOWN-FINDING lines, exits 0/1.
"""
import argparse
import hashlib
import importlib
import json
import os
import random
import re
import subprocess
import sys
import time
import traceback

VERIF = os.path.dirname(os.path.dirname(os.path.abspath(__file__)))
REPO = os.environ.get("VERIF_REPO", "/repo")
PY = "/venv/bin/python"


def _reexec():
    want = {"PYTHONHASHSEED": os.environ.get("VERIF_HASHSEED", "0"),
            "PYTHONPATH": f"{REPO}:{VERIF}/harness", "ADCGEN_VERIF": "1",
            "PYTHONDONTWRITEBYTECODE": "1", "ADCGEN_LOG_LEVEL": "ERROR"}
    if os.environ.get("VERIF_REEXEC") == "1" and \
            os.path.realpath(sys.executable) == os.path.realpath(PY):
        return
    env = dict(os.environ)
    env.update(want)
    env["VERIF_REEXEC"] = "1"
    os.execve(PY, [PY, os.path.abspath(__file__)] + sys.argv[1:], env)


_reexec()
try:    # a runaway computation becomes a reported failure, not an OOM kill
    import resource
    _lim = int(os.environ.get("VERIF_MEM_GB", "36")) << 30
    resource.setrlimit(resource.RLIMIT_AS, (_lim, _lim))
except Exception:
    pass
sys.path.insert(0, REPO)
sys.path.insert(0, os.path.join(VERIF, "harness"))
sys.setrecursionlimit(100000)

import coqrun  # noqa: E402

ALLOWED_AXIOMS = {
    # axioms declared by the standard library itself; each one that shows up
    # is listed in the evidence file
    "functional_extensionality_dep", "FunctionalExtensionality.functional_extensionality_dep",
    "classic", "Classical_Prop.classic", "proof_irrelevance",
    "ProofIrrelevance.proof_irrelevance", "JMeq_eq", "JMeq.JMeq_eq",
    "Eqdep.Eq_rect_eq.eq_rect_eq", "eq_rect_eq",
    "propositional_extensionality",
}
FORBIDDEN = re.compile(
    r"\b(Admitted|admit|Axiom|Axioms|Parameter|Parameters|Conjecture|"
    r"Admit Obligations|Unset Guard Checking|Unset Positivity Checking|"
    r"Unset Universe Checking|bypass_check|type-in-type|impredicative-set)\b")

TRUSTED_BASE = [
    "Coq 8.16.1 kernel incl. vm_compute (no native_compute)",
    "Python serialiser harness/adcio.py and per-property generators "
    "(a wrong serialisation shows up as a correspondence failure)",
    "correspondence is differential: the Gallina models are hand-written and "
    "compared with the implementation on generated inputs on every run",
    "sympy (Mul/Add flattening, subs, printing) is observed, not modelled "
    "beyond what each property states",
]


class Ctx:
    def __init__(self, prop, tier, seed):
        self.prop = prop
        self.tier = tier
        self.seed = seed
        self.rng = random.Random(seed)
        self.obligations = 0
        self.discharged = 0
        self.failed_obligations = []
        self.evaluations = 0
        self.nontrivial = set()
        self.samples = []
        self.dist = {}
        self.violations = []
        self.notes = []
        self.t0 = time.time()
        self.extra = {}
        self.thm_info = []

    # --- bookkeeping -----------------------------------------------------
    def obligation(self, name, ok, detail=None):
        self.obligations += 1
        if ok:
            self.discharged += 1
        else:
            self.failed_obligations.append(
                {"name": name, "detail": (detail or "")[:2000]})
        return ok

    def case(self, key=None, nontrivial=True, sample=None, kind=None):
        self.evaluations += 1
        if nontrivial and key is not None:
            self.nontrivial.add(hashlib.sha1(
                repr(key).encode()).hexdigest()[:16])
        if sample is not None and len(self.samples) < 12:
            self.samples.append(sample)
        if kind is not None:
            self.dist[kind] = self.dist.get(kind, 0) + 1

    def note(self, s):
        self.notes.append(s)

    def violation(self, key, what, replay, found_input):
        """key: stable identifier of the failing input (matched against
        known_findings.json); replay: JSON-serialisable description"""
        self.violations.append({"key": key, "what": what, "replay": replay,
                                "found_input": bool(found_input)})

    # --- coq ---------------------------------------------------------------
    def coq_eval(self, tag, cases, header=None, defs="", shard=200,
                 timeout=900):
        import adcio
        header = header or adcio.COQ_HEADER
        t0 = time.time()
        vals, errs = coqrun.eval_cases(f"{self.prop}_{tag}", header, cases,
                                       shard=shard, timeout=timeout,
                                       defs=defs)
        self.coq_s = getattr(self, "coq_s", 0.0) + time.time() - t0
        if os.environ.get("VERIF_DEBUG"):
            print(f"[coq_eval {tag}: {len(cases)} cases, "
                  f"{time.time() - t0:.1f}s, {len(errs)} errors]",
                  file=sys.stderr, flush=True)
        for e in errs:
            self.note("coq evaluation error: " + e)
        return vals, errs


def check_theorems(ctx, propfile):
    """make the development, then re-run coqc on Props/Cxx.v and parse the
    Print Assumptions output of every theorem"""
    rc, out = coqrun.make()
    ctx.obligation("coq development builds (make, full .vo)", rc == 0,
                   out[-3000:])
    if rc != 0:
        return False, out
    bad = []
    for root, _, files in os.walk(os.path.join(VERIF, "coq")):
        if os.path.basename(root) == "gen":
            continue
        for fn in files:
            if fn.endswith(".v"):
                txt = open(os.path.join(root, fn)).read()
                txt = re.sub(r"\(\*.*?\*\)", "", txt, flags=re.S)
                for m in FORBIDDEN.finditer(txt):
                    bad.append(f"{fn}:{m.group(0)}")
    ctx.obligation("no Admitted/admit/Axiom/Parameter/disabled checks in coq/",
                   not bad, ", ".join(bad[:20]))
    path = os.path.join("Props", propfile)
    if not os.path.exists(os.path.join(VERIF, "coq", path)):
        ctx.obligation(f"{path} exists", False)
        return False, ""
    rc, out, err = coqrun.coqc_file(path)
    ctx.obligation(f"coqc {path}", rc == 0, err[-3000:])
    if rc != 0:
        return False, err
    src = open(os.path.join(VERIF, "coq", path)).read()
    thms = re.findall(r"^(?:Theorem|Corollary)\s+(\w+)", src, re.M)
    blocks = re.split(r"(?=Closed under the global context|Axioms:)", out)
    blocks = [b for b in blocks
              if b.startswith("Closed") or b.startswith("Axioms:")]
    n_print = len(re.findall(r"^Print Assumptions", src, re.M))
    ctx.obligation("every property theorem has Print Assumptions",
                   n_print >= len(thms) and len(blocks) == n_print,
                   f"theorems={len(thms)} prints={n_print} blocks={len(blocks)}")
    axioms_seen = set()
    for name, b in zip(thms, blocks):
        if b.startswith("Closed"):
            ctx.obligation(f"theorem {name}: closed under the global context",
                           True)
            ctx.thm_info.append({"theorem": name, "assumptions": []})
        else:
            names = re.findall(r"^(\S+)\s*:", b[len("Axioms:"):], re.M)
            axioms_seen.update(names)
            ok = all(n in ALLOWED_AXIOMS or n.split(".")[-1] in ALLOWED_AXIOMS
                     for n in names)
            ctx.obligation(f"theorem {name}: only standard-library axioms",
                           ok, b[:1500])
            ctx.thm_info.append({"theorem": name, "assumptions": names})
    ctx.extra["axioms_seen"] = sorted(axioms_seen)
    return True, out


def load_known():
    out = []
    p = os.path.join(VERIF, "known_findings.json")
    if os.path.exists(p):
        out += json.load(open(p)).get("findings", [])
    d = os.path.join(VERIF, "known_findings.d")
    if os.path.isdir(d):
        for fn in sorted(os.listdir(d)):
            if fn.endswith(".json"):
                out += json.load(open(os.path.join(d, fn)))
    return out


def main():
    ap = argparse.ArgumentParser()
    ap.add_argument("prop")
    ap.add_argument("--tier", default=os.environ.get("VERIF_TIER", "quick"))
    ap.add_argument("--replay", default=None)
    ap.add_argument("--no-coq-build", action="store_true")
    args = ap.parse_args()
    prop = args.prop.upper()
    tier = args.tier if args.tier in ("quick", "thorough") else "quick"
    seed = int(os.environ.get("VERIF_SEED", "20260930"))
    ctx = Ctx(prop, tier, seed)
    mod = importlib.import_module(f"props.{prop.lower()}")

    # VERIF_OUT redirects evidence/ and replays/ (seed sweeps, seeded-change
    # runs); registered commands do not set it
    OUT = os.environ.get("VERIF_OUT") or VERIF
    os.makedirs(os.path.join(OUT, "evidence"), exist_ok=True)
    os.makedirs(os.path.join(OUT, "replays"), exist_ok=True)

    if args.replay:
        rep = json.load(open(args.replay))
        rc = mod.replay(ctx, rep) if hasattr(mod, "replay") else 2
        sys.exit(rc)

    proofs_ok = True
    try:
        if not args.no_coq_build:
            proofs_ok, _ = check_theorems(ctx, f"{prop}.v")
        if not proofs_ok:
            ctx.violation(
                f"{prop}:proof-broken",
                "the Coq development or the property theorems of "
                f"Props/{prop}.v no longer check",
                {"broken": ctx.failed_obligations}, False)
        # the plug-in still runs (model evaluation needs the compiled Core; if
        # that failed the plug-in reports it)
        mod.run(ctx)
    except Exception:
        tb = traceback.format_exc()
        ctx.note(tb)
        ctx.violation(f"{prop}:harness-exception",
                      "harness raised an exception", {"traceback": tb}, False)

    # failed obligations that the plug-in did not turn into violations
    if ctx.failed_obligations and not ctx.violations:
        ctx.violation(f"{prop}:obligation-failed", "proof obligation failed",
                      {"broken": ctx.failed_obligations}, False)

    known = [k for k in load_known()
             if k.get("property") == prop and k.get("status") == "open"]
    exit_code = 0
    lines = []
    n_viol = 0
    for n, v in enumerate(ctx.violations):
        match = next((k for k in known if k["key"] == v["key"]), None)
        if match is not None:
            lines.append(f"KNOWN-FINDING: property={prop} {match['what']}")
            continue
        n_viol += 1
        rp = os.path.join(OUT, "replays", f"{prop}_{tier}_{n}.json")
        with open(rp, "w") as f:
            json.dump({"property": prop, "key": v["key"], "what": v["what"],
                       "found_failing_input": v["found_input"],
                       "replay": v["replay"], "seed": seed, "tier": tier},
                      f, indent=1, default=str)
        tail = "" if v["found_input"] else " no-failing-input-found"
        lines.append(f"VIOLATION property={prop} replay={rp}{tail}")
        exit_code = 1
    # known findings must still reproduce; report those that were listed
    for ln in dict.fromkeys(lines):
        print(ln)

    level = getattr(mod, "LEVEL", "proof")
    # obligations that fail on the inputs of listed known findings are not
    # claimed: they are counted separately (only when nothing else failed)
    n_known = ctx.obligations - ctx.discharged if exit_code == 0 else 0
    cov = {
        "obligations": ctx.obligations - n_known,
        "discharged": ctx.discharged,
        "obligations_failed_on_known_findings": n_known,
        "checker_cmd": "make -C /verif/coq (coq_makefile, coqc 8.16.1, full "
                       f".vo) ; coqc Props/{prop}.v ; coqc gen/{prop}_*.v "
                       "(vm_compute evaluation of models/validator)",
        "trusted_base": TRUSTED_BASE + getattr(mod, "TRUSTED", []),
        "evaluations": ctx.evaluations,
        "distinct_nontrivial": len(ctx.nontrivial),
        "rule": getattr(mod, "RULE", ""),
        "samples": ctx.samples or [{"note": "no samples recorded"}],
        "input_distribution": ctx.dist,
        "theorems": ctx.thm_info,
        "failed_obligations": ctx.failed_obligations,
        "notes": ctx.notes[:40],
        "exhaustive": bool(getattr(mod, "EXHAUSTIVE", False)),
    }
    cov.update(ctx.extra)
    ev = {"property_id": prop, "tier": tier, "seed": seed, "level": level,
          "coverage": cov,
          "assumptions": getattr(mod, "ASSUMPTIONS", []),
          "wall_s": round(time.time() - ctx.t0, 2),
          "violations": n_viol}
    with open(os.path.join(OUT, "evidence", f"{prop}.json"), "w") as f:
        json.dump(ev, f, indent=1, default=str)
    print(f"{prop} {tier}: obligations {ctx.discharged}/{ctx.obligations}, "
          f"cases {ctx.evaluations} ({len(ctx.nontrivial)} distinct "
          f"non-trivial), violations {n_viol}, "
          f"{round(time.time() - ctx.t0, 1)} s")
    sys.exit(exit_code)


if __name__ == "__main__":
    main()
