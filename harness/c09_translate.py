"""Fail-closed translator (Python ast -> Gallina) for the table-like methods of
adcgen.sympy_objects.KroneckerDelta that C09 depends on:

  * preferred_and_killable              -> pref_kill_gen  : space -> spin -> space -> spin -> pk
  * indices_contain_equal_information   -> equal_info_gen : ... -> bool
  * the space/spin part of eval         -> delta_alive_gen: ... -> bool  (false iff eval returns 0)

The translator reads the CURRENT source file with `ast` (nothing is imported
or executed), understands only

    docstrings, tuple assignments of `i.space[0]`, `i.space`, `i.spin`,
    `i, j = self.args`, domain asserts `x in [<whole domain>]`,
    if / elif / else whose tests are and/or/not of ==, != between such
    variables and string constants (or the truth value of a spin variable),
    `return (i, j)`, `return (j, i)`, `return None`, `return <bool expr>`,
    `return S.Zero`,

and two statements of `eval` that are not about space or spin and must be
present verbatim (same-index test, canonical ordering of the arguments).
Anything else raises TranslateError: the check then fails instead of
silently verifying something that is no longer the code.

Coq afterwards proves, by computation over the whole finite domain
(9 x 9 = 81 pairs of (space, spin)), that the emitted functions coincide with
the hand-written tables of coq/Models/Deltas.v, so that every theorem about
the model holds of what the source says now.
"""
import ast
import os


class TranslateError(Exception):
    pass


SPACE0 = {"o": "Occ", "v": "Virt", "g": "Gen"}
SPACE = {"occ": "Occ", "virt": "Virt", "general": "Gen"}
SPIN = {"": "NoSpin", "a": "Alpha", "b": "Beta"}
CONSTS = {"space0": SPACE0, "space": SPACE, "spin": SPIN}
COQVAR = {("space0", "i"): "s1", ("space", "i"): "s1", ("spin", "i"): "p1",
          ("space0", "j"): "s2", ("space", "j"): "s2", ("spin", "j"): "p2"}
EQB = {"space0": "space_eqb", "space": "space_eqb", "spin": "spin_eqb"}


def _fail(node, msg):
    line = getattr(node, "lineno", "?")
    raise TranslateError(f"line {line}: {msg}: "
                         f"{ast.dump(node)[:300] if node is not None else ''}")


class Tr:
    """translation of one function body; env: python name -> ('idx', 'i'|'j')
    or (type, 'i'|'j') with type in space0 | space | spin"""

    def __init__(self, returns):
        self.returns = returns      # callable(node, env) -> coq term

    # ---- expressions ----
    def operand(self, node, env):
        """-> ('var', type, coqname) | ('const', python string)"""
        if isinstance(node, ast.Constant) and isinstance(node.value, str):
            return ("const", node.value)
        if isinstance(node, ast.Name):
            v = env.get(node.id)
            if v is None or v[0] == "idx":
                _fail(node, "name is not bound to a space/spin value")
            return ("var", v[0], COQVAR[v])
        v = self.attr(node, env)
        if v is not None:
            return ("var", v[0], COQVAR[v])
        _fail(node, "unsupported operand")

    def attr(self, node, env):
        """i.space[0] / i.space / i.spin with i bound to an index"""
        if isinstance(node, ast.Subscript):
            if not (isinstance(node.slice, ast.Constant)
                    and node.slice.value == 0):
                _fail(node, "only [0] subscripts are understood")
            inner = self.attr(node.value, env)
            if inner is None or inner[0] != "space":
                _fail(node, "subscript of something that is not .space")
            return ("space0", inner[1])
        if isinstance(node, ast.Attribute) and isinstance(node.value, ast.Name):
            v = env.get(node.value.id)
            if v is None or v[0] != "idx":
                _fail(node, "attribute of something that is not an index")
            if node.attr == "space":
                return ("space", v[1])
            if node.attr == "spin":
                return ("spin", v[1])
            _fail(node, "unknown attribute")
        return None

    def cond(self, node, env):
        if isinstance(node, ast.BoolOp):
            op = "andb" if isinstance(node.op, ast.And) else "orb"
            parts = [self.cond(v, env) for v in node.values]
            out = parts[-1]
            for p in reversed(parts[:-1]):
                out = f"({op} {p} {out})"
            return out
        if isinstance(node, ast.UnaryOp) and isinstance(node.op, ast.Not):
            return f"(negb {self.cond(node.operand, env)})"
        if isinstance(node, ast.Compare):
            if len(node.ops) != 1 or not isinstance(node.ops[0],
                                                    (ast.Eq, ast.NotEq)):
                _fail(node, "only single == / != comparisons")
            a = self.operand(node.left, env)
            b = self.operand(node.comparators[0], env)
            t = self.compare(node, a, b)
            return t if isinstance(node.ops[0], ast.Eq) else f"(negb {t})"
        if isinstance(node, ast.Name):
            v = env.get(node.id)
            if v is None or v[0] != "spin":
                _fail(node, "truth value only understood for spin variables")
            return f"(negb (spin_eqb {COQVAR[v]} NoSpin))"
        _fail(node, "unsupported condition")

    def compare(self, node, a, b):
        if a[0] == "const" and b[0] == "const":
            _fail(node, "comparison of two constants")
        if a[0] == "const":
            a, b = b, a
        typ = a[1]
        if b[0] == "const":
            if b[1] not in CONSTS[typ]:
                _fail(node, f"constant {b[1]!r} outside the domain of {typ}")
            rhs = CONSTS[typ][b[1]]
        else:
            if b[1] != typ:
                _fail(node, f"comparison of {typ} with {b[1]}")
            rhs = b[2]
        return f"({EQB[typ]} {a[2]} {rhs})"

    # ---- statements ----
    def assign(self, st, env):
        env = dict(env)
        if len(st.targets) != 1:
            _fail(st, "chained assignment")
        tgt, val = st.targets[0], st.value
        if isinstance(tgt, ast.Tuple):
            names = tgt.elts
            if isinstance(val, ast.Tuple):
                vals = val.elts
            elif (isinstance(val, ast.Attribute) and val.attr == "args"
                  and isinstance(val.value, ast.Name)
                  and val.value.id == "self" and len(names) == 2):
                for n, which in zip(names, "ij"):
                    if not isinstance(n, ast.Name):
                        _fail(st, "assignment target")
                    env[n.id] = ("idx", which)
                return env
            else:
                _fail(st, "unsupported tuple assignment")
        else:
            names, vals = [tgt], [val]
        if len(names) != len(vals):
            _fail(st, "assignment arity")
        new = {}
        for n, v in zip(names, vals):
            if not isinstance(n, ast.Name):
                _fail(st, "assignment target")
            a = self.attr(v, env)
            if a is None:
                _fail(st, "assigned value is not i.space[0] / i.space / i.spin")
            new[n.id] = a
        env.update(new)
        return env

    def check_assert(self, st, env):
        tests = st.test.values if (isinstance(st.test, ast.BoolOp) and
                                   isinstance(st.test.op, ast.And)) \
            else [st.test]
        for t in tests:
            ok = (isinstance(t, ast.Compare) and len(t.ops) == 1
                  and isinstance(t.ops[0], ast.In)
                  and isinstance(t.comparators[0], (ast.List, ast.Tuple)))
            if not ok:
                _fail(st, "assert is not a domain assertion")
            a = self.operand(t.left, env)
            if a[0] != "var":
                _fail(st, "assert on a constant")
            dom = set()
            for c in t.comparators[0].elts:
                if not (isinstance(c, ast.Constant)
                        and isinstance(c.value, str)):
                    _fail(st, "assert domain element")
                dom.add(c.value)
            if dom != set(CONSTS[a[1]]):
                _fail(st, f"assert restricts the domain of {a[1]} to {dom}")

    def block(self, stmts, env, fallthrough, top=True):
        """translate a statement list to a Coq term; `fallthrough`: Coq term
        for reaching the end of the list (None = not allowed)"""
        if not stmts:
            if fallthrough is None:
                raise TranslateError("control reaches the end of the function"
                                     " without return")
            return fallthrough
        st, rest = stmts[0], stmts[1:]
        if isinstance(st, ast.Expr) and isinstance(st.value, ast.Constant) \
                and isinstance(st.value.value, str):
            return self.block(rest, env, fallthrough, top)
        if isinstance(st, ast.Assign):
            if not top:
                # the code after an if is translated with the environment
                # before it, so a branch must not rebind names
                _fail(st, "assignment inside a branch")
            return self.block(rest, self.assign(st, env), fallthrough, top)
        if isinstance(st, ast.Assert):
            self.check_assert(st, env)
            return self.block(rest, env, fallthrough, top)
        if isinstance(st, ast.Return):
            if rest:
                _fail(rest[0], "statement after return")
            return self.returns(st.value, env, self)
        if isinstance(st, ast.If):
            c = self.cond(st.test, env)
            after = self.block(rest, env, fallthrough, top) if (
                rest or fallthrough is not None) else None
            yes = self.block(st.body, env, after, False)
            no = self.block(st.orelse, env, after, False)
            return f"(if {c} then {yes} else {no})"
        _fail(st, "unsupported statement")


def _ret_pk(node, env, tr):
    if node is None or (isinstance(node, ast.Constant) and node.value is None):
        return "PKnone"
    if isinstance(node, ast.Tuple) and len(node.elts) == 2 and all(
            isinstance(e, ast.Name) for e in node.elts):
        v = [env.get(e.id) for e in node.elts]
        if v == [("idx", "i"), ("idx", "j")]:
            return "PKij"
        if v == [("idx", "j"), ("idx", "i")]:
            return "PKji"
    _fail(node, "return value of preferred_and_killable")


def _ret_bool(node, env, tr):
    if isinstance(node, ast.Constant) and isinstance(node.value, bool):
        return "true" if node.value else "false"
    return tr.cond(node, env)


def _ret_zero(node, env, tr):
    if isinstance(node, ast.Attribute) and node.attr == "Zero" and \
            isinstance(node.value, ast.Name) and node.value.id == "S":
        return "false"
    _fail(node, "return inside the space/spin part of eval is not S.Zero")


EVAL_HEAD = """
diff = i - j
if diff.is_zero or fuzzy_not(diff.is_zero):
    return S.One
"""
EVAL_TAIL = """
if i != min(i, j, key=sort_idx_canonical):
    return cls(j, i)
"""


def _same(stmts, snippet):
    want = ast.parse(snippet.strip()).body
    return len(stmts) == len(want) and all(
        ast.dump(a) == ast.dump(b) for a, b in zip(stmts, want))


def _strip_doc(body):
    if body and isinstance(body[0], ast.Expr) and isinstance(
            body[0].value, ast.Constant) and isinstance(body[0].value.value,
                                                        str):
        return body[1:]
    return body


def translate(repo):
    """returns (coq source of the definitions, info dict)"""
    path = os.path.join(repo, "adcgen", "sympy_objects.py")
    src = open(path).read()
    tree = ast.parse(src)
    cls = [n for n in tree.body
           if isinstance(n, ast.ClassDef) and n.name == "KroneckerDelta"]
    if len(cls) != 1:
        raise TranslateError("class KroneckerDelta not found exactly once")
    funcs = {}
    for n in cls[0].body:
        if isinstance(n, ast.FunctionDef):
            if n.name in funcs:
                raise TranslateError(f"{n.name} defined twice")
            funcs[n.name] = n
    for need in ("eval", "preferred_and_killable",
                 "indices_contain_equal_information"):
        if need not in funcs:
            raise TranslateError(f"KroneckerDelta.{need} not found")

    def decorators(f):
        return [ast.unparse(d) for d in f.decorator_list]

    # --- preferred_and_killable
    f = funcs["preferred_and_killable"]
    if decorators(f) != ["property"] or [a.arg for a in f.args.args] != ["self"]:
        raise TranslateError("preferred_and_killable: unexpected signature")
    pk = Tr(_ret_pk).block(f.body, {}, None)
    # --- indices_contain_equal_information
    f = funcs["indices_contain_equal_information"]
    if decorators(f) != ["property"] or [a.arg for a in f.args.args] != ["self"]:
        raise TranslateError("indices_contain_equal_information: unexpected "
                             "signature")
    ei = Tr(_ret_bool).block(f.body, {}, None)
    # --- eval
    f = funcs["eval"]
    if decorators(f) != ["classmethod"] or \
            [a.arg for a in f.args.args] != ["cls", "i", "j"]:
        raise TranslateError("eval: unexpected signature")
    body = _strip_doc(f.body)
    if len(body) < 3 or not _same(body[:2], EVAL_HEAD):
        raise TranslateError("eval: the same-index test is not the expected "
                             "statement")
    if not _same(body[-1:], EVAL_TAIL):
        raise TranslateError("eval: the canonical ordering of the arguments "
                             "is not the expected statement")
    env = {"i": ("idx", "i"), "j": ("idx", "j")}
    alive = Tr(_ret_zero).block(body[2:-1], env, "true")

    sig = "(s1 : space) (p1 : spin) (s2 : space) (p2 : spin)"
    coq = (f"Definition pref_kill_gen {sig} : pk :=\n  {pk}.\n"
           f"Definition equal_info_gen {sig} : bool :=\n  {ei}.\n"
           f"Definition delta_alive_gen {sig} : bool :=\n  {alive}.\n")
    return coq, {"source": path,
                 "lines": {k: (funcs[k].lineno, funcs[k].end_lineno)
                           for k in ("eval", "preferred_and_killable",
                                     "indices_contain_equal_information")}}


GEN_HEADER = """(* GENERATED by harness/c09_translate.py from %s
   on every run of the C09 check -- do not edit *)
From Coq Require Import ZArith List Bool.
From ADC Require Import Core.Scalar Core.Index Core.Expr Models.Deltas Models.DeltasProofs.
Import ListNotations.
"""

GEN_PROOFS = """
(* rows of the 81-case domain on which translated code and model differ *)
Definition mismatches : list ((space * spin) * (space * spin) * (bool * bool * bool)) :=
  flat_map (fun ab => match ab with ((s1, p1), (s2, p2)) =>
     let a := pk_eqb (pref_kill_gen s1 p1 s2 p2) (pref_kill s1 p1 s2 p2) in
     let b := Bool.eqb (equal_info_gen s1 p1 s2 p2) (equal_info s1 p1 s2 p2) in
     let c := Bool.eqb (delta_alive_gen s1 p1 s2 p2) (delta_alive s1 p1 s2 p2) in
     if a && b && c then [] else [(ab, (a, b, c))] end) all_sort_pairs.
Eval vm_compute in mismatches.
Eval vm_compute in (List.length all_sort_pairs).

Theorem pref_kill_gen_eq : forall s1 p1 s2 p2, pref_kill_gen s1 p1 s2 p2 = pref_kill s1 p1 s2 p2.
Proof. intros [] [] [] []; vm_compute; reflexivity. Qed.
Theorem equal_info_gen_eq : forall s1 p1 s2 p2, equal_info_gen s1 p1 s2 p2 = equal_info s1 p1 s2 p2.
Proof. intros [] [] [] []; vm_compute; reflexivity. Qed.
Theorem delta_alive_gen_eq : forall s1 p1 s2 p2, delta_alive_gen s1 p1 s2 p2 = delta_alive s1 p1 s2 p2.
Proof. intros [] [] [] []; vm_compute; reflexivity. Qed.

(* hence the information theorem holds of the translated code *)
Theorem pref_kill_gen_info (S : Scalar) (T : tmodel S) : orbital_model S T ->
  forall i j pref kill,
  delta_alive_gen (ispace i) (ispin i) (ispace j) (ispin j) = true ->
  match pref_kill_gen (ispace i) (ispin i) (ispace j) (ispin j) with
  | PKij => Some (i, j) | PKji => Some (j, i) | PKnone => None end = Some (pref, kill) ->
  incl (irange S T pref) (irange S T kill).
Proof. intros OM i j pref kill. rewrite delta_alive_gen_eq, pref_kill_gen_eq.
  apply (pref_kill_info S T OM). Qed.
Print Assumptions pref_kill_gen_info.
"""


def write_gen(repo, gen_dir):
    coq, info = translate(repo)
    path = os.path.join(gen_dir, "C09_tables.v")
    with open(path, "w") as f:
        f.write(GEN_HEADER % info["source"])
        f.write(coq)
        f.write(GEN_PROOFS)
    return path, info, coq


if __name__ == "__main__":
    import sys
    repo = sys.argv[1] if len(sys.argv) > 1 else os.environ.get(
        "VERIF_REPO", "/repo")
    print(translate(repo)[0])
