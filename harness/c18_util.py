"""Helpers of the C18 check (printing / importing LaTeX):

* layout(expr): the structure sympy's LaTeX printer gives an adcgen expression
  (order of terms and factors, numerator / denominator split, brackets) as a
  neutral tree -- the input of the Gallina printer ADC.Models.Latex.print_model;
  raises Outside for layouts outside the modelled fragment;
* the tree <-> Coq literal / S-expression printed by Latex.show_result;
* build(tree): the sympy calls import_from_sympy_latex makes for a tree
  (func.py:140-164, 166-200, 244, 254-273), used to compare the result of the
  Gallina importer with the object returned by the implementation.

tree:  idx  = ("I", name, spin)                      spin in "", "a", "b"
       base = ("T", kind, name, bks, [idx], [idx]) | ("N", name, [idx])
            | ("S", name) | ("F", create, idx)
       obj  = ("int", n) | ("sqrt", n) | ("delta", i, j) | ("pow", base, e)
            | ("brack", [term], e) | ("NO", [term])
       term = ("term", neg, body, body | None)
       body = ("objs", [obj]) | ("sum", [term])
"""
import re
from sympy import (Add, Mul, Pow, S, Symbol, Integer, Rational, sqrt, latex,
                   Number)
from sympy.printing.latex import LatexPrinter
from sympy.simplify import fraction
from sympy.physics.secondquant import F, Fd, NO

from adcgen.sympy_objects import (AntiSymmetricTensor, SymmetricTensor,
                                  Amplitude, NonSymmetricTensor,
                                  KroneckerDelta)
from adcgen.indices import Index, get_symbols


class Outside(Exception):
    """expression outside the modelled fragment of sympy's layout"""


_PRINTER = LatexPrinter()
KINDS = {"KAmp": "amp", "KSym": "sym", "KAnti": "anti"}
COQ_KIND = {"amp": "KAmp", "sym": "KSym", "anti": "KAnti", "nonsym": "KNonSym"}
CLASS = {"amp": Amplitude, "sym": SymmetricTensor, "anti": AntiSymmetricTensor}


def tens_kind(t):
    if isinstance(t, Amplitude):
        return "amp"
    if isinstance(t, SymmetricTensor):
        return "sym"
    if isinstance(t, AntiSymmetricTensor):
        return "anti"
    raise Outside(f"tensor class {type(t)}")


def lay_idx(i):
    if not isinstance(i, Index):
        raise Outside(f"non-Index {i!r}")
    return ("I", i.name, i.spin)


def lay_base(b):
    if isinstance(b, AntiSymmetricTensor):
        return ("T", tens_kind(b), b.name, int(b.bra_ket_sym),
                [lay_idx(i) for i in b.upper], [lay_idx(i) for i in b.lower])
    if isinstance(b, NonSymmetricTensor):
        return ("N", b.name, [lay_idx(i) for i in b.indices])
    if isinstance(b, Fd):
        return ("F", True, lay_idx(b.state))
    if isinstance(b, F):
        return ("F", False, lay_idx(b.state))
    if isinstance(b, Index):
        raise Outside("bare index")
    if isinstance(b, Symbol):
        if not re.fullmatch(r"[A-Za-z]+", b.name) or latex(b) != b.name:
            raise Outside(f"symbol {b.name!r} is re-formatted by sympy")
        return ("S", b.name)
    return None


def lay_obj(o):
    """one factor of a product as printed by LatexPrinter._print"""
    if isinstance(o, Integer):
        if o < 0:
            raise Outside("negative integer factor")
        return ("int", int(o))
    if isinstance(o, KroneckerDelta):
        return ("delta", lay_idx(o.args[0]), lay_idx(o.args[1]))
    if isinstance(o, NO):
        return ("NO", lay_expr(o.args[0]))
    if isinstance(o, Add):
        return ("brack", lay_expr(o), 1)
    if isinstance(o, Pow):
        b, e = o.args
        if e == S.Half and isinstance(b, Integer) and b > 0:
            return ("sqrt", int(b))
        if not (e.is_Integer and e > 0):
            raise Outside(f"exponent {e}")
        if isinstance(b, Add):
            return ("brack", lay_expr(b), int(e))
        bb = lay_base(b)
        if bb is None:
            raise Outside(f"power of {type(b)}")
        return ("pow", bb, int(e))
    bb = lay_base(o)
    if bb is None:
        raise Outside(f"object {type(o)}")
    return ("pow", bb, 1)


def lay_convert(x):
    """`convert` of LatexPrinter._print_Mul"""
    if not x.is_Mul:
        if isinstance(x, Add):
            return ("sum", lay_expr(x))
        return ("objs", [lay_obj(x)])
    args = x.as_ordered_factors()
    for a in args:
        if isinstance(a, Rational) and not isinstance(a, Integer):
            raise Outside("rational factor inside a product")
    return ("objs", [lay_obj(a) for a in args])


def lay_abs(t):
    """a term without extractable sign -> (num body, den body | None)"""
    if isinstance(t, Rational) and not isinstance(t, Integer):
        return ("objs", [("int", int(t.p))]), ("objs", [("int", int(t.q))])
    if isinstance(t, Mul) or (isinstance(t, Pow) and t.args[1].is_Rational
                              and t.args[1].is_negative):
        if isinstance(t, Mul) and any(isinstance(a, Number)
                                      for a in t.args[1:]):
            raise Outside("unevaluated Mul")
        numer, denom = fraction(t, exact=True)
        if denom is S.One:
            return lay_convert(t), None
        return lay_convert(numer), lay_convert(denom)
    if isinstance(t, Add):
        raise Outside("nested Add")
    return ("objs", [lay_obj(t)]), None


def lay_signed(t):
    """first term of a sum / a stand-alone term, printed by _print(t)"""
    if isinstance(t, Integer) and t < 0:
        raise Outside("stand-alone negative integer is printed without blank")
    if isinstance(t, (Mul, Rational)) or (
            isinstance(t, Pow) and t.args[1].is_Rational
            and t.args[1].is_negative):
        if t.could_extract_minus_sign():
            n, d = lay_abs(-t)
            return ("term", True, n, d)
    n, d = lay_abs(t)
    return ("term", False, n, d)


def lay_expr(e):
    if isinstance(e, Add):
        terms = _PRINTER._as_ordered_terms(e, order=None)
        out = []
        for k, t in enumerate(terms):
            if k == 0:
                out.append(lay_signed(t))
            elif t.could_extract_minus_sign():
                n, d = lay_abs(-t)
                out.append(("term", True, n, d))
            else:
                n, d = lay_abs(t)
                out.append(("term", False, n, d))
        return out
    return [lay_signed(e)]


def layout(e):
    e = getattr(e, "sympy", e)
    return lay_expr(S(e))


# --- tree -> Coq literal -------------------------------------------------
def coq_str(s):
    return '"' + s.replace('"', '""') + '"'


def coq_L(s):
    return f"(L {coq_str(s)})" if s else "[]"


def coq_z(n):
    return f"({n})%Z" if n < 0 else f"{n}%Z"


SPIN = {"": "NoSpin", "a": "Alpha", "b": "Beta"}


def coq_idx(i):
    _, name, spin = i
    return f'(LIdx {coq_str(name[0])}%char {coq_L(name[1:])} {SPIN[spin]})'


def coq_list(xs):
    return "[" + "; ".join(xs) + "]"


def coq_base(b):
    if b[0] == "T":
        _, kind, name, bks, up, lo = b
        return (f"(BTens {COQ_KIND[kind]} {coq_L(name)} {coq_z(bks)} "
                f"{coq_list(map(coq_idx, up))} {coq_list(map(coq_idx, lo))})")
    if b[0] == "N":
        return f"(BNonSym {coq_L(b[1])} {coq_list(map(coq_idx, b[2]))})"
    if b[0] == "S":
        return f"(BSymb {coq_L(b[1])})"
    if b[0] == "F":
        return f"(BOp {'true' if b[1] else 'false'} {coq_idx(b[2])})"
    raise ValueError(b)


def coq_obj(o):
    k = o[0]
    if k == "int":
        return f"(OInt {o[1]}%N)"
    if k == "sqrt":
        return f"(OSqrt {coq_z(o[1])})"
    if k == "delta":
        return f"(ODelta {coq_idx(o[1])} {coq_idx(o[2])})"
    if k == "pow":
        return f"(OPow {coq_base(o[1])} {coq_z(o[2])})"
    if k == "brack":
        return f"(OBrack {coq_terms(o[1])} {coq_z(o[2])})"
    if k == "NO":
        return f"(ONO {coq_terms(o[1])})"
    raise ValueError(o)


def coq_body(b):
    if b[0] == "objs":
        return f"(BObjs {coq_list(map(coq_obj, b[1]))})"
    return f"(BSum {coq_terms(b[1])})"


def coq_term(t):
    _, neg, num, den = t
    d = "None" if den is None else f"(Some {coq_body(den)})"
    return f"(Term {'true' if neg else 'false'} {coq_body(num)} {d})"


def coq_terms(ts):
    return coq_list(map(coq_term, ts))


def coq_names(d):
    order = ["eri", "coulomb", "fock", "operator", "gs_amplitude",
             "gs_density", "left_adc_amplitude", "right_adc_amplitude",
             "orb_energy", "sym_orb_denom"]
    return "(Names " + " ".join(coq_L(d[k]) for k in order) + ")"


COQ_HEADER = """From Coq Require Import ZArith NArith List Ascii String.
From ADC Require Import Core.Index Core.Expr Models.Latex.
Import ListNotations. Open Scope string_scope.
"""


# --- S-expression printed by Latex.show_result -> tree -------------------------
_TOK = re.compile(r"\(|\)|[^\s()]+")


def unquote(v):
    """value printed by Coq for a term of type string"""
    v = v.strip()
    if v.endswith("%string"):
        v = v[:-len("%string")]
    assert v.startswith('"') and v.endswith('"'), v[:80]
    return v[1:-1].replace('""', '"')


def parse_sexpr(txt):
    toks = _TOK.findall(txt)
    pos = 0

    def rd():
        nonlocal pos
        t = toks[pos]
        pos += 1
        if t != "(":
            return t
        out = []
        while toks[pos] != ")":
            out.append(rd())
        pos += 1
        return out
    r = rd()
    assert pos == len(toks)
    return r


def _hx(t):
    assert t[0] == "x"
    return bytes.fromhex(t[1:]).decode("latin-1")


def tree_idx(x):
    return ("I", _hx(x[1]), {"n": "", "a": "a", "b": "b"}[x[2]])


def tree_base(x):
    if x[0] == "T":
        return ("T", x[1], _hx(x[2]), int(x[3]),
                [tree_idx(i) for i in x[4][1:]], [tree_idx(i) for i in x[5][1:]])
    if x[0] == "N":
        return ("N", _hx(x[1]), [tree_idx(i) for i in x[2][1:]])
    if x[0] == "S":
        return ("S", _hx(x[1]))
    if x[0] == "F":
        return ("F", x[1] == "1", tree_idx(x[2]))
    raise ValueError(x)


def tree_obj(x):
    k = x[0]
    if k in ("int", "sqrt"):
        return (k, int(x[1]))
    if k == "delta":
        return ("delta", tree_idx(x[1]), tree_idx(x[2]))
    if k == "pow":
        return ("pow", tree_base(x[1]), int(x[2]))
    if k == "brack":
        return ("brack", [tree_term(t) for t in x[1][1:]], int(x[2]))
    if k == "NO":
        return ("NO", [tree_term(t) for t in x[1][1:]])
    raise ValueError(x)


def tree_body(x):
    if x[0] == "objs":
        return ("objs", [tree_obj(o) for o in x[1:]])
    return ("sum", [tree_term(t) for t in x[1:]])


def tree_term(x):
    assert x[0] == "term"
    den = None if x[3] == "none" else tree_body(x[3])
    return ("term", x[1] == "1", tree_body(x[2]), den)


def parse_result(v):
    """Coq value of show_result -> None (raise) | list of terms"""
    s = unquote(v)
    if s == "raise":
        return None
    x = parse_sexpr(s)
    assert x[0] == "L"
    return [tree_term(t) for t in x[1:]]


# --- tree -> sympy with the calls the importer makes ------------------------
def build_idx(i):
    return get_symbols(i[1], i[2] or None)[0]


def build_base(b):
    if b[0] == "T":
        return CLASS[b[1]](b[2], [build_idx(i) for i in b[4]],
                           [build_idx(i) for i in b[5]])
    if b[0] == "N":
        return NonSymmetricTensor(b[1], [build_idx(i) for i in b[2]])
    if b[0] == "S":
        return Symbol(b[1])
    if b[0] == "F":
        return (Fd if b[1] else F)(build_idx(b[2]))
    raise ValueError(b)


def build_obj(o):
    k = o[0]
    if k == "int":
        return o[1]
    if k == "sqrt":
        return sqrt(o[1])
    if k == "delta":
        return KroneckerDelta(build_idx(o[1]), build_idx(o[2]))
    if k == "pow":
        return Pow(build_base(o[1]), o[2])
    if k == "brack":
        return Pow(build(o[1]), o[2])
    if k == "NO":
        return NO(build(o[1]))
    raise ValueError(o)


def build_body(b):
    if b[0] == "objs":
        return Mul(*(build_obj(o) for o in b[1]))
    return build(b[1])


def build(terms):
    expr = 0
    for _, neg, num, den in terms:
        t = -1 if neg else +1
        t *= build_body(num)
        if den is not None:
            t /= build_body(den)
        expr += t
    return S(expr)


# --- misc ----------------------------------------------------------------
def kinds_of(e):
    """sorted set of (class name, tensor name, bra_ket_sym) of the tensor
    atoms of a sympy expression"""
    e = getattr(e, "sympy", e)
    out = []
    for t in S(e).atoms(AntiSymmetricTensor, NonSymmetricTensor):
        bks = int(t.bra_ket_sym) if isinstance(t, AntiSymmetricTensor) else 0
        out.append((type(t).__name__, t.name, bks))
    return sorted(set(out))


def tree_kinds(terms):
    """(name, kind, bks) of every tensor of a tree"""
    out = []

    def body(b):
        if b[0] == "objs":
            for o in b[1]:
                if o[0] == "pow" and o[1][0] == "T":
                    out.append((o[1][2], o[1][1], o[1][3]))
                elif o[0] in ("brack", "NO"):
                    for t in o[1]:
                        term(t)
        else:
            for t in b[1]:
                term(t)

    def term(t):
        body(t[2])
        if t[3] is not None:
            body(t[3])
    for t in terms:
        term(t)
    return out


def ascii_ok(s):
    return all(32 <= ord(c) < 127 for c in s)
