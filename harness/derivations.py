"""Runs real adcgen derivations with wrappers that capture the inputs of
internal calls (simplify, wicks, ...) so they can be fed to the models."""
import sys


def captured_simplify_inputs(ctx, quick=True):
    import adcgen
    mods = [sys.modules[m] for m in ("adcgen.groundstate",
                                     "adcgen.intermediate_states",
                                     "adcgen.secular_matrix",
                                     "adcgen.properties")
            if m in sys.modules]
    orig = sys.modules["adcgen.simplify"].simplify
    captured = []

    def rec(expr):
        try:
            captured.append(expr.copy())
        except Exception:
            pass
        return orig(expr)
    saved = []
    for m in mods:
        if getattr(m, "simplify", None) is orig:
            saved.append(m)
            m.simplify = rec
    try:
        op = adcgen.Operators()
        gs = adcgen.GroundState(op)
        gs.energy(2)
        gs.amplitude(1, "pphh", "ijab")
        gs.amplitude(2, "ph", "ia")
        isr = adcgen.IntermediateStates(gs, "pp")
        m = adcgen.SecularMatrix(isr)
        m.isr_matrix_block(1, "ph,ph", ("ia", "jb"))
        if not quick:
            gs.amplitude(2, "pphh", "ijab")
            m.isr_matrix_block(2, "ph,ph", ("ia", "jb"))
            m.isr_matrix_block(1, "ph,pphh", ("ia", "jkbc"))
    finally:
        for m in saved:
            m.simplify = orig
    out, seen = [], set()
    for n, E in enumerate(captured):
        key = str(E.sympy)
        if key in seen or E.sympy == 0:
            continue
        seen.add(key)
        out.append((f"derivation{n}", E))
    return out
