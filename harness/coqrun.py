"""Run generated Coq files (vm_compute evaluation of the models) and parse the
printed values.  One `Eval vm_compute in (...)` per case; results come back in
order."""
import os
import re
import subprocess
import concurrent.futures as cf

VERIF = os.path.dirname(os.path.dirname(os.path.abspath(__file__)))
COQDIR = os.path.join(VERIF, "coq")
GENDIR = os.path.join(COQDIR, "gen")


class CoqError(Exception):
    pass


def _run_file(path, timeout):
    cmd = ["bash", "-c",
           f"ulimit -s unlimited 2>/dev/null; exec timeout {timeout} "
           f"coqc -q -Q {COQDIR} ADC {path}"]
    p = subprocess.run(cmd, capture_output=True, text=True, cwd=COQDIR)
    return p.returncode, p.stdout, p.stderr


_VAL = re.compile(r"^     = (.*?)^     : ", re.S | re.M)


def parse_values(out):
    return [re.sub(r"\s+", " ", m.group(1)).strip()
            for m in _VAL.finditer(out)]


def eval_cases(tag, header, cases, shard=200, timeout=600, jobs=16,
               defs=""):
    """cases: list of Coq terms (strings).  Returns list of value strings (or
    None for cases in a shard that failed to compile / timed out) and a list
    of error messages."""
    os.makedirs(GENDIR, exist_ok=True)
    files = []
    for k in range(0, len(cases), shard):
        # the process id keeps concurrent runs (seed sweeps, seeded-change
        # runs) from overwriting each other's files
        path = os.path.join(GENDIR, f"{tag}_p{os.getpid()}_{k // shard}.v")
        with open(path, "w") as f:
            f.write(header)
            f.write(defs)
            for c in cases[k:k + shard]:
                f.write(f"Eval vm_compute in ({c}).\n")
        files.append((path, len(cases[k:k + shard])))
    results, errors = [], []
    with cf.ThreadPoolExecutor(max_workers=jobs) as ex:
        outs = list(ex.map(lambda pf: _run_file(pf[0], timeout), files))
    for (path, n), (rc, out, err) in zip(files, outs):
        vals = parse_values(out)
        if rc != 0 or len(vals) != n:
            errors.append(f"{path}: rc={rc} got {len(vals)}/{n} values: "
                          f"{err.strip()[-600:]}")
            vals = (vals + [None] * n)[:n]
        results.extend(vals)
        for ext in (".vo", ".vok", ".vos", ".glob"):
            try:
                os.remove(path[:-2] + ext)
            except OSError:
                pass
        aux = os.path.join(os.path.dirname(path),
                           "." + os.path.basename(path)[:-2] + ".aux")
        if os.path.exists(aux):
            os.remove(aux)
        # evaluated files are kept only when something went wrong
        if rc == 0 and len(vals) == n and \
                not os.environ.get("VERIF_KEEP_GEN"):
            try:
                os.remove(path)
            except OSError:
                pass
    return results, errors


def coqc_file(relpath, timeout=900):
    """compile a file of the development, return (rc, stdout, stderr)"""
    return _run_file(os.path.join(COQDIR, relpath), timeout)


def make(jobs=16, timeout=3000):
    """full (incremental) .vo build of the development, serialised by a lock"""
    cmd = ["bash", "-c",
           f"cd {COQDIR} && exec 9>.build.lock && flock 9 && "
           f"python3 {VERIF}/harness/mkcoqproject.py && "
           f"( [ -f Makefile ] && [ Makefile -nt _CoqProject ] || "
           f"coq_makefile -f _CoqProject -o Makefile >/dev/null ) && "
           f"timeout {timeout} make -j{jobs} 2>&1"]
    p = subprocess.run(cmd, capture_output=True, text=True)
    return p.returncode, p.stdout
