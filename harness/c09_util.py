"""Helpers of the C09 check (Kronecker-delta evaluation): recording wrapper
around adcgen.func.evaluate_deltas, serialisation of Mul argument lists into
the objects of coq/Models/Deltas.v, input generators."""
import sys
from fractions import Fraction

from sympy import Add, Mul, Pow, S, Rational, sqrt
from sympy.physics.secondquant import F, Fd

import adcio
from adcgen.indices import Index, get_symbols
from adcgen.sympy_objects import (AntiSymmetricTensor, SymmetricTensor,
                                  Amplitude, NonSymmetricTensor,
                                  KroneckerDelta)


# --------------------------------------------------------------------------
# recording
# --------------------------------------------------------------------------
class Recorder:
    """Replaces the module global adcgen.func.evaluate_deltas (through which
    the function recurses) and every `from .func import evaluate_deltas`
    binding, recording the call tree."""

    def __init__(self):
        self.func_mod = sys.modules["adcgen.func"]
        self.orig = self.func_mod.evaluate_deltas
        if isinstance(self.orig, Recorder):
            raise RuntimeError("recorder already installed")
        self.roots = []
        self.stack = []
        self.patched = []

    def __call__(self, expr, target_idx=None):
        rec = {"expr": expr, "tg": target_idx, "children": [],
               "result": None, "error": None}
        (self.stack[-1]["children"] if self.stack else self.roots).append(rec)
        self.stack.append(rec)
        try:
            rec["result"] = self.orig(expr, target_idx)
        except Exception as ex:      # noqa
            rec["error"] = repr(ex)
            raise
        finally:
            self.stack.pop()
        return rec["result"]

    def __enter__(self):
        for name, mod in list(sys.modules.items()):
            if name == "adcgen" or name.startswith("adcgen."):
                if getattr(mod, "evaluate_deltas", None) is self.orig:
                    setattr(mod, "evaluate_deltas", self)
                    self.patched.append(mod)
        return self

    def __exit__(self, *a):
        for mod in self.patched:
            setattr(mod, "evaluate_deltas", self.orig)
        self.patched = []


def all_calls(rec):
    yield rec
    for c in rec["children"]:
        yield from all_calls(c)


# --------------------------------------------------------------------------
# serialisation
# --------------------------------------------------------------------------
class HashCtx(adcio.IdxCtx):
    """uids that reproduce the hash tie-break of sort_idx_canonical: indices
    of a case that share (space, spin, name) get uid 1 + rank of hash(idx)."""

    def __init__(self, indices):
        super().__init__()
        groups = {}
        for s in indices:
            groups.setdefault((s.space, s.spin, s.name), set()).add(s)
        self.map = {}
        for g in groups.values():
            if len(g) == 1:
                self.map[next(iter(g))] = 0
            else:
                for n, s in enumerate(sorted(g, key=hash)):
                    self.map[s] = n + 1

    def uid(self, idx):
        if idx not in self.map:
            raise adcio.Unsupported(f"index {idx!r} not announced")
        return self.map[idx]


POLY_DELTA = "delta~"


def conv_poly(p, ctx):
    """unexpanded sum factor (a*b + c*d); unlike adcio.conv_poly a summand
    may contain Kronecker deltas (kept as ("D", i, j) atoms: evaluate_deltas
    does not evaluate them)"""
    tensor = (AntiSymmetricTensor, NonSymmetricTensor)
    terms = []
    for t in Add.make_args(p):
        c, ts = Fraction(1), []
        for f in Mul.make_args(t):
            base, n = (f.args if isinstance(f, Pow) else (f, 1))
            if f.is_number:
                c2, r = adcio._split_number(f)
                if r:
                    raise adcio.Unsupported("sqrt in polynomial")
                c *= c2
            elif isinstance(base, tensor) and getattr(n, "is_Integer", True) \
                    and n > 0:
                ts.extend([adcio.conv_tensor(base, ctx)] * int(n))
            elif isinstance(f, KroneckerDelta):
                ts.append(("D", ctx.conv(f.args[0]), ctx.conv(f.args[1])))
            else:
                raise adcio.Unsupported(f"polynomial factor {f!r}")
        terms.append((c, tuple(ts)))
    return ("P", tuple(terms))


def conv_base(b, ctx):
    if isinstance(b, Fd):
        return ("T", "KNonSym", "a+", 0, (ctx.conv(b.args[0]),), ())
    if isinstance(b, F):
        return ("T", "KNonSym", "a-", 0, (ctx.conv(b.args[0]),), ())
    if isinstance(b, Add):
        return conv_poly(b, ctx)
    return adcio.conv_base(b, ctx)


def coq_view(a):
    """atom as given to Coq: a delta inside a polynomial factor becomes the
    symmetric tensor 'delta~' (Core.Expr polynomials hold tensors only; the
    theorems hold for arbitrary values of that tensor, and evaluate_deltas
    must treat it like any tensor)"""
    if a[0] != "P":
        return a
    return ("P", tuple(
        (c, tuple(("T", "KSym", POLY_DELTA, 1, (t[1],), (t[2],))
                  if t[0] == "D" else t for t in ts)) for c, ts in a[1]))


def conv_args(expr, ctx):
    """sympy expression (one term) -> None if it is 0, else
    (Fraction coefficient, [(atom, exponent)]) following Mul.args order"""
    if expr == 0:
        return None
    coef, objs = Fraction(1), []
    for f in (expr.args if isinstance(expr, Mul) else (expr,)):
        if f.is_number:
            c, rads = adcio._split_number(f)
            coef *= c
            objs.extend((("R", r), 1) for r in rads)
        elif isinstance(f, Pow):
            base, ex = f.args
            if not ex.is_Integer:
                raise adcio.Unsupported(f"exponent {ex}")
            objs.append((conv_base(base, ctx), int(ex)))
        else:
            objs.append((conv_base(f, ctx), 1))
    return coef, objs


def to_pyterm(state):
    """(coef, objs) -> pyterm of adcio/numeric: (coef, [(atom, inverted)])"""
    coef, objs = state
    facs = []
    for a, z in objs:
        facs.extend([(a, z < 0)] * abs(z))
    return (coef, facs)


def coq_state(state):
    if state is None:
        return "None"
    coef, objs = state
    return ("(Some (St " + adcio.coq_q(coef) + " " + adcio.coq_list(
        f"({adcio.coq_atom(coq_view(a))}, ({z})%Z)" for a, z in objs) + "))")


def coq_state_raw(state):
    coef, objs = state
    return ("(St " + adcio.coq_q(coef) + " " + adcio.coq_list(
        f"({adcio.coq_atom(coq_view(a))}, ({z})%Z)" for a, z in objs) + ")")


def coq_idx_list(lst):
    return adcio.coq_list(i.coq() for i in lst)


def coq_opt_idx_list(lst):
    return "None" if lst is None else f"(Some {coq_idx_list(lst)})"


def expr_indices(expr):
    return set(expr.atoms(Index))


def einstein_targets(state):
    """indices occurring exactly once (|exponent|-weighted) in the term"""
    cnt = {}
    for a, z in state[1]:
        for i in adcio.atom_indices(a):
            cnt[i] = cnt.get(i, 0) + abs(z)
    return [i for i, n in cnt.items() if n == 1]


def covered(state, tg):
    """every contracted index occurs on at least one non-delta object"""
    tg = set(tg)
    on_other = set()
    allidx = set()
    for a, z in state[1]:
        ids = adcio.atom_indices(a)
        allidx.update(ids)
        if a[0] != "D":
            on_other.update(ids)
    return all(i in on_other for i in allidx if i not in tg)


# --------------------------------------------------------------------------
# generators
# --------------------------------------------------------------------------
BASE = {"occ": "ijklmno", "virt": "abcdefgh", "general": "pqrstuvw"}
SORTS = [(sp, s) for sp in ("occ", "virt", "general") for s in ("", "a", "b")]


def alive(s1, s2):
    (sp1, p1), (sp2, p2) = s1, s2
    if sp1 != "general" and sp2 != "general" and sp1 != sp2:
        return False
    if p1 and p2 and p1 != p2:
        return False
    return True


class IndexPool:
    def __init__(self, rng):
        self.rng = rng
        self.used = set()

    def fresh(self, sort):
        space, spin = sort
        names = list(BASE[space]) + [c + "1" for c in BASE[space]]
        self.rng.shuffle(names)
        for n in names:
            if (n, spin) not in self.used:
                self.used.add((n, spin))
                return get_symbols(n, spin if spin else None)[0]
        raise RuntimeError("index pool exhausted")


def random_sort(rng, near=None):
    """a sort; if `near` is given one that gives a non-zero delta with it"""
    w = [3, 1, 1, 3, 1, 1, 3, 1, 1]
    for _ in range(200):
        s = rng.choices(SORTS, weights=w)[0]
        if near is None or alive(s, near):
            return s
    return near


def delta_graph(rng, pool, n_deltas, shape):
    """returns (list of delta index pairs, list of indices)"""
    idx = [pool.fresh(random_sort(rng))]
    pairs = []
    for k in range(n_deltas):
        if shape == "chain":
            anchor = idx[-1]
        elif shape == "star":
            anchor = idx[0]
        else:                       # tree / occasionally a cycle
            anchor = rng.choice(idx)
        if shape == "mixed" and len(idx) > 2 and rng.random() < 0.2:
            other = rng.choice([x for x in idx if x is not anchor])
            if alive((anchor.space, anchor.spin), (other.space, other.spin)):
                pairs.append((anchor, other))
                continue
        new = pool.fresh(random_sort(rng, (anchor.space, anchor.spin)))
        idx.append(new)
        pairs.append((anchor, new))
    return pairs, idx


def random_tensor(rng, pool, must, extra_pool):
    """a tensor / operator object carrying the indices in `must` (<= 4)"""
    must = list(must)
    kind = rng.choice(["ns", "ns", "anti", "amp", "sym", "op"])
    if kind == "op" and len(must) == 1:
        return rng.choice([F, Fd])(must[0])
    if kind in ("ns", "op"):
        n = max(len(must), rng.randint(1, 3))
        ids = must + [extra_pool() for _ in range(n - len(must))]
        rng.shuffle(ids)
        return NonSymmetricTensor(rng.choice("fgh"), tuple(ids))
    rank = 1 if len(must) <= 2 and rng.random() < 0.5 else 2
    if len(must) > 2 * rank:
        rank = 2
    ids = must + [extra_pool() for _ in range(2 * rank - len(must))]
    rng.shuffle(ids)
    up, lo = ids[:rank], ids[rank:]
    if kind == "anti":
        return AntiSymmetricTensor(rng.choice(["V", "d"]), tuple(up),
                                   tuple(lo), rng.choice([0, 1, -1]))
    if kind == "amp":
        return Amplitude("t%d" % rank, tuple(up), tuple(lo))
    return SymmetricTensor("w", tuple(up), tuple(lo), rng.choice([0, 1]))


def random_poly(rng, pool, idx, extras, others):
    """an unexpanded sum factor; one or two summands carry a Kronecker delta
    delta_{x y}: x is an index of the product (often one linked by the outer
    deltas), y a general index without spin that never sits on an outer
    delta (so no substitution can turn the inner delta into 1 or 0) but often
    on another tensor of the product"""
    def some_index():
        r = rng.random()
        if r < 0.5:
            return rng.choice(idx)
        if r < 0.8 and extras:
            return rng.choice(extras)
        e = pool.fresh(random_sort(rng))
        extras.append(e)
        return e
    ys = []
    summands = []
    n_delta = rng.choice([1, 1, 2])
    for k in range(rng.randint(2, 3)):
        fac = []
        if k < n_delta:
            y = pool.fresh(("general", ""))
            ys.append(y)
            fac.append(KroneckerDelta(some_index(), y))
        for _ in range(rng.randint(1, 2)):
            ids = [some_index() for _ in range(rng.randint(1, 2))]
            if ys and rng.random() < 0.5:
                ids.append(rng.choice(ys))
            fac.append(NonSymmetricTensor(rng.choice(["u", "v"]), tuple(ids)))
        summands.append(Mul(rng.choice([1, 1, -1, 2, Rational(1, 3)]), *fac))
    poly = Add(*summands)
    if not isinstance(poly, Add):
        poly = poly + NonSymmetricTensor("u", (some_index(),))
    if rng.random() < 0.2:
        poly = poly ** 2
    # the inner delta index on another tensor of the product
    carry = [y for y in ys if rng.random() < 0.7]
    if carry:
        poly = poly * NonSymmetricTensor("y", tuple(carry))
    return poly


def gen_case(rng, max_deltas=6, cover=True):
    """returns (expr, explicit targets or None, info)"""
    pool = IndexPool(rng)
    n = rng.choice([1, 1, 2, 2, 3, 3, 4, 5, 6][:3 + max_deltas])
    n = min(n, max_deltas)
    shape = rng.choice(["chain", "chain", "star", "mixed"])
    pairs, idx = delta_graph(rng, pool, n, shape)
    extras = []

    def extra_pool():
        if extras and rng.random() < 0.4:
            return rng.choice(extras)
        if rng.random() < 0.25:
            return rng.choice(idx)
        e = pool.fresh(random_sort(rng))
        extras.append(e)
        return e

    objs = [KroneckerDelta(a, b) for a, b in pairs]
    # which delta indices are carried by other objects
    carried = [x for x in idx if rng.random() < (0.75 if cover else 0.45)]
    if rng.random() < 0.2:
        # an index that shares its name with another index of different spin
        # (j / j_a); often the first one sits on a delta only (a target)
        x = rng.choice(idx)
        spin = rng.choice([sp for sp in ("", "a", "b") if sp != x.spin])
        if (x.name, spin) not in pool.used:
            pool.used.add((x.name, spin))
            twin = get_symbols(x.name, spin if spin else None)[0]
            if twin.space == x.space:
                objs.append(NonSymmetricTensor("z", (twin,)))
                if rng.random() < 0.7:
                    carried = [c for c in carried if c is not x]
    protect = []
    if rng.random() < 0.15:
        # collision family: delta_{i p_sigma} (spin-less occ/virt index, spin
        # labelled general index; no preferred index, left in place), both
        # contracted and on other tensors, and a contracted index with the
        # name of i and the spin sigma elsewhere in the product
        sigma = rng.choice("ab")
        i = pool.fresh((rng.choice(["occ", "virt"]), ""))
        if (i.name, sigma) not in pool.used:
            pool.used.add((i.name, sigma))
            twin = get_symbols(i.name, sigma)[0]
            pg = pool.fresh(("general", sigma))
            objs.append(KroneckerDelta(i, pg))
            objs.append(NonSymmetricTensor("f", (i, extra_pool())))
            objs.append(NonSymmetricTensor("g", (pg,)))
            objs.append(NonSymmetricTensor("h", (twin,)))
            objs.append(NonSymmetricTensor("k", (twin,) if rng.random() < 0.6
                                           else (twin, extra_pool())))
            protect = [i, pg, twin]
    rng.shuffle(carried)
    while carried:
        k = rng.randint(1, min(3, len(carried)))
        must, carried = carried[:k], carried[k:]
        objs.append(random_tensor(rng, pool, must, extra_pool))
    for _ in range(rng.choice([0, 0, 1])):
        objs.append(random_tensor(rng, pool, [extra_pool()], extra_pool))
    if rng.random() < 0.15 and len(objs) > n:
        objs.append(objs[-1])                      # a square
    has_poly = False
    if rng.random() < 0.3 and len(objs) > n:
        objs.append(random_poly(rng, pool, idx, extras, objs[n:]))
        has_poly = True
    coef = rng.choice([1, 1, -1, 2, Rational(1, 2), Rational(-1, 4),
                       sqrt(2), 1 / sqrt(2)])
    expr = Mul(coef, *objs)
    # targets
    allidx = sorted(expr_indices(expr), key=lambda s: (s.name, s.spin))
    if rng.random() < 0.45:
        tg = None
    else:
        tg = [x for x in allidx if rng.random() < 0.35]
        if protect and rng.random() < 0.7:
            tg = [x for x in tg if x not in protect]
    if cover and expr != 0:
        ctx = HashCtx(allidx)
        st = conv_args(expr, ctx)
        if st is not None:
            sem = einstein_targets(st) if tg is None else \
                [ctx.conv(x) for x in tg]
            back = {ctx.conv(x): x for x in allidx}
            semset = set(sem)
            on_other = set()
            for a, z in st[1]:
                if a[0] != "D":
                    on_other.update(adcio.atom_indices(a))
            need = [back[i] for i in back
                    if i not in semset and i not in on_other]
            # cover the naked contracted indices with one more tensor; for
            # counted targets an index must then occur on two other objects
            # or on the delta and the tensor: one tensor suffices
            while need:
                must, need = need[:3], need[3:]
                expr = expr * NonSymmetricTensor("x", tuple(must))
    return expr, tg, {"deltas": n, "shape": shape, "poly": has_poly}


# --------------------------------------------------------------------------
# replay support: JSON form of a product and its reconstruction
# --------------------------------------------------------------------------
def _idx_json(i):
    return [i.space, i.spin, i.name, i.uid]


def state_to_json(state):
    coef, objs = state
    out = []
    for a, z in objs:
        if a[0] == "T":
            out.append({"t": "T", "kind": a[1], "name": a[2], "bks": a[3],
                        "upper": [_idx_json(i) for i in a[4]],
                        "lower": [_idx_json(i) for i in a[5]], "exp": z})
        elif a[0] == "D":
            out.append({"t": "D", "i": _idx_json(a[1]), "j": _idx_json(a[2]),
                        "exp": z})
        elif a[0] == "S":
            out.append({"t": "S", "name": a[1], "exp": z})
        elif a[0] == "R":
            out.append({"t": "R", "n": a[1], "exp": z})
        else:
            raise adcio.Unsupported("polynomial in replay")
    return {"coef": [coef.numerator, coef.denominator], "objs": out}


def json_to_expr(js):
    """rebuild the sympy product (registry indices only; raw dummies with
    uid > 0 are recreated as registry indices of the same name)"""
    from sympy import Symbol

    def idx(d):
        space, spin, name, uid = d
        return get_symbols(name, spin if spin else None)[0]
    e = Rational(js["coef"][0], js["coef"][1])
    for o in js["objs"]:
        if o["t"] == "T":
            up = tuple(idx(d) for d in o["upper"])
            lo = tuple(idx(d) for d in o["lower"])
            if o["name"] == "a+":
                b = Fd(up[0])
            elif o["name"] == "a-":
                b = F(up[0])
            elif o["kind"] == "KNonSym":
                b = NonSymmetricTensor(o["name"], up)
            elif o["kind"] == "KAmp":
                b = Amplitude(o["name"], up, lo, o["bks"])
            elif o["kind"] == "KSym":
                b = SymmetricTensor(o["name"], up, lo, o["bks"])
            else:
                b = AntiSymmetricTensor(o["name"], up, lo, o["bks"])
        elif o["t"] == "D":
            b = KroneckerDelta(idx(o["i"]), idx(o["j"]))
        elif o["t"] == "S":
            b = Symbol(o["name"])
        else:
            b = sqrt(o["n"])
        e = e * b ** o["exp"]
    return e
