#!/usr/bin/env python3
"""Regenerates coq/_CoqProject from the .v files present under Core/, Models/,
Props/ (gen/ holds per-run case files and is not part of the build)."""
import os
COQ = os.path.join(os.path.dirname(os.path.dirname(os.path.abspath(__file__))), "coq")
files = []
for d in ("Core", "Models", "Props"):
    for root, _, fs in os.walk(os.path.join(COQ, d)):
        for f in sorted(fs):
            if f.endswith(".v") and not f.startswith("."):
                files.append(os.path.relpath(os.path.join(root, f), COQ))
new = "-Q . ADC\n" + "\n".join(sorted(files)) + "\n"
p = os.path.join(COQ, "_CoqProject")
if not os.path.exists(p) or open(p).read() != new:
    open(p, "w").write(new)
