"""Refinement obligations 'e1 has the same value as e2 in every model':
serialise, find an (untrusted) certificate, let the Coq kernel evaluate the
verified validator ADC.Core.Equiv.check_equiv, and on rejection search for a
concrete failing model with the independent numeric evaluator."""
import adcio
import certfind
import numeric


class Pair:
    def __init__(self, e1, e2, targets, label, special=None, meta=None,
                 deltas=False):
        self.deltas = deltas
        self.e1, self.e2 = e1, e2
        self.targets = list(targets)
        self.label = label
        self.special = special
        self.meta = meta or {}
        self.ok = None
        self.err = None
        self.diff = None
        self.p1 = self.p2 = self.tg = None


def prepare(pair):
    ctx = adcio.IdxCtx()
    pair.p1 = adcio.conv_expr(pair.e1, ctx)
    pair.p2 = adcio.conv_expr(pair.e2, ctx)
    pair.tg = [ctx.conv(x) for x in pair.targets]
    return coq_case(pair.p1, pair.p2, pair.tg, pair.deltas)


def coq_case(p1, p2, tgc, deltas=False):
    """Coq term deciding p1 == p2 (pyterm lists) with targets tgc; with
    deltas=True the certificate may eliminate Kronecker deltas
    (ADC.Core.Equiv2.check_equiv2; evaluate with adcio.COQ_HEADER2)"""
    c1, f1 = certfind.expr_cert(p1, tgc, deltas)
    c2, f2 = certfind.expr_cert(p2, tgc, deltas)
    tg = adcio.coq_list(x.coq() for x in tgc)
    if deltas:
        return (f"check_equiv2 {tg} {adcio.coq_cert2(c1)} "
                f"{adcio.coq_cert2(c2)} {adcio.coq_expr(p1)} "
                f"{adcio.coq_expr(p2)}")
    return (f"check_equiv {tg} {adcio.coq_cert(c1)} {adcio.coq_cert(c2)} "
            f"{adcio.coq_expr(p1)} {adcio.coq_expr(p2)}")


def run_pairs(ctx, tag, pairs, shard=40, search=True, timeout=900):
    """returns the list of pairs with .ok filled in (True / False / None when
    the input is outside the validator's fragment)"""
    cases, idxs = [], []
    for n, p in enumerate(pairs):
        try:
            cases.append(prepare(p))
            idxs.append(n)
        except adcio.Unsupported as ex:
            p.ok = None
            p.err = f"unsupported: {ex}"
    hdr = adcio.COQ_HEADER2 if any(p.deltas for p in pairs) else None
    vals, errs = ctx.coq_eval(tag, cases, header=hdr, shard=shard,
                              timeout=timeout)
    for n, v in zip(idxs, vals):
        p = pairs[n]
        if v is None:
            p.ok = False
            p.err = "coq evaluation failed: " + "; ".join(errs)[:500]
        else:
            p.ok = (v == "true")
        if p.ok is False and search:
            try:
                p.diff = numeric.find_difference(
                    p.p1, p.p2, p.tg, ctx.rng, special=p.special)
            except Exception as ex:  # evaluator outside its domain
                p.err = (p.err or "") + f" numeric search failed: {ex!r}"
    return pairs


def describe(pair, maxlen=600):
    return {"label": pair.label, "targets": [repr(x) for x in pair.tg or []],
            "e1": str(getattr(pair.e1, "sympy", pair.e1))[:maxlen],
            "e2": str(getattr(pair.e2, "sympy", pair.e2))[:maxlen],
            "meta": pair.meta}
