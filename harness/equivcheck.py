"""Refinement obligations 'e1 has the same value as e2 in every model':
serialise, find an (untrusted) certificate, let the Coq kernel evaluate the
verified validator ADC.Core.Equiv.check_equiv, and on rejection search for a
concrete failing model with the independent numeric evaluator."""
import contextlib
import signal
import adcio
import certfind
import numeric


class TimeLimit(Exception):
    pass


@contextlib.contextmanager
def time_limit(seconds):
    """bound the run time of a library call (main thread only)"""
    def handler(signum, frame):
        raise TimeLimit(f"time limit of {seconds} s exceeded")
    old = signal.signal(signal.SIGALRM, handler)
    signal.alarm(int(seconds))
    try:
        yield
    finally:
        signal.alarm(0)
        signal.signal(signal.SIGALRM, old)


class Pair:
    def __init__(self, e1, e2, targets, label, special=None, meta=None,
                 deltas=False, frac=None):
        self.deltas = deltas
        self.frac = frac      # name of the orbital-energy tensor or None
        self.e1, self.e2 = e1, e2
        self.targets = list(targets)
        self.label = label
        self.special = special
        self.meta = meta or {}
        self.ok = None
        self.err = None
        self.diff = None
        self.p1 = self.p2 = self.tg = None


def prepare(pair):
    if pair.p1 is None:      # otherwise the pyterms were supplied directly
        ctx = adcio.IdxCtx()
        pair.p1 = adcio.conv_expr(pair.e1, ctx)
        pair.p2 = adcio.conv_expr(pair.e2, ctx)
        pair.tg = [ctx.conv(x) for x in pair.targets]
    return coq_case(pair.p1, pair.p2, pair.tg, pair.deltas, pair.frac,
                    mode=getattr(pair, "mode", None),
                    coq1=getattr(pair, "coq1", None),
                    coq2=getattr(pair, "coq2", None))


def coq_case(p1, p2, tgc, deltas=False, frac=None, mode=None, coq1=None,
             coq2=None):
    """Coq term deciding p1 == p2 (pyterm lists) with targets tgc; with
    deltas=True the certificate may eliminate Kronecker deltas
    (ADC.Core.Equiv2.check_equiv2; evaluate with adcio.COQ_HEADER2)"""
    tg = adcio.coq_list(x.coq() for x in tgc)
    if frac is not None:
        # pool names may enter through the renamings: list them as variables
        if mode == "stab":
            c1, c2 = certfind.pair_cert_stab(p1, p2, tgc, frac)
        else:
            c1, f1 = certfind.expr_cert(p1, tgc, True, frac, mode)
            c2, f2 = certfind.expr_cert(p2, tgc, True, frac, mode)
        vs = certfind.eps_vars([p1, p2], frac)
        # a renaming may move an orbital-energy index to any pool name up to
        # the number of indices of its sort in a term
        sorts = {}
        for t in list(p1) + list(p2):
            cnt = {}
            for x in set(adcio.term_indices(t)):
                cnt[x.sort] = cnt.get(x.sort, 0) + 1
            for so, n in cnt.items():
                sorts[so] = max(sorts.get(so, 0), n)
        sorts = {v.sort: sorts.get(v.sort, 1) for v in vs}
        allv = list(vs)
        for sort, n in sorts.items():
            for q in certfind.pool_names(sort, set(), n + len(tgc) + 2):
                if q not in allv:
                    allv.append(q)
        return (f"check_equiv_frac {adcio.coq_str(frac)} "
                f"{adcio.coq_list(x.coq() for x in allv)} {tg} "
                f"{adcio.coq_cert2(c1)} {adcio.coq_cert2(c2)} "
                f"{coq1 or adcio.coq_expr(p1)} {coq2 or adcio.coq_expr(p2)}")
    c1, f1 = certfind.expr_cert(p1, tgc, deltas, mode=mode)
    c2, f2 = certfind.expr_cert(p2, tgc, deltas, mode=mode)
    if deltas:
        return (f"check_equiv2 {tg} {adcio.coq_cert2(c1)} "
                f"{adcio.coq_cert2(c2)} {coq1 or adcio.coq_expr(p1)} "
                f"{coq2 or adcio.coq_expr(p2)}")
    return (f"check_equiv {tg} {adcio.coq_cert(c1)} {adcio.coq_cert(c2)} "
            f"{coq1 or adcio.coq_expr(p1)} {coq2 or adcio.coq_expr(p2)}")


def run_pairs(ctx, tag, pairs, shard=40, search=True, timeout=900,
              header=None):
    """returns the list of pairs with .ok filled in (True / False / None when
    the input is outside the validator's fragment).  Fraction pairs are tried
    with increasingly expensive certificates (identity, canonical
    relabelling, automorphism average, stabiliser-generated average)."""
    hdr = header
    if hdr is None:
        hdr = adcio.COQ_HEADER2 if any(p.deltas for p in pairs) else None
        if any(p.frac for p in pairs):
            hdr = adcio.COQ_HEADER3
    todo = list(range(len(pairs)))
    modes = ["identity", "canon", "aut", "stab"] if any(p.frac for p in pairs) \
        else [None]
    for stage, mode in enumerate(modes):
        cases, idxs = [], []
        for n in todo:
            p = pairs[n]
            if p.ok:
                continue
            p.mode = mode
            try:
                cases.append(prepare(p))
                idxs.append(n)
            except adcio.Unsupported as ex:
                p.ok = None
                p.err = f"unsupported: {ex}"
        if not cases:
            break
        vals, errs = ctx.coq_eval(f"{tag}{stage}", cases, header=hdr,
                                  shard=shard,
                                  timeout=timeout if stage == 0 else 100)
        todo = []
        for n, v in zip(idxs, vals):
            p = pairs[n]
            if v is None:
                p.ok = False
                p.err = "coq evaluation failed: " + "; ".join(errs)[:500]
                if "rc=124" in p.err:
                    # the kernel evaluation ran into its time limit: neither
                    # accepted nor rejected
                    p.timed_out = True
            else:
                p.ok = (v == "true")
                p.err = None
            if not p.ok:
                todo.append(n)
        if search and stage + 1 < len(modes):
            # a concrete numeric difference settles the case: no need for
            # more expensive certificates
            still = []
            for n in todo:
                p = pairs[n]
                try:
                    p.diff = numeric.find_difference(
                        p.p1, p.p2, p.tg, ctx.rng, special=p.special,
                        models=2, assigns=4, max_cost=3e5)
                except Exception:
                    p.diff = None
                if p.diff is None:
                    still.append(n)
            todo = still
    for p in pairs:
        if p.ok is False and search and p.diff is None:
            try:
                # the brute-force search is bounded in time as well: a case
                # without a difference found is reported as such
                with time_limit(300):
                    p.diff = numeric.find_difference(
                        p.p1, p.p2, p.tg, ctx.rng, special=p.special)
            except Exception as ex:  # evaluator outside its domain / limit
                p.err = (p.err or "") + f" numeric search failed: {ex!r}"
    return pairs


def describe(pair, maxlen=600):
    return {"label": pair.label, "targets": [repr(x) for x in pair.tg or []],
            "e1": str(getattr(pair.e1, "sympy", pair.e1))[:maxlen],
            "e2": str(getattr(pair.e2, "sympy", pair.e2))[:maxlen],
            "meta": pair.meta}
