"""Helpers of the C01 check (Wick evaluation = Fermi-vacuum expectation value).

* explicit determinant-space algebra on occupation bitstrings (independent of
  adcgen and of the Coq development): action of a+/a with the textbook phase,
  <Phi| string |Phi>, normal-ordered groups with their own meaning
  (quasi-creators to the left, sign of the permutation), brute-force value of
  `tensors x operator string` summed over the contracted indices;
* canonical integer-weighted multisets of delta products for comparing
  `_contract_operator_string` with the Gallina model;
* generators of operator strings and of wicks inputs.
"""
import itertools
import re

from sympy import Add, Mul, S, expand
from sympy.physics.secondquant import F, Fd, NO

from adcgen.indices import Index, get_symbols
from adcgen.sympy_objects import (KroneckerDelta, AntiSymmetricTensor,
                                  NonSymmetricTensor, Amplitude)

import adcio
import numeric

SPACE_COQ = {"occ": "Occ", "virt": "Virt", "general": "Gen"}


# ---------------------------------------------------------------------------
# determinant algebra on bitstrings
# ---------------------------------------------------------------------------
def act(create, x, sign, det):
    """a+_x / a_x on sign*|det>; returns (sign, det) or None"""
    bit = 1 << x
    if create == bool(det & bit):
        return None
    if bin(det & (bit - 1)).count("1") & 1:
        sign = -sign
    return sign, det ^ bit


def vev_bits(ops, ref):
    """<ref| o1 o2 ... on |ref>, ops = [(create, orbital), ...]"""
    sign, det = 1, ref
    for create, x in reversed(ops):
        r = act(create, x, sign, det)
        if r is None:
            return 0
        sign, det = r
    return sign if det == ref else 0


def normal_order_bits(ops, ref):
    """N[o1 ... on] for elementary operators: quasi-creators (a+_virt, a_occ)
    moved to the left keeping relative orders, sign = parity of the number of
    (quasi-annihilator, quasi-creator) inversions"""
    def qcre(o):
        occ = bool(ref & (1 << o[1]))
        return o[0] != occ
    inv, n_ann = 0, 0
    for o in ops:
        if qcre(o):
            inv += n_ann
        else:
            n_ann += 1
    out = [o for o in ops if qcre(o)] + [o for o in ops if not qcre(o)]
    return (-1 if inv & 1 else 1), out


class OrbModel:
    """spin orbitals 0..nocc-1 occupied, nocc..nocc+nvirt-1 virtual; uses
    numeric.Model (same orbital layout) for the tensor values"""

    def __init__(self, seed, nocc=2, nvirt=2):
        assert nocc % 2 == 0 and nvirt % 2 == 0
        self.tm = numeric.Model(seed, (nocc // 2, nocc // 2),
                                (nvirt // 2, nvirt // 2))
        self.n = nocc + nvirt
        self.ref = (1 << nocc) - 1
        assert [o for o, (occ, _) in enumerate(self.tm.orbs) if occ] == \
            list(range(nocc))

    def rng(self, pyidx):
        return self.tm.rng(pyidx.space, pyidx.spin)


def reference_value(model, coef_term, groups, targets_env, contracted):
    """sum over assignments of `contracted` (PyIdx) of
    coef * prod tensors * <Phi| groups |Phi>.
    coef_term: pyterm (Fraction, factors) of the commuting part;
    groups: [(is_NO, [(create, PyIdx), ...]), ...]"""
    P = numeric.P
    tot = 0
    ranges = [model.rng(i) for i in contracted]
    env = dict(targets_env)
    for combo in itertools.product(*ranges):
        for i, o in zip(contracted, combo):
            env[i] = o
        tv = model.tm.term_val(coef_term, env)
        if tv == 0:
            continue
        sign, ops = 1, []
        for is_no, g in groups:
            conc = [(c, env[i]) for c, i in g]
            if is_no:
                s, conc = normal_order_bits(conc, model.ref)
                sign *= s
            ops += conc
        v = vev_bits(ops, model.ref) * sign
        tot = (tot + tv * v) % P
    return tot


# ---------------------------------------------------------------------------
# canonical forms of sums of delta products
# ---------------------------------------------------------------------------
class CanonError(Exception):
    pass


def canon_sympy(res, idmap):
    """library result of _contract_operator_string -> {sorted factor tuple:
    integer coefficient}.  Factors: ("D", id1, id2) for a delta between two
    indices of the string, ("F", id, space) for a delta between an index of
    the string and a new index of the given space (must occur exactly once in
    the term)."""
    out = {}
    res = expand(res)
    if res == 0:
        return out
    for term in Add.make_args(res):
        coef, facs, fresh = 1, [], []
        for f in Mul.make_args(term):
            if f.is_Integer:
                coef *= int(f)
            elif isinstance(f, KroneckerDelta):
                i, j = f.args
                ki, kj = i in idmap, j in idmap
                if ki and kj:
                    facs.append(("D",) + tuple(sorted((idmap[i], idmap[j]))))
                elif ki != kj:
                    q, x = (i, j) if ki else (j, i)
                    if not isinstance(x, Index) or x.spin:
                        raise CanonError(f"unexpected new index {x!r}")
                    fresh.append(x)
                    facs.append(("F", idmap[q], x.space))
                else:
                    raise CanonError(f"delta between two new indices {f}")
            else:
                raise CanonError(f"unexpected factor {f!r} of type {type(f)}")
        if len(set(fresh)) != len(fresh):
            raise CanonError(f"a new index occurs twice in {term}")
        key = tuple(sorted(facs))
        out[key] = out.get(key, 0) + coef
    return {k: v for k, v in out.items() if v}


_TRIPLE = re.compile(r"\((\d+)%N,(\d+)%N,(\d+)%N\)")


def parse_wterms(val):
    """Coq value of type list (bool * list (N*N*N)) -> [(neg, [(p,q,code)])]"""
    if val is None:
        return None
    val = re.sub(r"\s+", "", val)      # the pretty printer breaks lines anywhere
    if val in ("[]", "nil"):
        return []
    out = []
    for m in re.finditer(r"\((true|false),(\[[^\]]*\]|nil)\)", val):
        cs = [(int(a), int(b), int(c))
              for a, b, c in _TRIPLE.findall(m.group(2))]
        out.append((m.group(1) == "true", cs))
    return out


def canon_model(wterms, spaces):
    """model result -> same canonical form, applying what sympy's
    KroneckerDelta does on construction (delta_xx = 1, delta_ov = 0,
    delta**2 = delta) and Add's merging of equal terms."""
    out = {}
    for neg, cs in wterms:
        coef = -1 if neg else 1
        dset, fresh, zero = set(), [], False
        for p, q, code in cs:
            if code == 9:
                zero = True
                continue
            if p != q:
                sp, sq = spaces[p], spaces[q]
                if "general" not in (sp, sq) and sp != sq:
                    zero = True
                dset.add(("D",) + tuple(sorted((p, q))))
            if code in (1, 2, 3):
                fs = {1: "occ", 2: "virt", 3: "general"}[code]
                if spaces[q] != "general" and fs != "general" \
                        and spaces[q] != fs:
                    zero = True
                fresh.append(("F", q, fs))
        if zero:
            continue
        key = tuple(sorted(list(dset) + fresh))
        out[key] = out.get(key, 0) + coef
    return {k: v for k, v in out.items() if v}


def value_of_canon(canon, spaces, env, ref):
    """integer value of a canonical delta polynomial for an orbital assignment
    (new indices summed over their range)"""
    tot = 0
    for key, coef in canon.items():
        v = coef
        for f in key:
            if f[0] == "D":
                if env[f[1]] != env[f[2]]:
                    v = 0
            else:
                occ = bool(ref & (1 << env[f[1]]))
                if (f[2] == "occ" and not occ) or (f[2] == "virt" and occ):
                    v = 0
        tot += v
    return tot


# ---------------------------------------------------------------------------
# operator strings
# ---------------------------------------------------------------------------
def index_pool():
    occ = get_symbols("ijklmno") + get_symbols(["i1", "j1", "k1"])
    virt = get_symbols("abcdefgh") + get_symbols(["a1", "b1"])
    gen = get_symbols("pqrstuvw") + get_symbols(["p1", "q1"])
    return {"occ": list(occ), "virt": list(virt), "general": list(gen)}


def number_ops(ops):
    """ops: list of sympy F/Fd -> (idmap Index->id, spaces id->space,
    [(create, id)])"""
    idmap, spaces, out = {}, {}, []
    for o in ops:
        ix = o.args[0]
        if ix not in idmap:
            idmap[ix] = len(idmap) + 1
            spaces[idmap[ix]] = ix.space
        out.append((isinstance(o, Fd), idmap[ix]))
    return idmap, spaces, out


def coq_ops(num_ops, spaces):
    return "[" + "; ".join(
        f"Op {'true' if c else 'false'} (Idx {SPACE_COQ[spaces[k]]} NoSpin "
        f"{k}%N 0%N 0%N)" for c, k in num_ops) + "]"


def ops_key(num_ops, spaces):
    return tuple((c, k, spaces[k]) for c, k in num_ops)


PAIR_KINDS = [
    # (first op create?, first space, second op create?, second space)
    (True, "occ", False, "occ"), (False, "virt", True, "virt"),
    (True, "general", False, "general"), (False, "general", True, "general"),
    (True, "occ", False, "general"), (True, "general", False, "occ"),
    (False, "virt", True, "general"), (False, "general", True, "virt"),
    (True, "virt", False, "virt"), (False, "occ", True, "occ"),
]


def gen_string(rng, length, pool, style=None):
    """structured random operator string of the given length"""
    style = style or rng.choice(["pairs", "pairs", "pairs", "shuffled",
                                 "random", "unbalanced", "allgen", "ov"])
    npool = rng.choice([1, 2, 3, 10])     # few indices => many repeats

    def pick(space):
        return rng.choice(pool[space][:npool])
    ops = []
    if style in ("pairs", "shuffled"):
        for _ in range(length // 2):
            c1, s1, c2, s2 = rng.choice(PAIR_KINDS[:8] if rng.random() < 0.85
                                        else PAIR_KINDS)
            i1 = pick(s1)
            i2 = i1 if (s1 == s2 and rng.random() < 0.3) else pick(s2)
            pair = [(Fd if c1 else F)(i1), (Fd if c2 else F)(i2)]
            if style == "pairs" or not ops:
                ops += pair
            else:   # interleave
                a = rng.randrange(len(ops) + 1)
                ops.insert(a, pair[0])
                b = rng.randrange(a + 1, len(ops) + 1)
                ops.insert(b, pair[1])
        if length % 2:
            ops.append(rng.choice([F, Fd])(pick(rng.choice(list(pool)))))
        if style == "pairs" and rng.random() < 0.5:
            # nest: rotate so that contractions cross
            k = rng.randrange(len(ops))
            ops = ops[k:] + ops[:k]
    elif style == "allgen":
        for n in range(length):
            ops.append((Fd if (n % 2 == 0) == (rng.random() < 0.9) else F)(
                pick("general")))
    elif style == "ov":
        for n in range(length):
            ops.append(rng.choice([F, Fd])(pick(rng.choice(["occ", "virt"]))))
    elif style == "unbalanced":
        sp = rng.choice(["occ", "virt"])
        for n in range(length):
            cre = rng.random() < 0.7
            ops.append((Fd if cre else F)(pick(rng.choice([sp, sp,
                                                            "general"]))))
    else:
        for n in range(length):
            ops.append(rng.choice([F, Fd])(pick(rng.choice(list(pool)))))
    return ops[:length] if len(ops) >= length else ops


# ---------------------------------------------------------------------------
# wicks inputs: tensors x operator groups
# ---------------------------------------------------------------------------
class WicksCase:
    """coef * tensors * groups; groups = [(is_NO, [sympy ops])]"""

    def __init__(self, coef, tensors, groups, label):
        self.coef, self.tensors, self.groups, self.label = \
            coef, tensors, groups, label

    def expr(self):
        facs = [self.coef] + list(self.tensors)
        for is_no, g in self.groups:
            if is_no:
                facs.append(NO(Mul(*g)))
            else:
                facs.extend(g)
        return Mul(*facs)

    def describe(self):
        gs = []
        for is_no, g in self.groups:
            s = "*".join(("Fd" if isinstance(o, Fd) else "F") +
                         f"({o.args[0]})" for o in g)
            gs.append(f"NO({s})" if is_no else s)
        ts = "*".join(str(t) for t in self.tensors)
        return f"{self.coef}*{ts}*" + "*".join(gs) if ts else \
            f"{self.coef}*" + "*".join(gs)

    def op_indices(self):
        return [o.args[0] for _, g in self.groups for o in g]


def gen_braket_groups(rng, pool, n_ops, allow_no, no_general):
    """<Phi| de-excitations x (one-/two-body operators, bare or normal
    ordered) x excitations |Phi> with mostly distinct indices"""
    used = {"occ": 0, "virt": 0, "general": 0}

    def new(space):
        k = used[space]
        if rng.random() < 0.15 and k > 0:
            return pool[space][rng.randrange(k)]
        used[space] = min(k + 1, len(pool[space]) - 1)
        return pool[space][k]
    groups = []
    budget = max(2, n_ops)
    n_bra = rng.choice([0, 1, 1, 2]) if budget >= 4 else rng.choice([0, 1])
    n_ket = rng.choice([0, 1, 1, 2]) if budget >= 4 else rng.choice([0, 1])
    if no_general and rng.random() < 0.7:
        n_ket = n_bra = max(1, min(n_bra, (budget - 2) // 4))
    for _ in range(n_bra):
        groups.append((False, [Fd(new("occ")), F(new("virt"))]))
    left = budget - 2 * (n_bra + n_ket)
    mids = []
    while left >= 2:
        rank = 2 if (left >= 4 and rng.random() < 0.4) else 1
        sp = [rng.choice(["occ", "virt", "general", "general"])
              for _ in range(2 * rank)]
        g = [Fd(new(x)) for x in sp[:rank]] + [F(new(x)) for x in sp[rank:]]
        is_no = allow_no and rng.random() < (0.8 if no_general else 0.5)
        if is_no and not no_general and "general" in sp:
            # same block with occ/virt indices instead
            sp = [x if x != "general" else rng.choice(["occ", "virt"])
                  for x in sp]
            g = [Fd(new(x)) for x in sp[:rank]] + \
                [F(new(x)) for x in sp[rank:]]
        if is_no and len({(type(o), o.args[0]) for o in g}) < len(g):
            is_no = False
        mids.append((is_no, g))
        left -= 2 * rank
    groups += mids
    for _ in range(n_ket):
        groups.append((False, [Fd(new("virt")), F(new("occ"))]))
    # no identical neighbours across bare groups
    flat = [o for _, g in groups for o in g]
    for k in range(1, len(flat)):
        if type(flat[k]) is type(flat[k - 1]) and \
                flat[k].args[0] is flat[k - 1].args[0]:
            return gen_braket_groups(rng, pool, n_ops, allow_no, no_general)
    return groups


def gen_wicks_case(rng, pool, n_ops, allow_no=True, no_general=False,
                   free_general=False, label="", p_contract=0.6,
                   avoid_power=True):
    """random product.  Operator indices are either contracted with a tensor
    or free; free general indices only if `free_general`; general indices
    inside NO groups only if `no_general`."""
    if rng.random() < 0.55 or (no_general and rng.random() < 0.8):
        groups = gen_braket_groups(rng, pool, n_ops, allow_no, no_general)
    else:
        ops = gen_string(rng, n_ops, pool,
                         style=rng.choice(["pairs", "pairs", "shuffled",
                                           "random", "allgen", "ov"]))
        # the same operator twice in a row is a_x a_x = 0 (sympy stores it as
        # a power): mostly avoided, it makes the whole product vanish
        for k in range(1, len(ops)):
            if avoid_power and type(ops[k]) is type(ops[k - 1]) and \
                    ops[k].args[0] is ops[k - 1].args[0]:
                ops[k] = (F if isinstance(ops[k], Fd) else Fd)(ops[k].args[0])
        # split into groups
        groups, k = [], 0
        while k < len(ops):
            m = rng.randint(1, max(1, min(4, len(ops) - k)))
            seg = ops[k:k + m]
            is_no = allow_no and rng.random() < 0.35 and len(seg) >= 2
            if is_no and not no_general and any(
                    o.args[0].space == "general" for o in seg):
                is_no = False
            if is_no and len({(type(o), o.args[0]) for o in seg}) < len(seg):
                is_no = False   # NO(a_x a_x) is 0 in sympy: keep it simple
            groups.append((is_no, seg))
            k += m
    ops = [o for _, g in groups for o in g]
    # contracted vs free indices
    distinct = []
    for o in ops:
        if o.args[0] not in distinct:
            distinct.append(o.args[0])
    contracted, free = [], []
    counts = {ix: sum(1 for o in ops if o.args[0] is ix) for ix in distinct}
    for ix in distinct:
        if counts[ix] > 1:
            # repeated on operators: by the summation convention it is
            # contracted; it must also sit on a tensor
            contracted.append(ix)
        elif ix.space == "general" and not free_general:
            contracted.append(ix)
        elif rng.random() < p_contract:
            contracted.append(ix)
        else:
            free.append(ix)
    # tensors carrying the contracted indices
    tensors = []
    todo = list(contracted)
    rng.shuffle(todo)
    names = ["f", "V", "t1", "d", "n"]
    while todo:
        m = rng.choice([1, 2, 2, 3, 4])
        grp, todo = todo[:m], todo[m:]
        nm = rng.choice(names)
        if nm == "n" or len(grp) == 3:
            tensors.append(NonSymmetricTensor(rng.choice(["n", "m"]),
                                              tuple(grp)))
        elif len(grp) == 1:
            # second index: a free index of its own (becomes a target)
            tensors.append(NonSymmetricTensor("x", tuple(grp)))
        elif len(grp) == 2:
            tensors.append(AntiSymmetricTensor(
                rng.choice(["f", "d"]), (grp[0],), (grp[1],),
                rng.choice([0, 1])))
        else:
            if grp[0] is grp[1] or grp[2] is grp[3]:
                tensors.append(NonSymmetricTensor("m", tuple(grp)))
            else:
                tensors.append(AntiSymmetricTensor(
                    "V", (grp[0], grp[1]), (grp[2], grp[3]),
                    rng.choice([0, 1])))
    # a delta between two contracted indices in the commuting part
    if len(contracted) >= 2 and rng.random() < 0.2:
        x, y = rng.sample(contracted, 2)
        if x.space == y.space or "general" in (x.space, y.space):
            tensors.append(KroneckerDelta(x, y))
    coef = S(rng.choice([1, -1, 2, 3])) / rng.choice([1, 2, 4])
    return WicksCase(coef, tensors, groups, label), contracted, free
