"""Helpers of the C20 check: dense linear algebra modulo numeric.P (orthogonal
matrices over F_P by the Cayley transform), a memoising tensor model, input
specifications (JSON-able) and the tracer that records every recursion level
of adcgen.simplify.simplify_unitary.simplify_term_unitary."""
import sys
from fractions import Fraction

import numeric
from numeric import P, inv

# ----------------------------------------------------------------- F_P matrices


def mat_mul(a, b):
    n, m, k = len(a), len(b[0]), len(b)
    return [[sum(a[i][x] * b[x][j] for x in range(k)) % P for j in range(m)]
            for i in range(n)]


def mat_T(a):
    return [list(r) for r in zip(*a)]


def mat_id(n):
    return [[1 if i == j else 0 for j in range(n)] for i in range(n)]


def mat_inv(a):
    """Gauss-Jordan over F_P; returns None if singular"""
    n = len(a)
    m = [list(r) + e for r, e in zip(a, mat_id(n))]
    for c in range(n):
        piv = next((r for r in range(c, n) if m[r][c] % P), None)
        if piv is None:
            return None
        m[c], m[piv] = m[piv], m[c]
        f = inv(m[c][c])
        m[c] = [x * f % P for x in m[c]]
        for r in range(n):
            if r != c and m[r][c] % P:
                g = m[r][c]
                m[r] = [(x - g * y) % P for x, y in zip(m[r], m[c])]
    return [r[n:] for r in m]


def cayley_orthogonal(d, rng):
    """random orthogonal d x d matrix over F_P: Q = (I - A)(I + A)^-1 for a
    random skew-symmetric A; optionally multiplied by a reflection so that
    det = -1 matrices occur as well"""
    while True:
        a = [[0] * d for _ in range(d)]
        for i in range(d):
            for j in range(i + 1, d):
                x = rng.randrange(P)
                a[i][j] = x
                a[j][i] = (-x) % P
        ipa = [[(mat_id(d)[i][j] + a[i][j]) % P for j in range(d)]
               for i in range(d)]
        ima = [[(mat_id(d)[i][j] - a[i][j]) % P for j in range(d)]
               for i in range(d)]
        iv = mat_inv(ipa)
        if iv is None:
            continue
        q = mat_mul(ima, iv)
        if rng.random() < 0.5:      # reflect the first axis
            q = [[(-x) % P for x in q[0]]] + q[1:]
        assert mat_mul(mat_T(q), q) == mat_id(d)
        assert mat_mul(q, mat_T(q)) == mat_id(d)
        return q


def structured_orthogonal(d, rng, sym):
    """sym = 'none': any orthogonal matrix; 'sym': symmetric orthogonal
    O D O^T (D = diag(+-1)); 'anti': antisymmetric orthogonal O J O^T (d even)"""
    o = cayley_orthogonal(d, rng)
    if sym == "none":
        return o
    mid = [[0] * d for _ in range(d)]
    if sym == "sym":
        for i in range(d):
            mid[i][i] = rng.choice([1, P - 1])
    else:
        assert d % 2 == 0
        for i in range(0, d, 2):
            mid[i][i + 1] = 1
            mid[i + 1][i] = P - 1
    q = mat_mul(mat_mul(o, mid), mat_T(o))
    assert mat_mul(mat_T(q), q) == mat_id(d)
    return q


class OrthModel(numeric.Model):
    """tensor model whose tensor `uname` is (for every tensor class) one matrix
    that is orthogonal on the orbitals of the sort (space, spin); entries that
    involve other orbitals are arbitrary.  `sym` makes the matrix symmetric /
    antisymmetric when the carrier class declares that symmetry (bra-ket
    symmetric U^p_q, antisymmetric U^{pq}).  Values are memoised."""

    def __init__(self, seed, nocc, nvirt, uname, sort, rng, sym="none"):
        super().__init__(seed, nocc, nvirt)
        self.uname = uname
        n = len(self.orbs)
        rg = self.rng(*sort)
        sg = {"none": 0, "sym": 1, "anti": -1}[sym]
        self.umat = [[0] * n for _ in range(n)]
        for i in range(n):
            for j in range(n):
                if sg == 0:
                    self.umat[i][j] = numeric._h(seed, "Uoff", i, j)
                elif i < j:
                    v = numeric._h(seed, "Uoff", i, j)
                    self.umat[i][j] = v
                    self.umat[j][i] = sg * v % P
                elif i == j and sg == 1:
                    self.umat[i][j] = numeric._h(seed, "Uoff", i, j)
        q = structured_orthogonal(len(rg), rng, sym) if rg else []
        for a, oa in enumerate(rg):
            for b, ob in enumerate(rg):
                self.umat[oa][ob] = q[a][b]
        self.dim = len(rg)
        self._memo = {}

    def tv(self, kind, name, bks, up, lo):
        if name == self.uname:
            xy = tuple(up) + tuple(lo)
            if len(xy) == 2:
                return self.umat[xy[0]][xy[1]]
        key = (kind, name, bks, up, lo)
        v = self._memo.get(key)
        if v is None:
            v = self._memo[key] = super().tv(kind, name, bks, up, lo)
        return v


# --------------------------------------------------------------- input specs
# index spec : [name, spin]
# factor spec: ["U", carrier, [i, j, ...], exponent]   carrier in CARRIERS
#              ["T", name, [indices], exponent]        NonSymmetricTensor
#              ["D", [i, j]]                           KroneckerDelta
#              ["P", [[coef, [["T"|"U", ...], ...]], ...], exponent]   sum
#              ["Y", name]                             Symbol
#              ["R", k]                                sqrt(k)
# term spec  : {"coef": "p/q", "facs": [...]}
# case spec  : {"name": "U", "terms": [...], "targets": None | [idx...],
#               "sort": [space, spin], "kind": label,
#               "assume": None | "sym" | "antisym"}
CARRIERS = ("N", "A0", "A1", "Am1", "S0", "S1", "Sm1", "M", "AU")


def _sym(i):
    from adcgen.indices import get_symbols
    return get_symbols([i[0]], [i[1]] if i[1] else None)[0]


def build_tensor(name, carrier, idx):
    from adcgen.sympy_objects import (AntiSymmetricTensor, SymmetricTensor,
                                      Amplitude, NonSymmetricTensor)
    s = [_sym(i) for i in idx]
    if carrier == "N" or len(s) != 2:
        return NonSymmetricTensor(name, tuple(s))
    if carrier == "A0":
        return AntiSymmetricTensor(name, (s[0],), (s[1],), 0)
    if carrier == "A1":
        return AntiSymmetricTensor(name, (s[0],), (s[1],), 1)
    if carrier == "Am1":          # bra-ket antisymmetric: U^p_q = -U^q_p
        return AntiSymmetricTensor(name, (s[0],), (s[1],), -1)
    if carrier == "Sm1":
        return SymmetricTensor(name, (s[0],), (s[1],), -1)
    if carrier == "S0":
        return SymmetricTensor(name, (s[0],), (s[1],), 0)
    if carrier == "S1":
        return SymmetricTensor(name, (s[0],), (s[1],), 1)
    if carrier == "M":
        return Amplitude(name, (s[0],), (s[1],))
    if carrier == "AU":
        return AntiSymmetricTensor(name, tuple(s), tuple(), 0)
    raise ValueError(carrier)


def build_factor(f, uname):
    from sympy import Pow, Symbol, sqrt, Rational, Add, Mul
    from adcgen.sympy_objects import KroneckerDelta
    k = f[0]
    if k == "U":
        return Pow(build_tensor(uname, f[1], f[2]), f[3])
    if k == "T":
        return Pow(build_tensor(f[1], "N", f[2]), f[3])
    if k == "D":
        return KroneckerDelta(_sym(f[1][0]), _sym(f[1][1]))
    if k == "Y":
        return Symbol(f[1])
    if k == "R":
        return sqrt(f[1])
    if k == "P":
        terms = []
        for c, ts in f[1]:
            terms.append(Mul(Rational(c), *[build_factor(t, uname)
                                            for t in ts]))
        return Pow(Add(*terms), f[2])
    raise ValueError(f)


def build_expr(spec):
    """case spec -> adcgen Expr"""
    from sympy import Rational, Mul, Add
    from adcgen.expr_container import Expr
    terms = []
    for t in spec["terms"]:
        terms.append(Mul(Rational(t["coef"]),
                         *[build_factor(f, spec["name"]) for f in t["facs"]],
                         evaluate=True))
    e = Add(*terms)
    kw = {}
    # optional: bra-ket (anti)symmetry declared through the assumptions of
    # the expression instead of the tensor objects
    if spec.get("assume") == "sym":
        kw["sym_tensors"] = (spec["name"],)
    elif spec.get("assume") == "antisym":
        kw["antisym_tensors"] = (spec["name"],)
    if spec["targets"] is not None:
        kw["target_idx"] = tuple(_sym(i) for i in spec["targets"])
    return Expr(e, **kw)


# ------------------------------------------------------------------- tracer
class Trace:
    """records the tree of calls of the closure simplify_term_unitary:
    roots[k] = call made for the k-th term of the input expression; a node is
    {"sym": term.sympy, "target": term.target, "kids": [calls made from it]}"""

    def __init__(self):
        self.roots = []
        self._stack = []

    def _prof(self, frame, event, arg):
        if frame.f_code.co_name != "simplify_term_unitary":
            return
        if event == "call":
            t = frame.f_locals.get("term")
            node = {"sym": t.sympy, "target": tuple(t.target), "kids": []}
            if self._stack:
                self._stack[-1]["kids"].append(node)
            else:
                self.roots.append(node)
            self._stack.append(node)
        elif event == "return":
            if self._stack:
                self._stack.pop()

    def run(self, fn, *a, **kw):
        old = sys.getprofile()
        self._stack = []
        sys.setprofile(self._prof)
        try:
            return fn(*a, **kw)
        finally:
            sys.setprofile(old)
            self._stack = []


def preorder(node):
    out = [node]
    for k in node["kids"]:
        out += preorder(k)
    return out


def depth(node):
    return 1 + max([depth(k) for k in node["kids"]], default=0)
