#!/bin/bash
# independent re-check of the compiled development (all property modules and
# everything they depend on) with coqchk; prints the axiom summary
cd /verif/coq && coqchk -o -silent -Q . ADC $(ls Props/*.v | sed 's#Props/\(.*\)\.v#ADC.Props.\1#')
