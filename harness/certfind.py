"""Untrusted certificate finder for the Coq validator ADC.Core.Equiv.check_equiv.

For every term a canonical relabelling of its contracted indices is computed
(colour refinement + bounded brute force inside colour classes); the
relabelling is emitted as a sequence of transpositions.  Nothing here is
trusted: Coq re-checks every certificate.
"""
import itertools
from fractions import Fraction
from adcio import (PyIdx, atom_indices, term_indices, term_contracted,
                   rename_term, rename_atom)

BASE = {"occ": "ijklmno", "virt": "abcdefgh", "general": "pqrstuvw"}


def pool_names(sort, exclude, n):
    space, spin = sort
    out, num = [], 0
    while len(out) < n:
        for ch in BASE[space]:
            cand = PyIdx(space, spin, ch, num, 0)
            if cand not in exclude:
                out.append(cand)
                if len(out) == n:
                    break
        num += 1
    return out


INNER = {"KAnti": True, "KAmp": True, "KSym": True, "KNonSym": False}


def canon_tensor(a):
    _, kind, name, bks, up, lo = a
    if INNER[kind]:
        up = tuple(sorted(up, key=lambda i: i.key))
        lo = tuple(sorted(lo, key=lambda i: i.key))
        if bks in (1, -1) and len(up) == len(lo):
            ku = [i.key for i in up]
            kl = [i.key for i in lo]
            if kl < ku:
                up, lo = lo, up
    return ("T", kind, name, bks, up, lo)


def atom_sortkey(a):
    if a[0] == "T":
        return (3, a[1], a[2], a[3], len(a[4]), [i.key for i in a[4]],
                len(a[5]), [i.key for i in a[5]])
    if a[0] == "D":
        return (2, sorted([a[1].key, a[2].key]))
    if a[0] == "S":
        return (1, a[1])
    if a[0] == "R":
        return (0, a[1])
    if a[0] == "P":
        return (4, len(a[1]), [(abs(c), [atom_sortkey(t) for t in ts])
                               for c, ts in a[1]])


def canon_atom(a):
    if a[0] == "T":
        return canon_tensor(a)
    if a[0] == "D":
        i, j = sorted([a[1], a[2]], key=lambda x: x.key)
        return ("D", i, j)
    if a[0] == "P":
        terms = []
        for c, ts in a[1]:
            ts = sorted((canon_tensor(t) for t in ts), key=atom_sortkey)
            terms.append((abs(c), tuple(ts)))
        terms.sort(key=lambda ct: [atom_sortkey(t) for t in ct[1]])
        return ("P", tuple(terms))
    return a


def canon_key(term):
    facs = [(canon_atom(a), inv) for a, inv in term[1]]
    return sorted(((inv,) + (atom_sortkey(a),)) for a, inv in facs)


# ---- colour refinement --------------------------------------------------
def _occurrences(term):
    """yield (atom descriptor, inv, position class, index, group-mates,
    other-group) for every index slot"""
    occ = []
    for a, inv in term[1]:
        atoms = [a] if a[0] != "P" else [t for _, ts in a[1] for t in ts]
        tag = "" if a[0] != "P" else "P"
        for t in atoms:
            if t[0] == "T":
                _, kind, name, bks, up, lo = t
                d = (tag, "T", kind, name, bks, len(up), len(lo), inv)
                if INNER[kind]:
                    for grp, oth, gname in ((up, lo, "u"), (lo, up, "l")):
                        if bks in (1, -1) and len(up) == len(lo):
                            gname = "ul"
                        for x in grp:
                            occ.append((d, gname, x, tuple(grp), tuple(oth)))
                else:
                    for pos, x in enumerate(up):
                        occ.append((d, pos, x, tuple(up), ()))
            elif t[0] == "D":
                d = (tag, "D", inv)
                occ.append((d, 0, t[1], (t[2],), ()))
                occ.append((d, 0, t[2], (t[1],), ()))
    return occ


def refine(term, tg, rounds=4):
    idx = set(term_indices(term))
    colour = {}
    for x in idx:
        colour[x] = ("t", x.key) if x in tg else ("c", x.sort)
    occ = _occurrences(term)
    for _ in range(rounds):
        new = {}
        for x in idx:
            sig = []
            for d, pos, y, grp, oth in occ:
                if y == x:
                    sig.append((d, pos, sorted(repr(colour[g]) for g in grp),
                                sorted(repr(colour[o]) for o in oth)))
            new[x] = (colour[x], sorted(map(repr, sig)))
        # compress
        ranks = {c: n for n, c in enumerate(sorted(set(map(repr,
                                                          new.values()))))}
        colour = {x: ("r", ranks[repr(new[x])]) if x not in tg else
                  ("t", x.key) for x in idx}
    return colour


def canonical_relabel(term, tg, cap=3000):
    """returns dict contracted idx -> pool idx giving the minimal canonical
    key among the candidates explored"""
    tgs = set(tg)
    contracted = term_contracted(term, tgs)
    colour = refine(term, tgs)
    by_sort = {}
    for x in contracted:
        by_sort.setdefault(x.sort, []).append(x)
    # candidate orders: product over sorts of permutations within colour ties
    sort_orders = []
    total = 1
    for sort, xs in sorted(by_sort.items()):
        groups = {}
        for x in xs:
            groups.setdefault(repr(colour[x]), []).append(x)
        glist = [sorted(g, key=lambda i: i.key)
                 for _, g in sorted(groups.items())]
        n = 1
        for g in glist:
            for k in range(2, len(g) + 1):
                n *= k
        total *= n
        sort_orders.append((sort, glist))
    best, best_map = None, None

    def orders_for(glist, full):
        if full:
            return itertools.product(*(itertools.permutations(g)
                                       for g in glist))
        return [tuple(tuple(g) for g in glist)]

    full = total <= cap
    per_sort = []
    for sort, glist in sort_orders:
        n = sum(len(g) for g in glist)
        pool = pool_names(sort, tgs, n)
        per_sort.append((pool, list(orders_for(glist, full))))
    for combo in itertools.product(*(o for _, o in per_sort)):
        m = {}
        for (pool, _), order in zip(per_sort, combo):
            flat = [x for g in order for x in g]
            for x, p in zip(flat, pool):
                m[x] = p
        key = canon_key(rename_term(term, m))
        if best is None or key < best:
            best, best_map = key, m
    if best_map is None:
        best_map = {}
    return best_map, full


def map_to_swaps(m, universe):
    """decompose the injective renaming m (on `universe` = indices present in
    the term) into transpositions, applied left to right"""
    cur = {x: x for x in universe}
    swaps = []
    for x in universe:
        goal = m.get(x, None)
        if goal is None:
            continue
        if cur[x] == goal:
            continue
        a, b = cur[x], goal
        swaps.append((a, b))
        for y in cur:
            if cur[y] == a:
                cur[y] = b
            elif cur[y] == b:
                cur[y] = a
    return swaps


def term_cert(term, tg):
    m, full = canonical_relabel(term, tg)
    universe = []
    for i in term_indices(term):
        if i not in universe:
            universe.append(i)
    return [(Fraction(1), map_to_swaps(m, universe))], full


def expr_cert(e, tg):
    certs, allfull = [], True
    for t in e:
        c, full = term_cert(t, tg)
        certs.append(c)
        allfull = allfull and full
    return certs, allfull
