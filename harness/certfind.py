"""Untrusted certificate finder for the Coq validator ADC.Core.Equiv.check_equiv.

For every term a canonical relabelling of its contracted indices is computed
(colour refinement + bounded brute force inside colour classes); the
relabelling is emitted as a sequence of transpositions.  Nothing here is
trusted: Coq re-checks every certificate.
"""
import itertools
from fractions import Fraction
from adcio import (PyIdx, atom_indices, term_indices, term_contracted,
                   rename_term, rename_atom)

BASE = {"occ": "ijklmno", "virt": "abcdefgh", "general": "pqrstuvw"}


def pool_names(sort, exclude, n):
    space, spin = sort
    out, num = [], 0
    while len(out) < n:
        for ch in BASE[space]:
            cand = PyIdx(space, spin, ch, num, 0)
            if cand not in exclude:
                out.append(cand)
                if len(out) == n:
                    break
        num += 1
    return out


INNER = {"KAnti": True, "KAmp": True, "KSym": True, "KNonSym": False}


ANTI = {"KAnti": True, "KAmp": True, "KSym": False, "KNonSym": False}


def _sort_par(seq):
    seq = list(seq)
    par = 0
    for i in range(len(seq)):
        for j in range(len(seq) - 1 - i):
            if seq[j].key > seq[j + 1].key:
                seq[j], seq[j + 1] = seq[j + 1], seq[j]
                par ^= 1
    return tuple(seq), par


def canon_tensor_sign(a):
    """(canonical tensor, sign) mirroring ADC.Core.Canon.canon_tens"""
    _, kind, name, bks, up, lo = a
    sign = 1
    if INNER[kind]:
        up, p1 = _sort_par(up)
        lo, p2 = _sort_par(lo)
        if ANTI[kind] and (p1 ^ p2):
            sign = -1
        if bks in (1, -1) and len(up) == len(lo):
            ku = [x for i in up for x in i.key]
            kl = [x for i in lo for x in i.key]
            if kl < ku:
                up, lo = lo, up
                if bks == -1:
                    sign = -sign
    return ("T", kind, name, bks, tuple(up), tuple(lo)), sign


def canon_tensor(a):
    return canon_tensor_sign(a)[0]


def atom_sortkey(a):
    if a[0] == "T":
        return (3, a[1], a[2], a[3], len(a[4]), [i.key for i in a[4]],
                len(a[5]), [i.key for i in a[5]])
    if a[0] == "D":
        return (2, sorted([a[1].key, a[2].key]))
    if a[0] == "S":
        return (1, a[1])
    if a[0] == "R":
        return (0, a[1])
    if a[0] == "P":
        return (4, len(a[1]), [(abs(c), [atom_sortkey(t) for t in ts])
                               for c, ts in a[1]])


def canon_atom_sign(a):
    if a[0] == "T":
        return canon_tensor_sign(a)
    if a[0] == "D":
        i, j = sorted([a[1], a[2]], key=lambda x: x.key)
        return ("D", i, j), 1
    if a[0] == "P":
        terms = []
        for c, ts in a[1]:
            sg = 1
            cts = []
            for t in ts:
                ct, s1 = canon_tensor_sign(t)
                sg *= s1
                cts.append(ct)
            cts.sort(key=atom_sortkey)
            terms.append((c * sg, tuple(cts)))
        terms.sort(key=lambda ct: [atom_sortkey(t) for t in ct[1]])
        sign = 1
        if terms and terms[0][0] < 0:
            sign = -1
            terms = [(-c, ts) for c, ts in terms]
        return ("P", tuple(terms)), sign
    return a, 1


def canon_atom(a):
    return canon_atom_sign(a)[0]


def _poly_key(a):
    return (4, len(a[1]), [(c, [atom_sortkey(t) for t in ts])
                           for c, ts in a[1]])


def canon_key_sign(term):
    sign = 1
    keys = []
    for a, inv in term[1]:
        ca, s1 = canon_atom_sign(a)
        sign *= s1
        keys.append((inv, _poly_key(ca) if ca[0] == "P" else atom_sortkey(ca)))
    return sorted(keys), sign


def canon_key(term):
    return canon_key_sign(term)[0]


# ---- colour refinement --------------------------------------------------
def _occurrences(term, en=None):
    """yield (atom descriptor, inv, position class, index, group-mates,
    other-group) for every index slot"""
    occ = []
    for a, inv in term[1]:
        if en is not None and is_frac_factor(a, en):
            continue
        atoms = [a] if a[0] != "P" else [t for _, ts in a[1] for t in ts]
        tag = "" if a[0] != "P" else "P"
        for t in atoms:
            if t[0] == "T":
                _, kind, name, bks, up, lo = t
                d = (tag, "T", kind, name, bks, len(up), len(lo), inv)
                if INNER[kind]:
                    for grp, oth, gname in ((up, lo, "u"), (lo, up, "l")):
                        if bks in (1, -1) and len(up) == len(lo):
                            gname = "ul"
                        for x in grp:
                            occ.append((d, gname, x, tuple(grp), tuple(oth)))
                else:
                    for pos, x in enumerate(up):
                        occ.append((d, pos, x, tuple(up), ()))
            elif t[0] == "D":
                d = (tag, "D", inv)
                occ.append((d, 0, t[1], (t[2],), ()))
                occ.append((d, 0, t[2], (t[1],), ()))
    return occ


def refine(term, tg, rounds=4, en=None):
    idx = set(term_indices(term))
    colour = {}
    for x in idx:
        colour[x] = ("t", x.key) if x in tg else ("c", x.sort)
    occ = _occurrences(term, en)
    for _ in range(rounds):
        new = {}
        for x in idx:
            sig = []
            for d, pos, y, grp, oth in occ:
                if y == x:
                    sig.append((d, pos, sorted(repr(colour[g]) for g in grp),
                                sorted(repr(colour[o]) for o in oth)))
            new[x] = (colour[x], sorted(map(repr, sig)))
        # compress
        ranks = {c: n for n, c in enumerate(sorted(set(map(repr,
                                                          new.values()))))}
        colour = {x: ("r", ranks[repr(new[x])]) if x not in tg else
                  ("t", x.key) for x in idx}
    return colour


def is_eps_atom(a, en):
    return (a[0] == "T" and a[1] == "KNonSym" and a[2] == en and
            len(a[4]) == 1 and not a[5] and a[3] == 0)


def is_frac_factor(a, en):
    if is_eps_atom(a, en):
        return True
    return a[0] == "P" and all(is_eps_atom(t, en) for _, ts in a[1]
                               for t in ts)


def remainder_of(term, en):
    return (term[0], [(a, inv) for a, inv in term[1]
                      if not is_frac_factor(a, en)])


def canonical_relabel(term, tg, cap=3000, en=None, collect=False):
    """returns dict contracted idx -> pool idx giving the minimal canonical
    key among the candidates explored"""
    tgs = set(tg)
    contracted = term_contracted(term, tgs)
    colour = refine(term, tgs, en=en)
    by_sort = {}
    for x in contracted:
        by_sort.setdefault(x.sort, []).append(x)
    # candidate orders: product over sorts of permutations within colour ties
    sort_orders = []
    total = 1
    for sort, xs in sorted(by_sort.items()):
        groups = {}
        for x in xs:
            groups.setdefault(repr(colour[x]), []).append(x)
        glist = [sorted(g, key=lambda i: i.key)
                 for _, g in sorted(groups.items())]
        n = 1
        for g in glist:
            for k in range(2, len(g) + 1):
                n *= k
        total *= n
        sort_orders.append((sort, glist))
    best, best_map = None, None

    def orders_for(glist, full):
        if full:
            return itertools.product(*(itertools.permutations(g)
                                       for g in glist))
        return [tuple(tuple(g) for g in glist)]

    full = total <= cap
    per_sort = []
    for sort, glist in sort_orders:
        n = sum(len(g) for g in glist)
        pool = pool_names(sort, tgs, n)
        per_sort.append((pool, list(orders_for(glist, full))))
    best_sign, other = 1, None
    allbest = []
    for combo in itertools.product(*(o for _, o in per_sort)):
        m = {}
        for (pool, _), order in zip(per_sort, combo):
            flat = [x for g in order for x in g]
            for x, p in zip(flat, pool):
                m[x] = p
        renamed = rename_term(term, m)
        if en is not None:
            renamed = remainder_of(renamed, en)
        key, sg = canon_key_sign(renamed)
        if best is None or key < best:
            best, best_map, best_sign, other = key, m, sg, None
            allbest = [m]
        elif key == best:
            if len(allbest) < 64:
                allbest.append(m)
            if sg != best_sign and other is None:
                other = m  # same canonical monomial with the opposite sign
    if best_map is None:
        best_map = {}
    if collect:
        return best_map, full, allbest
    return best_map, full, other


def map_to_swaps(m, universe):
    """decompose the injective renaming m (on `universe` = indices present in
    the term) into transpositions, applied left to right"""
    cur = {x: x for x in universe}
    swaps = []
    for x in universe:
        goal = m.get(x, None)
        if goal is None:
            continue
        if cur[x] == goal:
            continue
        a, b = cur[x], goal
        swaps.append((a, b))
        for y in cur:
            if cur[y] == a:
                cur[y] = b
            elif cur[y] == b:
                cur[y] = a
    return swaps


def py_elim(term, x, y):
    """mirror of ADC.Core.DeltaRule.elim_delta on pyterms (no checks)"""
    c, facs = term
    out, removed = [], False
    for a, inv in facs:
        if not removed and a[0] == "D" and not inv and \
                {a[1], a[2]} == {x, y} and a[1] != a[2]:
            removed = True
            continue
        out.append((a, inv))
    out = [(rename_atom(a, {x: y}), inv) for a, inv in out]
    out = [(a, inv) for a, inv in out
           if not (a[0] == "D" and not inv and a[1] == a[2])]
    return (c, out)


def find_delta_elims(term, tg):
    """greedy list of delta eliminations (x contracted, replaced by y)"""
    tgs = set(tg)
    elims = []
    progress = True
    while progress:
        progress = False
        for a, inv in term[1]:
            if a[0] != "D" or inv or a[1] == a[2] or a[1].sort != a[2].sort:
                continue
            for x, y in ((a[1], a[2]), (a[2], a[1])):
                if x in tgs:
                    continue
                new = py_elim(term, x, y)
                con_old = set(term_contracted(term, tgs))
                con_new = set(term_contracted(new, tgs))
                if con_new == con_old - {x} and (y in tgs or y in con_old):
                    elims.append((x, y))
                    term = new
                    progress = True
                    break
            if progress:
                break
    return elims, term


def term_cert(term, tg, deltas=False, en=None, mode=None):
    """mode: 'identity' (no renaming), 'canon' (canonical relabelling of the
    whole term, detects self-cancelling terms), 'aut' (fraction mode: average
    over the relabellings that canonicalise the remainder).  Default: 'aut'
    when en is given, else 'canon'."""
    if mode is None:
        mode = "aut" if en is not None else "canon"
    elims = []
    if deltas:
        elims, term = find_delta_elims(term, tg)
    universe = []
    for i in term_indices(term):
        if i not in universe:
            universe.append(i)
    full = True
    if mode == "identity":
        ws = []
    elif mode == "aut":
        m, full, allbest = canonical_relabel(term, tg, en=en, collect=True)
        if len(allbest) > 16:
            allbest = [m]
        w = Fraction(1, len(allbest))
        ws = [(w, map_to_swaps(mm, universe)) for mm in allbest]
    else:
        m, full, other = canonical_relabel(term, tg)
        if other is not None:
            ws = [(Fraction(1, 2), map_to_swaps(m, universe)),
                  (Fraction(1, 2), map_to_swaps(other, universe))]
        else:
            ws = [(Fraction(1), map_to_swaps(m, universe))]
    if deltas:
        return (elims, ws), full
    return ws, full


def eps_vars(exprs, en):
    out = []
    for e in exprs:
        for t in e:
            for a, inv in t[1]:
                atoms = [a] if a[0] == "T" else \
                    [x for _, ts in a[1] for x in ts] if a[0] == "P" else []
                for x in atoms:
                    if is_eps_atom(x, en) and x[4][0] not in out:
                        out.append(x[4][0])
    return out


def expr_cert(e, tg, deltas=False, en=None, mode=None):
    certs, allfull = [], True
    for t in e:
        c, full = term_cert(t, tg, deltas, en, mode)
        certs.append(c)
        allfull = allfull and full
    return certs, allfull


# ---- stabiliser-generated averaging (fraction mode, last resort) -----------
def _full_key(term):
    key, sg = canon_key_sign(term)
    return repr(key), term[0] * sg


def pair_cert_stab(e1, e2, tg, en, cap=48):
    """certificates for both sides of a fraction pair: every term is averaged
    over the subgroup of automorphisms of its denominator-free remainder that
    is generated by the stabilisers (as whole terms, fractions included) of
    all terms of both sides with the same canonical remainder.  An operation
    that symmetrises a term over such a subgroup (permute_num, symmetric
    grouping) is then matched without averaging over the whole automorphism
    group."""
    info, gens = [], {}
    for side, e in ((0, e1), (1, e2)):
        for t in e:
            elims, term = find_delta_elims(t, tg)
            universe = []
            for i in term_indices(term):
                if i not in universe:
                    universe.append(i)
            m0, full, allbest = canonical_relabel(term, tg, en=en,
                                                  collect=True)
            t0 = rename_term(term, m0)
            K = repr(canon_key(remainder_of(t0, en)))
            ok = full and 0 < len(allbest) < 64
            stab = []
            if ok:
                k0 = _full_key(t0)
                for m in allbest:
                    if _full_key(rename_term(term, m)) == k0:
                        stab.append(tuple(sorted(
                            ((m0[x], m[x]) for x in m0),
                            key=lambda ab: ab[0].key)))
            gens.setdefault(K, [])
            for g in stab:
                if g not in gens[K]:
                    gens[K].append(g)
            info.append((side, elims, term, universe, m0, K, ok))
    groups = {}
    for K, gs in gens.items():
        elems = {g: dict(g) for g in gs}
        frontier = list(elems.values())
        while frontier and len(elems) <= cap:
            new = []
            for a in frontier:
                for g in gs:
                    gd = dict(g)
                    c = {x: gd.get(a[x], a[x]) for x in a}
                    key = tuple(sorted(c.items(), key=lambda ab: ab[0].key))
                    if key not in elems:
                        elems[key] = c
                        new.append(c)
            frontier = new
        groups[K] = list(elems.values()) if len(elems) <= cap else []
    out = ([], [])
    for side, elims, term, universe, m0, K, ok in info:
        maps, seen = [], set()
        if ok:
            for pi in groups.get(K, []):
                m = {x: pi.get(m0[x], m0[x]) for x in m0}
                k = _full_key(rename_term(term, m))
                if k not in seen:
                    seen.add(k)
                    maps.append(m)
        if not maps:
            maps = [m0]
        w = Fraction(1, len(maps))
        out[side].append((elims, [(w, map_to_swaps(m, universe))
                                  for m in maps]))
    return out
