"""Explicit construction of the intermediate state representation in
determinant space, order by order in the perturbation parameter (truncated
power series over the prime field): normalised perturbed ground state,
excitation operators, Gram-Schmidt against the ground state (pp) and the
lower excitation classes, symmetric orthonormalisation S^{-1/2}, matrix
elements of the shifted Hamiltonian / of arbitrary operators.  Independent of
adcgen; used by C03, C04, C05."""
import itertools
from detspace import Vec, apply_string, series_mul, series_inv
from numeric import P, inv


def sv_zero(order):
    return [Vec() for _ in range(order + 1)]


def sv_scale(ser, sv, order):
    """power series of scalars times power series of vectors"""
    out = sv_zero(order)
    for i, c in enumerate(ser):
        if not c:
            continue
        for j, v in enumerate(sv):
            if i + j <= order and v:
                out[i + j] = out[i + j].plus(v, c)
    return out


def sv_add(a, b, c=1):
    return [x.plus(y, c) for x, y in zip(a, b)]


def sv_dot(a, b, order):
    out = [0] * (order + 1)
    for i, x in enumerate(a):
        for j, y in enumerate(b):
            if i + j <= order:
                out[i + j] = (out[i + j] + x.dot(y)) % P
    return out


def series_pow_half_inv(s, order):
    """s^{-1/2} for s[0] = 1"""
    x = list(s) + [0] * (order + 1 - len(s))
    x[0] = (x[0] - 1) % P
    out = [1] + [0] * order
    term = [1] + [0] * order
    coef = 1
    for k in range(1, order + 1):
        # binom(-1/2, k) = binom(-1/2, k-1) * (-1/2 - (k-1)) / k
        coef = coef * ((-inv(2) - (k - 1)) % P) % P * inv(k) % P
        term = series_mul(term, x, order)
        out = [(o + coef * t) % P for o, t in zip(out, term)]
    return out


CLASSES = {
    "pp": [("ph", 1, 1), ("pphh", 2, 2), ("ppphhh", 3, 3)],
    "ip": [("h", 1, 0), ("hhp", 2, 1), ("hhhpp", 3, 2)],
    "ea": [("p", 0, 1), ("pph", 1, 2), ("ppphh", 2, 3)],
    "dip": [("hh", 2, 0), ("hhhp", 3, 1)],
    "dea": [("pp", 0, 2), ("ppph", 1, 3)],
}


class ISR:
    def __init__(self, space, psi, E, variant, order, n_classes=2):
        """space: detspace.Space after rspt(); psi, E: RSPT results"""
        self.sp, self.order, self.variant = space, order, variant
        N = order
        raw = [psi[n] if n < len(psi) else Vec() for n in range(N + 1)]
        norm = sv_dot(raw, raw, N)
        self.norm = norm
        self.gs = sv_scale(series_pow_half_inv(norm, N), raw, N)
        self.E = [E[n] if n < len(E) else 0 for n in range(N + 1)]
        self.classes = {}
        self.configs = {}
        lower = []
        for name, n_o, n_v in CLASSES[variant][:n_classes]:
            if n_o > space.nocc or n_v > space.nvirt:
                break
            cfgs = [(o, v) for o in itertools.combinations(space.occ, n_o)
                    for v in itertools.combinations(space.virt, n_v)]
            pre = []
            for o, v in cfgs:
                st = self.apply_op(self.op_string(o, v), self.gs)
                if variant == "pp":
                    ov = sv_dot(self.gs, st, N)
                    st = sv_add(st, sv_scale(ov, self.gs, N), -1)
                for lname in lower:
                    for K in self.classes[lname]:
                        ov = sv_dot(K, st, N)
                        st = sv_add(st, sv_scale(ov, K, N), -1)
                pre.append(st)
            m = len(cfgs)
            # overlap matrix series S[n][I][J]
            S = [[[0] * m for _ in range(m)] for _ in range(N + 1)]
            for a in range(m):
                for b in range(a, m):
                    ser = sv_dot(pre[a], pre[b], N)
                    for n in range(N + 1):
                        S[n][a][b] = S[n][b][a] = ser[n]
            self.precursor_overlap = getattr(self, "precursor_overlap", {})
            self.precursor_overlap[name] = S
            R = self.mat_inv_sqrt(S, m, N)
            states = []
            for b in range(m):
                st = sv_zero(N)
                for a in range(m):
                    ser = [R[n][a][b] for n in range(N + 1)]
                    if any(ser):
                        st = sv_add(st, sv_scale(ser, pre[a], N))
                states.append(st)
            self.classes[name] = states
            self.configs[name] = cfgs
            lower.append(name)

    def op_string(self, occ, virt):
        """C_I = a+_a a+_b ... a_i a_j ... (annihilators not reversed)"""
        return [(True, a) for a in virt] + [(False, i) for i in occ]

    def apply_op(self, ops, sv):
        out = []
        for v in sv:
            w = Vec()
            for det, c in v.items():
                r = apply_string(ops, det)
                if r is not None:
                    w.add(r[1], c * r[0])
            out.append(w)
        return out

    @staticmethod
    def mat_inv_sqrt(S, m, N):
        """(1 + X)^{-1/2} as matrix power series, X = S - 1"""
        ident = [[1 if a == b else 0 for b in range(m)] for a in range(m)]
        X = [[[(S[n][a][b] - (ident[a][b] if n == 0 else 0)) % P
               for b in range(m)] for a in range(m)] for n in range(N + 1)]

        def mmul(A, B):
            out = [[[0] * m for _ in range(m)] for _ in range(N + 1)]
            for i in range(N + 1):
                if not any(any(r) for r in A[i]):
                    continue
                for j in range(N + 1 - i):
                    if not any(any(r) for r in B[j]):
                        continue
                    for a in range(m):
                        Aa = A[i][a]
                        for c in range(m):
                            x = Aa[c]
                            if not x:
                                continue
                            Bc = B[j][c]
                            row = out[i + j][a]
                            for b in range(m):
                                if Bc[b]:
                                    row[b] = (row[b] + x * Bc[b]) % P
            return out
        R = [[[ident[a][b] if n == 0 else 0 for b in range(m)]
              for a in range(m)] for n in range(N + 1)]
        term = [[[ident[a][b] if n == 0 else 0 for b in range(m)]
                 for a in range(m)] for n in range(N + 1)]
        coef = 1
        for k in range(1, N + 1):
            coef = coef * ((-inv(2) - (k - 1)) % P) % P * inv(k) % P
            term = mmul(term, X)
            for n in range(N + 1):
                for a in range(m):
                    for b in range(m):
                        if term[n][a][b]:
                            R[n][a][b] = (R[n][a][b]
                                          + coef * term[n][a][b]) % P
        return R

    # ---- matrix elements ------------------------------------------------
    def index_of(self, cls, occ, virt):
        """(sign, position) of a configuration given in any index order"""
        from numeric import sort_parity
        o, p1, r1 = sort_parity(occ)
        v, p2, r2 = sort_parity(virt)
        if r1 or r2:
            return 0, None
        return (-1 if p1 ^ p2 else 1), self.configs[cls].index((o, v))

    def h_apply(self, sv, subtract_gs=True):
        """(H0 + l*H1 - E(l)) applied to a vector series"""
        N = self.order
        out = sv_zero(N)
        for n, v in enumerate(sv):
            if not v:
                continue
            out[n] = out[n].plus(self.sp.H0(v))
            if n + 1 <= N:
                out[n + 1] = out[n + 1].plus(self.sp.H1(v))
        if subtract_gs:
            out = sv_add(out, sv_scale(self.E, sv, N), -1)
        return out

    def secular(self, cls_bra, I, cls_ket, J, subtract_gs=True):
        """series of <I| H - E0 |J>"""
        bra = self.classes[cls_bra][I]
        ket = self.h_apply(self.classes[cls_ket][J], subtract_gs)
        return sv_dot(bra, ket, self.order)

    def overlap(self, cls_bra, I, cls_ket, J):
        return sv_dot(self.classes[cls_bra][I], self.classes[cls_ket][J],
                      self.order)

    def op_matrix(self, opfun, cls_bra, I, cls_ket, J):
        """series of <I| O |J> for a lambda-independent operator"""
        ket = [opfun(v) if v else Vec() for v in self.classes[cls_ket][J]]
        return sv_dot(self.classes[cls_bra][I], ket, self.order)

    def op_gs(self, opfun):
        """series of <Psi0| O |Psi0> (normalised ground state)"""
        ket = [opfun(v) if v else Vec() for v in self.gs]
        return sv_dot(self.gs, ket, self.order)

    def trans_moment(self, opfun, cls, I):
        """series of <I| O |Psi0>"""
        ket = [opfun(v) if v else Vec() for v in self.gs]
        return sv_dot(self.classes[cls][I], ket, self.order)


def ortho_cert_term(X, order):
    """Coq term `ortho_ok P N states` (ADC.Models.RSPTCheck) for all states
    of all classes of the explicit construction X"""
    states = [st for nm in X.classes for st in X.classes[nm]]
    alld = sorted({d for st in states for v in st for d in v})
    txt = "[" + "; ".join(
        "[" + "; ".join(
            "[" + "; ".join(str(st[n].get(d, 0) % P)
                            for n in range(order + 1)) + "]"
            for d in alld) + "]" for st in states) + "]"
    return f"ortho_ok {P} {order} {txt}", len(states)


def certify_ortho(ctx, prop, space, psi, E, variants, order):
    import detspace
    cases, meta = [], []
    for variant in variants:
        X = ISR(space, psi, E, variant, order, n_classes=2)
        term, n = ortho_cert_term(X, order)
        cases.append(term)
        meta.append((variant, n))
    vals, errs = ctx.coq_eval("ortho", cases, header=detspace.RSPT_HEADER,
                              shard=1)
    for (variant, nst), v in zip(meta, vals):
        ctx.case(key=("ortho-certificate", variant, space.seed),
                 nontrivial=True, kind="ortho-certificate")
        if not ctx.obligation(f"explicit {variant} intermediate states "
                              f"({nst} states, model {space.seed}) accepted "
                              f"by ortho_ok through order {order}",
                              v == "true", str(v)):
            ctx.violation(f"{prop}:explicit-engine-coq:{variant}",
                          "the explicit intermediate states are rejected by "
                          "the verified orthonormality checker",
                          {"variant": variant, "seed": space.seed}, False)
