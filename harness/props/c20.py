"""C20 - Unitary-tensor simplification preserves the value for orthogonal
tensors (adcgen/simplify.py: simplify_unitary).

Per case: the implementation is run under a tracer that records every
recursion level of the closure simplify_term_unitary; every level is compared
exactly (modulo factor order) with the Gallina function
ADC.Models.Unitary.unitary_pass evaluated by vm_compute, the final result must
be reachable in the rewriting relation, and - where it is reachable through
steps of the executable pass on well-formed terms (check_tree) - theorem
C20_check_tree_sound gives value preservation for all orthogonal models.  All
cases are additionally evaluated on random orthogonal matrices over F_P
(Cayley transform) to find concrete failing inputs."""
import itertools
import json
import sys
from fractions import Fraction

from sympy import Add, S

import adcio
import numeric
import c20_util as U

LEVEL = "proof"
EXHAUSTIVE = False
RULE = ("(1) exhaustive: all products U_ab U_cd with a,b,c,d in {p,q,r} under "
        "Einstein and all 8 provided target sets, plus variants with a third "
        "object / denominator carrying one index, plus the same products "
        "carried by bra-ket symmetric and bra-ket antisymmetric tensors; (2) structured random "
        "products of 2-6 unitary factors (first/second position pairs, chains, "
        "squares and higher powers, NonSymmetric/AntiSymmetric/Symmetric/"
        "Amplitude carriers with bra-ket symmetry 0, +1, -1 (also declared "
        "through sym_tensors / antisym_tensors), remainder tensors, inverse tensors, polynomial "
        "factors and denominators, deltas, symbols, sqrt prefactors, provided "
        "and Einstein targets, 1-3 terms, occ/virt/general/spin sorts); "
        "(2b) deterministic + random products of two or three resolvable pairs "
        "whose deltas share a contracted index that also sits on a remainder "
        "tensor (provided and Einstein targets; exercises the recursion of "
        "the follow-up delta evaluation); (3) malformed: 3-index tensor with the unitary name, indices of "
        "different spaces/spins, negative powers of the unitary tensor.  A "
        "case is non-trivial if the implementation performs at least one "
        "replacement or refuses a pair that shares an index; distinct = "
        "distinct (input text, targets).  Generated inputs are well-formed "
        "(props/c20.py well_formed): addends of a sum factor carry the same "
        "free indices, Einstein targets of all expanded terms coincide, no "
        "non-target index more than twice in an expanded sum; ill-formed "
        "draws are regenerated and counted.")
TRUSTED = ["tracer harness/c20_util.Trace (sys.setprofile) reads the argument "
           "of every call of the closure simplify_term_unitary",
           "numeric evaluator harness/numeric.py + Cayley orthogonal matrices "
           "(used for failing-input search and as a cross-check of the model, "
           "not in place of the theorems)"]
ASSUMPTIONS = [
    "the tensor called t_name is, for every tensor class that carries it, one "
    "matrix that is orthogonal on the range of the sort (space, spin) of its "
    "indices (ADC.Models.UnitaryProofs.orthogonal)",
    "the values of the target indices lie in the ranges of their sorts",
    "value = Core/Expr.v eval_term with the targets of the *input* (provided, "
    "or Einstein targets of the input term); the Einstein targets that the "
    "output would re-derive are compared separately and reported as notes",
    "sum factors are homogeneous (every summand carries all non-target "
    "indices of the sum); inputs in which simplify_unitary multiplies out a "
    "heterogeneous sum are compared with the model but not value-checked "
    "(Expr.expand() changes their value in the same way)",
    "delta evaluation itself (func.evaluate_deltas) is the subject of C09; "
    "results on which it removes a delta whose indices are contracted and on "
    "no other object (outside C09's coverage hypothesis) change the value: "
    "open known finding C20:evaluate-deltas-isolated-delta, reported per case "
    "after checking that lost sums explain the change exactly; "
    "here only its composition with simplify_unitary (which targets it is "
    "given) and the value of the composed result are checked per run",
]

KEY_SQUARE = "C20:square-of-unitary:U_pq**2"
KEY_DELTAS = "C20:evaluate-deltas-ignores-provided-targets:U_pq*U_pr*T_q[q,r]"
KEY_SUM = "C20:sum-remainder-truncated:U_pq**2*(e_q+e_s)[q,s]"
KEY_ISOLATED = ("C20:evaluate-deltas-isolated-delta:created delta connects two "
                "contracted indices occurring nowhere else")

SPACE_OF = {"o": "occ", "v": "virt", "g": "general"}
COQ_SPACE = {"occ": "Occ", "virt": "Virt", "general": "Gen"}
COQ_SPIN = {"": "NoSpin", "a": "Alpha", "b": "Beta"}
LETTERS = {"occ": "ijklmno", "virt": "abcdefgh", "general": "pqrstuvw"}

HEADER = """From Coq Require Import ZArith QArith List String.
From ADC Require Import Core.Scalar Core.Index Core.Expr Models.Unitary.
Import ListNotations. Open Scope string_scope.
"""


def simplify_unitary():
    import adcgen.simplify
    return sys.modules["adcgen.simplify"].simplify_unitary


# ------------------------------------------------------------------ generators
def exhaustive_specs(full):
    """all U_ab U_cd over {p,q,r} x target options (x third objects)"""
    names = ["p", "q", "r"]
    idx = [[n, ""] for n in names]
    tg_opts = [None] + [list(c) for k in range(4)
                        for c in itertools.combinations(idx, k)]
    thirds = [None]
    if full:
        thirds += [["T", "T", [i], 1] for i in idx] + \
                  [["T", "T", [i], -1] for i in idx]
    out = []
    for a, b, c, d in itertools.product(idx, repeat=4):
        for tg in tg_opts:
            for th in thirds:
                facs = [["U", "N", [a, b], 1], ["U", "N", [c, d], 1]]
                if th is not None:
                    facs.append(th)
                out.append({"name": "U", "targets": tg,
                            "sort": ["general", ""], "kind": "exh2",
                            "terms": [{"coef": "1", "facs": facs}]})
    return out


def exhaustive_braket_specs(full):
    """all U_ab U_cd over {p,q,r} carried by bra-ket symmetric / antisymmetric
    tensors (canonical form swaps the indices, with a sign for bks = -1)"""
    idx = [[n, ""] for n in "pqr"]
    tg_opts = [None, [], [idx[0]], [idx[1], idx[2]]]
    if full:
        tg_opts = [None] + [list(c) for k in range(4)
                            for c in itertools.combinations(idx, k)]
    out = []
    for carrier in ("A1", "Am1"):
        for a, b, c, d in itertools.product(idx, repeat=4):
            for tg in tg_opts:
                out.append({"name": "U", "targets": tg,
                            "sort": ["general", ""], "kind": "exhbk:" + carrier,
                            "terms": [{"coef": "1", "facs": [
                                ["U", carrier, [a, b], 1],
                                ["U", carrier, [c, d], 1]]}]})
    return out


def shared_delta_specs(rng, n_random):
    """two or three resolvable pairs whose deltas share one contracted index
    that also sits on a remainder tensor: U_as U_ar U_bs U_bt X_s -> delta_sr
    delta_st X_s; with evaluate_deltas=True the follow-up evaluation has to
    carry the targets (r, t) through its recursion.  Deterministic part: both
    pair positions, shared index canonically before / between / after the
    targets, X_s / X_ss / X_s Y_s, provided and Einstein targets; plus random
    variants (carrier, prefactor, extra factors)."""
    def pair(pos, a, x, y, carrier="N"):
        if pos == 0:
            return [["U", carrier, [a, x], 1], ["U", carrier, [a, y], 1]]
        return [["U", carrier, [x, a], 1], ["U", carrier, [y, a], 1]]

    def rem(kind, sh):
        if kind == 0:
            return [["T", "X", [sh], 1]]
        if kind == 1:
            return [["T", "X", [sh, sh], 1]]
        return [["T", "X", [sh], 1], ["T", "Y", [sh], 1]]

    out = []
    # (shared, targets...) ; contracted pair indices u, v, w
    orders = [("p", ["r", "t", "s"]), ("r", ["p", "t", "s"]),
              ("t", ["p", "r", "s"])]
    for shn, tgn in orders:
        sh = [shn, ""]
        for npairs in (2, 3):
            tg = [[x, ""] for x in tgn[:npairs]]
            inner = [[x, ""] for x in "uvw"[:npairs]]
            for pos in itertools.product((0, 1), repeat=npairs):
                if npairs == 3 and len(set(pos)) == 2 and pos[0] != pos[1]:
                    continue      # keep the family small
                for rk in (0, 1, 2):
                    facs = []
                    for k in range(npairs):
                        facs += pair(pos[k], inner[k], sh, tg[k])
                    facs += rem(rk, sh)
                    for einstein in (False, True):
                        out.append({"name": "U", "sort": ["general", ""],
                                    "targets": None if einstein else tg,
                                    "kind": "shared-delta",
                                    "terms": [{"coef": "1", "facs": facs}]})
    letters = "pqrstuvw"
    for _ in range(n_random):
        npairs = rng.choice([2, 2, 3])
        names = rng.sample(letters, 2 * npairs + 1)
        sh = [names[0], ""]
        tg = [[x, ""] for x in names[1:1 + npairs]]
        inner = [[x, ""] for x in names[1 + npairs:]]
        carrier = rng.choice(["N", "N", "A0", "S0", "M"])
        facs = []
        for k in range(npairs):
            facs += pair(rng.randint(0, 1), inner[k], sh, tg[k], carrier)
        facs += rem(rng.randint(0, 2), sh)
        if rng.random() < 0.3:
            facs.append(["T", "W", [rng.choice(tg)], 1])
        if rng.random() < 0.2:
            facs.append(["Y", "x"])
        out.append({"name": rng.choice(["U", "A"]), "sort": ["general", ""],
                    "targets": None if rng.random() < 0.5 else tg,
                    "kind": "shared-delta-rnd",
                    "terms": [{"coef": rng.choice(["1", "2", "-1/2"]),
                               "facs": facs}]})
    return out


def sampled_third(rng, n):
    """U_ab U_cd with a third object / denominator / polynomial carrying idx"""
    idx = [[x, ""] for x in "pqrs"]
    out = []
    for _ in range(n):
        a, b, c, d = (rng.choice(idx[:3]) for _ in range(4))
        x = rng.choice(idx)
        th = rng.choice([
            ["T", "T", [x], 1], ["T", "T", [x], -1], ["T", "T", [x], 2],
            ["T", "T", [x, rng.choice(idx)], 1],
            ["P", [["1", [["T", "e", [x], 1]]],
                   ["1", [["T", "f", [rng.choice(idx)], 1]]]],
             rng.choice([1, -1, 2])],
            ["D", sorted([x, rng.choice([i for i in idx if i != x])])],
        ])
        used = [a, b, c, d, x]
        tg = rng.choice([None, [], rng.sample(idx, rng.randint(1, 3))])
        out.append({"name": "U", "targets": tg, "sort": ["general", ""],
                    "kind": "third",
                    "terms": [{"coef": rng.choice(["1", "2", "-1/2"]),
                               "facs": [["U", "N", [a, b], 1],
                                        ["U", "N", [c, d], 1], th]}]})
        del used
    return out


def random_term(rng, pool, extra, carrier, pattern):
    facs = []
    nu = rng.randint(2, 6)
    pick = lambda: rng.choice(pool)  # noqa
    if pattern == "pairs":
        while len([f for f in facs if f[0] == "U"]) < nu:
            p_, q_, r_ = pick(), pick(), pick()
            if rng.random() < 0.5:
                facs += [["U", carrier, [p_, q_], 1], ["U", carrier, [p_, r_], 1]]
            else:
                facs += [["U", carrier, [q_, p_], 1], ["U", carrier, [r_, p_], 1]]
    elif pattern == "chain":
        seq = [pick() for _ in range(nu + 2)]
        for k in range(nu):
            if k % 2 == 0:
                facs.append(["U", carrier, [seq[k], seq[k + 1]], 1])
            else:
                facs.append(["U", carrier, [seq[k + 1], seq[k]], 1])
    elif pattern == "powers":
        for _ in range(rng.randint(1, 3)):
            facs.append(["U", carrier, [pick(), pick()],
                         rng.choice([2, 2, 2, 3, 4, 1])])
    else:  # random
        small = rng.sample(pool, min(len(pool), rng.randint(2, 4)))
        for _ in range(nu):
            facs.append(["U", carrier, [rng.choice(small), rng.choice(small)],
                         rng.choice([1, 1, 1, 2])])
    allidx = pool + extra
    for _ in range(rng.choice([0, 0, 1, 1, 2])):
        k = rng.random()
        ii = [rng.choice(allidx) for _ in range(rng.randint(1, 3))]
        if k < 0.5:
            facs.append(["T", rng.choice(["T", "W"]), ii, 1])
        elif k < 0.7:
            facs.append(["T", rng.choice(["T", "D"]), ii[:2], -1])
        elif k < 0.85:
            facs.append(["P", [[rng.choice(["1", "1", "2"]),
                                [["T", "e", [ii[0]], 1]]],
                               [rng.choice(["1", "-1"]),
                                [["T", "f", [rng.choice(allidx)], 1]]]],
                         rng.choice([1, -1, -1, 2])])
        elif k < 0.95:
            a, b = rng.sample(allidx, 2)
            facs.append(["D", [a, b]])
        else:
            facs.append(["Y", "x"])
    if rng.random() < 0.1:
        facs.append(["R", 2])
    coef = rng.choice(["1", "1", "-1", "2", "1/2", "-3/4"])
    return {"coef": coef, "facs": facs}


def random_spec(rng):
    space, spin = rng.choice([("general", "")] * 6 + [("occ", "")] * 2 +
                             [("virt", "")] + [("general", "a")] * 2 +
                             [("occ", "b")])
    letters = LETTERS[space]
    npool = rng.randint(3, 5)
    pool = [[letters[k], spin] for k in range(npool)]
    extra = [[letters[k], spin] for k in range(npool, min(npool + 2,
                                                          len(letters)))]
    carrier = rng.choice(["N"] * 6 + ["A0", "A0", "A0", "A1", "A1", "Am1",
                                      "Am1", "Am1", "S0", "S1", "Sm1", "M",
                                      "AU"])
    assume = rng.choice([None, None, "sym", "antisym"]) \
        if carrier == "A0" else None
    pattern = rng.choice(["pairs", "pairs", "chain", "powers", "random",
                          "random"])
    einstein = rng.random() < 0.4
    nterms = 1 if einstein else rng.choice([1, 1, 2, 3])
    terms = [random_term(rng, pool, extra, carrier, pattern)
             for _ in range(nterms)]
    if einstein:
        tg = None
    else:
        allidx = pool + extra
        tg = rng.sample(allidx, rng.randint(0, min(3, len(allidx))))
    return {"name": rng.choice(["U", "U", "A"]), "targets": tg,
            "sort": [space, spin], "kind": "rnd:" + pattern, "terms": terms,
            "assume": assume}


def malformed_spec(rng):
    k = rng.choice(["rank3", "rank3alone", "mixed-space", "mixed-spin",
                    "negpow", "rank1"])
    g = [[x, ""] for x in "pqrs"]
    if k == "rank3":
        facs = [["U", "N", [g[0], g[1], g[2]], 1], ["U", "N", [g[0], g[1]], 1],
                ["U", "N", [g[0], g[3]], 1]]
    elif k == "rank3alone":
        facs = [["U", "N", [g[0], g[1], g[2]], rng.choice([1, -1])],
                ["T", "T", [g[0]], 1]]
    elif k == "rank1":
        facs = [["U", "N", [g[0]], 1], ["U", "N", [g[0], g[1]], 1]]
    elif k == "mixed-space":
        facs = [["U", "N", [g[0], ["i", ""]], 1], ["U", "N", [g[0], ["a", ""]], 1],
                ["T", "T", [["i", ""], ["a", ""]], 1]]
    elif k == "mixed-spin":
        facs = [["U", "N", [g[0], ["i", "a"]], 1], ["U", "N", [g[0], ["j", "b"]], 1]]
    else:
        facs = [["U", "N", [g[0], g[1]], -rng.randint(1, 2)],
                ["U", "N", [g[0], g[2]], 1], ["U", "N", [g[3], g[2]], 1]]
    tg = rng.choice([None, [], [g[1]]])
    return {"name": "U", "targets": tg, "sort": ["general", ""],
            "kind": "malformed:" + k, "terms": [{"coef": "1", "facs": facs}]}


CORPUS = [
    # the shapes of tests/simplify_test.py and of the findings
    {"name": "U", "targets": [], "sort": ["general", ""], "kind": "corpus",
     "terms": [{"coef": "2", "facs": [["U", "N", [["p", ""], ["q", ""]], 1],
                                      ["U", "N", [["p", ""], ["r", ""]], 1]]}]},
    {"name": "U", "targets": None, "sort": ["general", ""], "kind": "corpus",
     "terms": [{"coef": "1", "facs": [["U", "N", [["p", ""], ["q", ""]], 2]]}]},
    {"name": "U", "targets": [], "sort": ["general", ""], "kind": "corpus",
     "terms": [{"coef": "1", "facs": [["U", "N", [["p", ""], ["q", ""]], 2]]}]},
    {"name": "U", "targets": [["q", ""]], "sort": ["general", ""],
     "kind": "corpus",
     "terms": [{"coef": "1", "facs": [["U", "N", [["p", ""], ["q", ""]], 2]]}]},
    {"name": "U", "targets": [["q", ""], ["r", ""]], "sort": ["general", ""],
     "kind": "corpus",
     "terms": [{"coef": "1", "facs": [["U", "N", [["p", ""], ["q", ""]], 1],
                                      ["U", "N", [["p", ""], ["r", ""]], 1],
                                      ["T", "T", [["q", ""]], 1]]}]},
    {"name": "U", "targets": [["q", ""], ["s", ""]], "sort": ["general", ""],
     "kind": "corpus",
     "terms": [{"coef": "1", "facs": [
         ["U", "N", [["p", ""], ["q", ""]], 2],
         ["P", [["1", [["T", "e", [["q", ""]], 1]]],
                ["1", [["T", "e", [["s", ""]], 1]]]], 1]]}]},
    {"name": "U", "targets": None, "sort": ["occ", ""], "kind": "corpus",
     "terms": [{"coef": "1", "facs": [["U", "N", [["i", ""], ["j", ""]], 2],
                                      ["U", "N", [["i", ""], ["k", ""]], 1]]}]},
    {"name": "U", "targets": None, "sort": ["general", ""], "kind": "corpus",
     "terms": [{"coef": "1", "facs": [["U", "N", [["p", ""], ["q", ""]], 1],
                                      ["U", "N", [["p", ""], ["r", ""]], 1],
                                      ["U", "N", [["q", ""], ["s", ""]], 1],
                                      ["U", "N", [["r", ""], ["s", ""]], 1]]}]},
    {"name": "A", "targets": None, "sort": ["occ", ""], "kind": "corpus",
     "terms": [{"coef": "1", "facs": [["U", "A0", [["i", ""], ["j", ""]], 1],
                                      ["U", "A0", [["k", ""], ["j", ""]], 1]]}]},
]


# ------------------------------------------------------- well-formed inputs
def _sum_factors(term):
    """non-inverted sum factors (Add, or Add**n with n > 0) of a sympy term"""
    from sympy import Mul, Pow
    out = []
    for f in Mul.make_args(term):
        if isinstance(f, Add):
            out.append(f)
        elif isinstance(f, Pow) and isinstance(f.args[0], Add) \
                and f.args[1].is_Integer and f.args[1] > 0:
            out.append(f.args[0])
    return out


def _counts(sym, ictx):
    """index -> number of occurrences (exponents counted) in a sympy term"""
    cnt = {}
    for i in adcio.term_indices(adcio.conv_term(sym, ictx)):
        cnt[i] = cnt.get(i, 0) + 1
    return cnt


def well_formed(E):
    """None if the generated expression is well-formed, else the reason.
    (b) all addends of a (non-inverted) sum factor carry the same free
        indices - indices occurring once in the addend; provided target
        indices are exempt (the sum is then a pointwise function of them);
    (c) without provided targets the Einstein targets of all fully expanded
        terms of the expression coincide;
    (a) in expressions with a sum factor every non-target index occurs at
        most twice in every fully expanded term (exponents counted).
    Products without sum factors may carry an index three or more times: the
    library's index counter gives them a meaning, tests/simplify_test.py uses
    them ("index occurs at 3 objects") and the property's second clause is
    about them."""
    import sympy
    ictx = adcio.IdxCtx()
    ptg = E.provided_target_idx
    tg = set() if ptg is None else {ictx.conv(x) for x in ptg}
    e = E.sympy
    has_sum = False
    try:
        for term in Add.make_args(e):
            for sf in _sum_factors(term):
                has_sum = True
                frees = set()
                for addend in Add.make_args(sf):
                    cnt = _counts(addend, ictx)
                    frees.add(frozenset(i for i, n in cnt.items()
                                        if n == 1 and i not in tg))
                if len(frees) > 1:
                    return "sum factor with addends of different free indices"
        if ptg is None or has_sum:
            ex = sympy.expand(e)
            etg = set()
            for term in Add.make_args(ex):
                if term == 0:
                    continue
                cnt = _counts(term, ictx)
                if has_sum and any(n > 2 for i, n in cnt.items()
                                   if i not in tg):
                    return "index more than twice in an expanded sum"
                if ptg is None:
                    etg.add(frozenset(i for i, n in cnt.items() if n == 1))
            if len(etg) > 1:
                return "expanded terms with different Einstein targets"
    except adcio.Unsupported:
        return None
    return None


def generate(ctx, gen, n, stats, dropped):
    """n well-formed specs from the generator gen() (ill-formed ones are
    regenerated and counted)"""
    out, tries = [], 0
    while len(out) < n and tries < 20 * n + 100:
        tries += 1
        spec = gen()
        try:
            why = well_formed(U.build_expr(spec))
        except Exception:  # noqa: let run_specs report it
            why = None
        if why is None:
            out.append(spec)
        else:
            stats["ill_formed_regenerated"] += 1
            dropped[why] = dropped.get(why, 0) + 1
    return out


# ------------------------------------------------------------------- one case
class Case:
    pass


def run_impl(spec):
    """run the implementation (traced) -> Case"""
    fn = simplify_unitary()
    c = Case()
    c.spec = spec
    c.E = U.build_expr(spec)
    c.raised = None
    tr = U.Trace()
    try:
        c.res = tr.run(fn, c.E, spec["name"], False)
    except NotImplementedError as ex:
        c.res = None
        c.raised = repr(ex)
    c.trees = tr.roots
    c.groups = [[(n["sym"], n["target"]) for n in U.preorder(r)]
                for r in tr.roots]       # preorder lists, for reports
    c.res_ed = None
    c.ed_exc = None
    if c.raised is None:
        try:
            c.res_ed = fn(c.E, spec["name"], True)
        except Exception as ex:  # noqa
            c.ed_exc = repr(ex)
    return c


def coq_prov(tg):
    if tg is None:
        return "None"
    return "(Some " + adcio.coq_list(x.coq() for x in tg) + ")"


def coq_tree(node):
    return (f"(ONode {adcio.coq_term(node['py'])} "
            f"{adcio.coq_list(x.coq() for x in node['tg'])} "
            f"{adcio.coq_list(coq_tree(k) for k in node['kids'])})")


def prepare(c):
    """serialise the recorded call trees; returns list of Coq case strings
    (one per input term).  c.levels[g] / c.tgobs[g]: pyterms / observed
    targets of the nodes of tree g in preorder (index 0 = the input term);
    c.leaves[g]: preorder indices of the nodes that returned; c.kids[g][k]:
    preorder indices of the calls made from node k"""
    ictx = adcio.IdxCtx()
    c.ictx = ictx
    spec = c.spec
    ptg = c.E.provided_target_idx
    c.prov = None if ptg is None else [ictx.conv(x) for x in ptg]
    c.levels, c.tgobs, c.leaves, c.kids = [], [], [], []
    cases = []
    sp, sn = spec["sort"]
    for g, root in enumerate(c.trees):
        nodes = U.preorder(root)
        for n in nodes:
            n["py"] = adcio.conv_term(n["sym"], ictx)
            n["tg"] = [ictx.conv(x) for x in n["target"]]
        pos = {id(n): k for k, n in enumerate(nodes)}
        c.levels.append([n["py"] for n in nodes])
        c.tgobs.append([n["tg"] for n in nodes])
        c.kids.append([[pos[id(k)] for k in n["kids"]] for n in nodes])
        c.leaves.append([k for k, n in enumerate(nodes) if not n["kids"]])
        raised = c.raised is not None and g == len(c.trees) - 1
        cases.append(
            f"check_case {adcio.coq_str(spec['name'])} {COQ_SPACE[sp]} "
            f"{COQ_SPIN[sn]} {coq_prov(c.prov)} {coq_tree(root)} "
            f"{U.depth(root)} {'true' if raised else 'false'}")
    return cases


def prepare_ed(c):
    """evaluate_deltas=True against the fragment model: one-term inputs whose
    simplified form carries exactly one delta (then the order in which sympy
    lists several deltas cannot matter)"""
    if c.raised is not None or c.res_ed is None or len(c.trees) != 1 \
            or len(c.leaves[0]) != 1:
        return None
    last = c.levels[0][c.leaves[0][0]]
    nd = sum(1 for a, inv_ in last[1] if a[0] == "D")
    if nd != 1 or any(a[0] == "D" and inv_ for a, inv_ in last[1]):
        return None
    # substitution must not trigger a re-canonicalisation of a tensor
    # (sorting with sign / Pauli zero / bra-ket swap): outside the fragment
    for a, _ in last[1]:
        ts = [a] if a[0] == "T" else \
            [t for _, tl in a[1] for t in tl] if a[0] == "P" else []
        for t in ts:
            if t[1] != "KNonSym" and (len(t[4]) > 1 or len(t[5]) > 1
                                      or t[3] != 0):
                return None
    try:
        out = adcio.conv_expr(c.res_ed.sympy, c.ictx)
    except adcio.Unsupported:
        return None
    if len(out) > 1:
        return None
    out_t = out[0] if out else (Fraction(0), [])
    return (f"ed_code 4 {coq_prov(c.prov)} {adcio.coq_term(last)} "
            f"{adcio.coq_term(out_t)}")


def parse_verdict(v):
    """'([0; 0], true, false)' -> ([0, 0], True, False)"""
    import re
    if v is None:
        return None
    m = re.match(r"\(\[(.*?)\],\s*(true|false),\s*(true|false)\)", v)
    if not m:
        return None
    codes = [int(x.replace("%nat", "").strip())
             for x in m.group(1).split(";") if x.strip()]
    return codes, m.group(2) == "true", m.group(3) == "true"


CODE_TXT = {1: "targets differ from term.target", 2: "model raises, "
            "implementation does not", 3: "model finds no pair, implementation "
            "replaced one", 4: "model replaces a pair, implementation stopped",
            5: "different result of the replacement", 6: "implementation "
            "raised, model does not"}


def carrier_symmetry(spec):
    cs = {f[1] for t in spec["terms"] for f in t["facs"] if f[0] == "U"}
    for t in spec["terms"]:
        for f in t["facs"]:
            if f[0] == "P":
                cs |= {g[1] for _, ts in f[1] for g in ts if g[0] == "U"}
    # U^{pq} antisymmetric in its two upper indices; U^p_q = -U^q_p
    if cs & {"AU", "Am1", "Sm1"} or spec.get("assume") == "antisym":
        return "anti"
    if cs & {"A1", "S1"} or spec.get("assume") == "sym":
        return "sym"
    return "none"


def models_for(spec, rng, n=2):
    """orthogonal models; None if the carrier symmetry admits none of the
    tried dimensions (antisymmetric orthogonal needs an even dimension)"""
    sym = carrier_symmetry(spec)
    sizes = [((1, 1), (1, 0)), ((1, 1), (1, 1)), ((2, 1), (1, 1))]
    if sym == "anti":
        sizes = [((1, 1), (1, 1))]
    out = []
    for k in range(n):
        nocc, nvirt = sizes[k % len(sizes)]
        if spec["sort"][0] == "virt":
            nocc, nvirt = nvirt, nocc
        probe = numeric.Model(0, nocc, nvirt)
        if sym == "anti" and len(probe.rng(*spec["sort"])) % 2:
            continue
        out.append(U.OrthModel(rng.randrange(1 << 30), nocc, nvirt,
                               spec["name"], tuple(spec["sort"]), rng, sym))
    return out or None


def value_diff(models, e1, e2, tg, rng, assigns=6):
    """first (model, assignment) on which the two pyterm lists differ"""
    for m in models:
        for tgenv in numeric.target_assignments(m, list(tg), assigns, rng):
            try:
                v1 = m.eval_expr(e1, tgenv)
                v2 = m.eval_expr(e2, tgenv)
            except ZeroDivisionError:
                continue
            if v1 != v2:
                return {"model_seed": m.seed, "norb": len(m.orbs),
                        "dim_of_sort": m.dim,
                        "targets": {repr(k): v for k, v in tgenv.items()},
                        "value_in": v1, "value_out": v2, "prime": numeric.P}
    return None


def term_cost(t, tg, n=4):
    return n ** len(adcio.term_contracted(t, set(tg)))


def is_single_sort(c):
    """all indices of tensors named t_name lie in the sort of the spec"""
    sp, sn = c.spec["sort"]
    for lv in c.levels:
        for t in lv[:1]:
            for a, inv_ in t[1]:
                if a[0] == "T" and a[2] == c.spec["name"]:
                    for i in adcio.atom_indices(a):
                        if (i.space, i.spin) != (sp, sn):
                            return False
    return True


def leaf_terms(c, g):
    return [c.levels[g][k] for k in c.leaves[g]]


def lost_index_levels(c, g):
    """nodes of tree g at which a second non-target index disappeared"""
    out = []
    lv = c.levels[g]
    tg0 = set(c.prov) if c.prov is not None else set(c.tgobs[g][0])
    for k, kids in enumerate(c.kids[g]):
        if len(kids) != 1:
            continue
        gone = set(adcio.term_indices(lv[k])) - \
            set(adcio.term_indices(lv[kids[0]])) - tg0
        if len(gone) >= 2:
            out.append((k, sorted(repr(x) for x in gone)))
    return out


def sum_truncation(c, g):
    """a node whose only successor is one summand of a sum (terms[0])"""
    grp = c.groups[g]
    for k, kids in enumerate(c.kids[g]):
        if len(kids) != 1:
            continue
        cur, nxt = grp[k][0], grp[kids[0]][0]
        nadd = sum(1 for a in cur.args if isinstance(a, Add)) \
            if cur.is_Mul else 0
        nadd_n = sum(1 for a in nxt.args if isinstance(a, Add)) \
            if nxt.is_Mul else (1 if isinstance(nxt, Add) else 0)
        if nadd > nadd_n:
            return k
    return None


def heterogeneous_sum(c, g):
    """a sum was multiplied out whose summands do not all carry the same
    non-target indices: the input itself is ill-formed (multiplying it out,
    as Expr.expand() does, changes the value in the library's own reading)"""
    tg0 = set(c.prov) if c.prov is not None else set(c.tgobs[g][0])
    for k, kids in enumerate(c.kids[g]):
        if len(kids) > 1:
            sets = {frozenset(set(adcio.term_indices(c.levels[g][j])) - tg0)
                    for j in kids}
            if len(sets) > 1:
                return True
    return False


def only_on_deltas(t, tg):
    """non-target indices of pyterm t that occur on no non-delta object"""
    on_other = set()
    for a, _ in t[1]:
        if a[0] != "D":
            on_other |= set(adcio.atom_indices(a))
    return [i for i in dict.fromkeys(adcio.term_indices(t))
            if i not in on_other and i not in set(tg)]


def lost_sum_power(models, t, e, tg, rng, kmax=3):
    """0 if t and e have the same value everywhere; k >= 1 if value(t) =
    dim^k * value(e) for every model / target assignment (dim = number of
    orbitals of the sort); None otherwise"""
    pairs = []
    for m in models:
        for tgenv in numeric.target_assignments(m, list(tg), 6, rng):
            pairs.append((m.dim, m.eval_expr(t, tgenv), m.eval_expr(e, tgenv)))
    if all(v1 == v2 for _, v1, v2 in pairs):
        return 0
    for k in range(1, kmax + 1):
        if all(v1 == pow(dm, k, numeric.P) * v2 % numeric.P
               for dm, v1, v2 in pairs):
            return k
    return None


def isolated_delta_class(c, models, tg, rng):
    """the value change of evaluate_deltas=True is explained term by term:
    func.evaluate_deltas (given the provided targets) maps every term of the
    evaluate_deltas=False result either to a term of equal value, or - for
    terms in which a contracted index occurs on deltas only - to one whose
    value is smaller by exactly dim^k (k lost sums).  Returns a description,
    or None if anything else is going on."""
    import adcgen.func as func
    ptg = c.E.provided_target_idx
    terms = Add.make_args(c.res.sympy)
    eterms = [func.evaluate_deltas(t, target_idx=ptg) for t in terms]
    if (Add(*eterms) - c.res_ed.sympy) != 0:
        return None
    expl = []
    for t, e in zip(terms, eterms):
        pt = adcio.conv_expr(t, c.ictx)
        pe = adcio.conv_expr(e, c.ictx)
        k = lost_sum_power(models, pt, pe, tg, rng)
        if k is None:
            return None
        if k > 0:
            lonely = [i for x in pt for i in only_on_deltas(x, tg)]
            if not lonely:
                return None
            expl.append(f"{t} -> {e}: {k} sum(s) lost, contracted indices "
                        f"on deltas only: {sorted(repr(i) for i in lonely)}")
    return expl or None


def describe(c):
    return {"spec": c.spec, "input": str(c.E.sympy)[:600],
            "targets": None if c.prov is None else [repr(x) for x in c.prov],
            "output": None if c.res is None else str(c.res.sympy)[:600],
            "output_evaluate_deltas": None if c.res_ed is None
            else str(c.res_ed.sympy)[:600],
            "levels": [[str(s)[:300] for s, _ in grp] for grp in c.groups],
            "calls_from_node": getattr(c, "kids", None),
            "raised": c.raised}


def judge(ctx, c, verdicts, stats):
    """all checks of one case"""
    rng = ctx.rng
    spec = c.spec
    label = spec["kind"]
    steps = sum(len(g) - 1 for g in c.groups)
    refused = False
    for last in [t for g in range(len(c.levels)) for t in leaf_terms(c, g)]:
        us = [a for a, inv_ in last[1] if a[0] == "T" and a[2] == spec["name"]
              and not inv_ and len(adcio.atom_indices(a)) == 2]
        for x, y in itertools.combinations(us, 2):
            ix, iy = adcio.atom_indices(x), adcio.atom_indices(y)
            if ix[0] == iy[0] or ix[1] == iy[1]:
                refused = True
    sample = {"kind": label, "in": str(c.E.sympy)[:200],
              "targets": None if c.prov is None else repr(c.prov),
              "out": None if c.res is None else str(c.res.sympy)[:200],
              "levels": [len(g) for g in c.groups]}
    ctx.case(key=(str(c.E.sympy), repr(c.prov)),
             nontrivial=(steps > 0 or refused or c.raised is not None),
             sample=sample if steps > 0 else None,
             kind=f"{label}:steps{min(steps, 4)}")
    single = is_single_sort(c)
    models = None
    unexplained = []
    # the tracer must have seen one call group per term of the input
    nterms = len(c.E.terms)
    seen = len(c.trees)
    ok_tr = (seen == nterms) if c.raised is None else (1 <= seen <= nterms)
    if not ctx.obligation(f"tracer recorded every term {label}", ok_tr,
                          f"groups={seen} terms={nterms}"):
        ctx.violation(f"C20:tracer:{c.E.sympy}", "the recursion levels of "
                      "simplify_term_unitary could not be observed (closure "
                      "renamed or restructured?)", describe(c), False)
        return

    # ---- F: per level against unitary_pass; R: reachability ----------------
    for g, v in enumerate(verdicts):
        pv = parse_verdict(v)
        if pv is None:
            ctx.obligation(f"coq evaluation {label}", False, str(v))
            ctx.violation(f"C20:coq-eval:{c.E.sympy}", "Coq evaluation of the "
                          "model failed", describe(c), False)
            return
        codes, reach, reach_safe = pv
        stats["levels"] += len(codes)
        bad = [(k, cd) for k, cd in enumerate(codes) if cd != 0]
        ok = ctx.obligation(f"levels == unitary_pass {label}", not bad,
                            json.dumps(describe(c))[:1500])
        if not ok:
            unexplained.append((g, "level", bad))
        if c.raised is None:
            okr = ctx.obligation(f"result reachable in the step relation "
                                 f"{label}", reach)
            if not okr and ok:
                unexplained.append((g, "reach", []))
            if reach_safe:      # check_tree: covered by C20_check_tree_sound
                stats["covered_by_theorem"] += 1
            else:
                stats["not_covered_by_theorem"] += 1

    # ---- structural: result is the sum of the per-term results ---------------
    if c.raised is None:
        finals = [c.groups[g][k][0] for g in range(len(c.groups))
                  for k in c.leaves[g]]
        same = (Add(*finals) - c.res.sympy) == 0 if finals \
            else c.res.sympy == 0
        if not ctx.obligation(f"result is the sum of the per-term results "
                              f"{label}", bool(same)):
            ctx.violation(f"C20:sum-of-terms:{c.E.sympy}", "returned expression "
                          "is not the sum of the per-term results",
                          describe(c), True)
        if not ctx.obligation(f"assumptions kept {label}",
                              c.res.assumptions == c.E.assumptions):
            ctx.violation(f"C20:assumptions:{c.E.sympy}", "assumptions / target "
                          "indices of the result differ from the input",
                          describe(c), True)

    # ---- value on orthogonal matrices ---------------------------------------
    failing = {}       # group -> diff (evaluate_deltas=False)
    if c.raised is None and single:
        models = models_for(spec, rng)
        if models is None:
            stats["value_skipped"] += len(c.levels)
        for g, lv in enumerate(c.levels if models is not None else []):
            tg = c.prov if c.prov is not None else c.tgobs[g][0]
            if term_cost(lv[0], tg, 3) > 30000:
                stats["value_skipped"] += 1
                continue
            if heterogeneous_sum(c, g):
                stats["heterogeneous_sum_skipped"] += 1
                continue
            try:
                d = value_diff(models, [lv[0]], leaf_terms(c, g), tg, rng)
            except Exception as ex:  # evaluator outside its domain
                ctx.note(f"numeric evaluation failed: {ex!r}")
                continue
            stats["value_checked"] += 1
            if d is not None:
                failing[g] = d
            # Einstein targets the output would re-derive (note only)
            if c.prov is None and any(
                    c.levels[g][k][1] and
                    set(c.tgobs[g][0]) != set(c.tgobs[g][k])
                    for k in c.leaves[g]):
                stats["einstein_target_drift"] += 1
    for g, d in failing.items():
        lost = lost_index_levels(c, g)
        trunc = sum_truncation(c, g)
        rep = describe(c)
        rep["term"] = g
        rep["difference"] = d
        if trunc is not None:
            ctx.obligation(f"value preserved {label}", False)
            rep["analysis"] = ("new_term.terms[0] keeps only the first summand "
                               f"at recursion level {trunc}")
            ctx.violation(KEY_SUM, "simplify_unitary drops summands when the "
                          "remainder of a replaced pair is a sum", rep, True)
        elif lost:
            ctx.obligation(f"value preserved {label}", False)
            rep["analysis"] = ("the two remaining indices coincide: delta_qq = "
                               "1 and the summation over q is lost at levels "
                               f"{lost}")
            ctx.violation(KEY_SQUARE, "simplify_unitary(U_pq**2) returns 1 "
                          "(value: dimension of the space): the sum over the "
                          "coinciding remaining index is dropped", rep, True)
        else:
            ctx.obligation(f"value preserved {label}", False)
            ctx.violation(f"C20:value:{c.E.sympy}:{c.prov}", "simplify_unitary "
                          "changed the value on an orthogonal matrix", rep,
                          True)
    # disagreements with the model that were not explained by a failing value
    for g, what, bad in unexplained:
        if g in failing:
            continue
        rep = describe(c)
        rep["term"] = g
        rep["codes"] = [(k, CODE_TXT.get(cd, cd)) for k, cd in bad]
        d = None
        if single and c.raised is None and models is not None:
            tg = c.prov if c.prov is not None else c.tgobs[g][0]
            try:
                d = value_diff(models, [c.levels[g][0]], leaf_terms(c, g),
                               tg, rng, assigns=20)
            except Exception:  # noqa
                d = None
        rep["difference"] = d
        ctx.violation(f"C20:model-mismatch:{c.E.sympy}:{c.prov}",
                      "implementation and unitary_pass disagree "
                      f"({what}: {rep['codes']})", rep, d is not None)

    # ---- evaluate_deltas=True ---------------------------------------------------
    if c.raised is None:
        if c.ed_exc is not None:
            ctx.obligation(f"evaluate_deltas=True runs {label}", False,
                           c.ed_exc)
            ctx.violation(f"C20:exception-ed:{c.E.sympy}", "simplify_unitary("
                          "evaluate_deltas=True) raised " + c.ed_exc,
                          describe(c), True)
            return
        import adcgen.func as func
        ptg = c.E.provided_target_idx
        respect = func.evaluate_deltas(c.res.sympy, target_idx=ptg)
        same = (respect - c.res_ed.sympy) == 0
        stats["ed_cases"] += 1
        if not same:
            stats["ed_differs_from_target_respecting"] += 1
        if single and not failing and models is not None:
            ictx = c.ictx
            try:
                p_in = [lv[0] for lv in c.levels]
                p_ed = adcio.conv_expr(c.res_ed.sympy, ictx)
                p_rs = adcio.conv_expr(respect, ictx)
            except adcio.Unsupported as ex:
                ctx.note(f"unsupported in evaluate_deltas output: {ex}")
                return
            if c.prov is not None:
                tg = c.prov
            else:
                tgs = {tuple(sorted(t[0])) for t in c.tgobs}
                if len(tgs) > 1:
                    return
                tg = c.tgobs[0][0] if c.tgobs else []
            if sum(term_cost(t, tg, 3) for t in p_in) > 30000:
                return
            try:
                d = value_diff(models, p_in, p_ed, tg, rng)
                d2 = None if d is None else \
                    value_diff(models, p_in, p_rs, tg, rng, assigns=12)
            except Exception as ex:  # noqa
                ctx.note(f"numeric evaluation failed: {ex!r}")
                return
            stats["ed_value_checked"] += 1
            if d is None:
                ctx.obligation(f"value preserved with evaluate_deltas {label}",
                               True)
                return
            rep = describe(c)
            rep["difference"] = d
            rep["target_respecting_delta_evaluation"] = str(respect)[:600]
            iso = None
            if c.prov is not None and same:
                try:
                    iso = isolated_delta_class(c, models, tg, rng)
                except Exception as ex:  # noqa
                    ctx.note(f"classification failed: {ex!r}")
            if iso is not None:
                # known finding: the follow-up delta evaluation removes a
                # delta whose indices are contracted and occur on no other
                # object (outside the coverage hypothesis of C09); every
                # term whose value changes is explained exactly by lost sums
                stats["ed_isolated_delta_known_finding"] += 1
                rep["analysis"] = iso
                ctx.violation(KEY_ISOLATED, "simplify_unitary(2*U_pq*U_pr,'U',"
                              "evaluate_deltas=True), no targets -> 2 (value "
                              "2N): the follow-up delta evaluation removes a "
                              "delta whose two indices are both contracted and "
                              "occur on no other object, losing the sum", rep,
                              True)
                return
            ctx.obligation(f"value preserved with evaluate_deltas {label}",
                           False)
            if c.prov is not None and not same and d2 is None:
                rep["analysis"] = (
                    "func.evaluate_deltas(res.sympy) is called without "
                    "target_idx=expr.provided_target_idx; with the provided "
                    "targets the value is preserved")
                ctx.violation(KEY_DELTAS, "simplify_unitary(..., "
                              "evaluate_deltas=True) evaluates the deltas "
                              "without the provided target indices: a target "
                              "index is substituted away", rep, True)
            else:
                ctx.violation(f"C20:value-ed:{c.E.sympy}:{c.prov}",
                              "simplify_unitary(evaluate_deltas=True) changed "
                              "the value", rep, True)


def run_specs(ctx, specs, tag, stats, shard=150):
    cases, coq_cases, spans = [], [], []
    for spec in specs:
        try:
            c = run_impl(spec)
            pc = prepare(c)
        except adcio.Unsupported as ex:
            ctx.note(f"unsupported input skipped: {ex}")
            continue
        except Exception as ex:  # noqa
            import traceback
            ctx.violation(f"C20:exception:{json.dumps(spec)[:200]}",
                          f"simplify_unitary raised {ex!r}",
                          {"spec": spec, "traceback": traceback.format_exc()},
                          True)
            continue
        spans.append((len(coq_cases), len(coq_cases) + len(pc)))
        coq_cases += pc
        cases.append(c)
        c.ed_case = prepare_ed(c)
    vals, errs = ctx.coq_eval(tag, coq_cases, header=HEADER, shard=shard)
    ed_idx = [k for k, c in enumerate(cases) if c.ed_case is not None]
    ed_vals, _ = ctx.coq_eval(tag + "_ed", [cases[k].ed_case for k in ed_idx],
                              header=HEADER, shard=shard)
    for k, v in zip(ed_idx, ed_vals):
        c = cases[k]
        stats["ed_fragment_compared"] += 1
        ok = v is not None and v.replace("%nat", "").strip() == "0"
        if not ctx.obligation("evaluate_deltas=True == fragment model "
                              "eval_deltas(targets_by_objects)", ok,
                              json.dumps(describe(c))[:1200]):
            ctx.violation(f"C20:ed-model-mismatch:{c.E.sympy}:{c.prov}",
                          "simplify_unitary(evaluate_deltas=True) differs from "
                          "the model simplify_ed_as_coded", describe(c), False)
    for c, (a, b) in zip(cases, spans):
        judge(ctx, c, vals[a:b], stats)


def run(ctx):
    rng = ctx.rng
    quick = ctx.tier == "quick"
    stats = {k: 0 for k in (
        "levels", "covered_by_theorem", "not_covered_by_theorem",
        "value_checked", "value_skipped", "einstein_target_drift", "ed_cases",
        "ed_differs_from_target_respecting", "ed_value_checked",
        "ed_isolated_delta_known_finding", "ed_fragment_compared",
        "heterogeneous_sum_skipped", "ill_formed_regenerated")}
    run_specs(ctx, CORPUS, "corpus", stats)
    run_specs(ctx, exhaustive_specs(full=False), "exh", stats)
    run_specs(ctx, exhaustive_braket_specs(full=not quick), "exhbk", stats)
    run_specs(ctx, shared_delta_specs(rng, 30 if quick else 200), "shd", stats)
    if not quick:
        run_specs(ctx, exhaustive_specs(full=True), "exh3", stats)
    dropped = {}
    for spec in CORPUS:
        why = well_formed(U.build_expr(spec))
        ctx.obligation("corpus input is well-formed", why is None,
                       f"{why}: {json.dumps(spec)[:300]}")
    run_specs(ctx, generate(ctx, lambda: sampled_third(rng, 1)[0],
                            150 if quick else 600, stats, dropped),
              "third", stats)
    run_specs(ctx, generate(ctx, lambda: random_spec(rng),
                            400 if quick else 2500, stats, dropped),
              "rnd", stats)
    ctx.extra["c20_ill_formed_regenerated"] = dropped
    run_specs(ctx, [malformed_spec(rng) for _ in range(40 if quick else 150)],
              "mal", stats)
    ctx.extra["c20_stats"] = stats
    ctx.note("einstein_target_drift counts Einstein-mode terms whose output "
             "would re-derive other target indices than the input (value is "
             "compared with the input's targets); see findings/C20_*.md")


def replay(ctx, rep):
    spec = rep["replay"].get("spec") if "replay" in rep else rep.get("spec")
    if spec is None:
        print(json.dumps(rep, indent=1)[:3000])
        return 2
    c = run_impl(spec)
    cases = prepare(c)
    vals, errs = ctx.coq_eval("replay", cases, header=HEADER)
    print("input :", c.E.sympy, " targets:", c.prov)
    print("output:", None if c.res is None else c.res.sympy)
    print("output (evaluate_deltas=True):",
          None if c.res_ed is None else c.res_ed.sympy)
    for grp in c.groups:
        print("levels:", [str(s) for s, _ in grp])
    print("model verdicts (codes per call in preorder, reachable, check_tree):", vals)
    stats = {k: 0 for k in (
        "levels", "covered_by_theorem", "not_covered_by_theorem",
        "value_checked", "value_skipped", "einstein_target_drift", "ed_cases",
        "ed_differs_from_target_respecting", "ed_value_checked",
        "ed_isolated_delta_known_finding", "ed_fragment_compared",
        "heterogeneous_sum_skipped")}
    judge(ctx, c, vals, stats)
    for v in ctx.violations:
        print("VIOLATION", v["key"], v["what"],
              json.dumps(v["replay"].get("difference"), default=str))
    return 1 if ctx.violations else 0
