"""C17 - generated contraction code evaluates to the expression it came from."""
import itertools
import re
import sys
import logging

from sympy import Add, Mul, Rational, S, Symbol, sqrt

from adcgen.expr_container import Expr
from adcgen.indices import get_symbols, Index
from adcgen.sympy_objects import (AntiSymmetricTensor as AT,
                                  SymmetricTensor as ST, Amplitude,
                                  NonSymmetricTensor as NT, KroneckerDelta)
import adcio
import numeric
import c17_util as U

LEVEL = "proof"
RULE = ("fixed corpus (reproducers, shapes from the examples) + structured "
        "random expressions: 1-4 tensors/deltas from the library vocabulary "
        "(V, f, t-amplitudes, X/Y, densities, t2eri, generic (anti)symmetric "
        "and non-symmetric tensors) wired by a random index pattern (single "
        "tensors, traces, outer products, chains / nested contractions, "
        "hyper-indices), rational / sqrt prefactors, symbols, sums closed "
        "under target permutations; random target order, optional bra/ket "
        "separator, spin labels, bra-ket symmetry 0/+1/-1, (anti)symmetric "
        "result; every expression is run for both backends, optimised and "
        "unoptimised.  A case = one generate_code call; non-trivial = the "
        "call returned text with at least one contraction; distinct = "
        "distinct (expression, target, options) text")
TRUSTED = ["harness/c17_util.py: recording wrappers around exploit_perm_sym / "
           "optimize_contractions / unoptimized_contraction (their return "
           "values are the input of the Gallina generator model), and the "
           "independent Python interpreter of the emitted text (used for the "
           "value comparison and the failing-input search only)",
           "own statement of the adcc / libadc naming conventions "
           "(c17_util.reference_names) used to bind printed tensor names to "
           "tensor values in the independent execution"]
ASSUMPTIONS = [
    "the ERI / Fock names are recognised by the part of the long name before "
    "the first '_' (tensors whose own name starts with 'V_' / 'f_' are outside "
    "the generated vocabulary; the Coq check conv_ok flags them)",
    "the contraction scheme and the exploit_perm_sym dictionary are inputs of "
    "the model; that a well-formed scheme computes the term is C16, that the "
    "dictionary reproduces the expression is C10 (both are nevertheless "
    "covered end-to-end by the independent execution on every case)",
    "index names inside a term are pairwise distinct (indices that differ "
    "only in spin share a name: limitation stated by the library, hypothesis "
    "of einsum_semantics); such cases are generated, counted and only "
    "compared as text",
    "printed tensor names are bound consistently (hypothesis names_bound of "
    "codegen_semantics); the run evaluates the decidable check and the "
    "independent execution reports inputs where distinct tensors are given "
    "the same name",
    "integer prefactors below 10^16 (Python's float repr switches to "
    "exponent notation above)",
]

OCC, VIRT = "ijklmn", "abcdef"


# --------------------------------------------------------------------------
# generators

def rand_pref(rng):
    r = rng.random()
    if r < 0.35:
        return S.One
    if r < 0.85:
        return rng.choice([-1, 2, Rational(1, 2), Rational(-1, 2),
                           Rational(1, 4), Rational(-1, 4), Rational(3, 4),
                           Rational(-2, 3), 5, Rational(1, 12), -3,
                           Rational(7, 2), 12, Rational(1, 36)])
    return rng.choice([sqrt(2), sqrt(2) / 2, -sqrt(3) / 3, 2 * sqrt(6),
                       sqrt(6) / 4, -sqrt(2)])


def make_obj(rng, idxs):
    """a tensor carrying the index list idxs (len 1..4), or a delta"""
    n = len(idxs)
    spaces = "".join(i.space[0] for i in idxs)
    rep = len(set(idxs)) < n
    choices = ["nt", "nt"]
    if not rep:
        if n == 4:
            choices += ["V", "V", "t4", "at22", "st22", "t2eri", "xy4"]
        if n == 2:
            choices += ["f", "f", "t2s", "xy2", "at11", "p", "st11"]
            if idxs[0].space == idxs[1].space and idxs[0].spin == idxs[1].spin:
                choices += ["delta"]
        if n == 3:
            choices += ["at21", "xy3"]
        if n == 1:
            choices += ["xy1"]
    c = rng.choice(choices)
    if c == "nt":
        return NT(rng.choice(["A", "B", "C", "Z", "W", "Zf", "xV"]),
                  tuple(idxs))
    if c == "V":
        return AT("V", tuple(idxs[:2]), tuple(idxs[2:]), rng.choice([0, 1]))
    if c == "f":
        return AT("f", (idxs[0],), (idxs[1],), rng.choice([0, 1]))
    if c == "t4":
        return Amplitude(rng.choice(["t1", "t2", "t1cc", "t"]),
                         tuple(idxs[:2]), tuple(idxs[2:]))
    if c == "t2s":
        return Amplitude(rng.choice(["t2", "t3", "t2cc"]), (idxs[0],),
                         (idxs[1],))
    if c == "at22":
        return AT(rng.choice(["M", "G"]), tuple(idxs[:2]), tuple(idxs[2:]),
                  rng.choice([0, 1, -1]))
    if c == "st22":
        return ST(rng.choice(["H", "K"]), tuple(idxs[:2]), tuple(idxs[2:]),
                  rng.choice([0, 1]))
    if c == "t2eri":
        return AT(rng.choice(["t2eri3", "t2eri5", "t2sq"]), tuple(idxs[:2]),
                  tuple(idxs[2:]))
    if c in ("xy4", "xy2"):
        h = n // 2
        if "g" in spaces:
            return NT("A", tuple(idxs))
        return Amplitude(rng.choice(["X", "Y"]), tuple(idxs[:h]),
                         tuple(idxs[h:]))
    if c == "xy3":
        if "g" in spaces:
            return NT("A", tuple(idxs))
        return Amplitude(rng.choice(["X", "Y"]), tuple(idxs[:2]),
                         tuple(idxs[2:]))
    if c == "xy1":
        if "g" in spaces:
            return NT("A", tuple(idxs))
        return Amplitude(rng.choice(["X", "Y"]), (idxs[0],), ())
    if c == "at11":
        return AT(rng.choice(["M", "G"]), (idxs[0],), (idxs[1],),
                  rng.choice([0, 1, -1]))
    if c == "st11":
        return ST("H", (idxs[0],), (idxs[1],), rng.choice([0, 1]))
    if c == "p":
        return AT(rng.choice(["p2", "p3", "p"]), (idxs[0],), (idxs[1],), 1)
    if c == "at21":
        return AT("M", tuple(idxs[:2]), (idxs[2],))
    if c == "delta":
        return KroneckerDelta(idxs[0], idxs[1])
    raise ValueError(c)


def index_pool(rng, spin_mode):
    """dict name -> Index; spin_mode '' | 'a' | 'mixed' (one spin per name, so
    names stay unique) | 'clash' (same name with both spins possible)"""
    names = list(OCC) + list(VIRT)
    if spin_mode == "":
        return dict(zip(names, get_symbols(names)))
    if spin_mode == "a":
        return dict(zip(names, get_symbols(names, "a" * len(names))))
    if spin_mode == "clash":
        # occupied i,j,k exist with both spins under the same name: the pool
        # maps l,m,n to the beta partners of i,j,k
        al = get_symbols(names, "a" * len(names))
        d = dict(zip(names, al))
        for src, dst in zip("ijk", "lmn"):
            d[dst] = get_symbols(src, "b")[0]
        for src, dst in zip("abc", "def"):
            d[dst] = get_symbols(src, "b")[0]
        return d
    spins = "".join(rng.choice("ab") for _ in names)
    return dict(zip(names, get_symbols(names, spins)))


def random_term(rng, pool, shape=None):
    """returns (sympy term, list of target Index in a canonical-free order,
    explicit: whether targets must be given explicitly to Expr)"""
    shape = shape or rng.choice(["single", "single", "trace", "outer",
                                 "chain", "chain", "chain", "graph", "graph",
                                 "hyper"])
    occ = [pool[c] for c in OCC]
    virt = [pool[c] for c in VIRT]
    rng.shuffle(occ)
    rng.shuffle(virt)

    def fresh(space=None):
        space = space or rng.choice("ov")
        src = occ if space == "o" else virt
        if not src:
            src = virt if space == "o" else occ
        return src.pop()

    explicit = False
    objs = []
    if shape == "single":
        n = rng.randint(1, 4)
        objs.append(make_obj(rng, [fresh() for _ in range(n)]))
    elif shape == "trace":
        n = rng.randint(2, 4)
        idxs = [fresh() for _ in range(n - 1)]
        idxs.insert(rng.randrange(n), rng.choice(idxs))
        objs.append(make_obj(rng, idxs))
        if rng.random() < 0.4:
            objs.append(make_obj(rng, [fresh() for _ in
                                       range(rng.randint(1, 2))]))
    elif shape == "outer":
        for _ in range(rng.randint(2, 3)):
            objs.append(make_obj(rng, [fresh() for _ in
                                       range(rng.randint(1, 2))]))
    elif shape == "chain":
        # T1_{x.. c1} T2_{c1 .. c2} T3_{c2 ..}
        k = rng.randint(2, 4)
        links = [fresh() for _ in range(k - 1)]
        for m in range(k):
            idxs = []
            if m > 0:
                idxs.append(links[m - 1])
            if m < k - 1:
                idxs.append(links[m])
            extra = rng.randint(0, 2) if len(idxs) < 4 else 0
            idxs += [fresh() for _ in range(min(extra, 4 - len(idxs)))]
            rng.shuffle(idxs)
            objs.append(make_obj(rng, idxs))
        if rng.random() < 0.3:   # close the chain with a second common index
            pass
    elif shape == "graph":
        k = rng.randint(2, 4)
        ranks = [rng.randint(1, 4) for _ in range(k)]
        slots = [(m, s) for m in range(k) for s in range(ranks[m])]
        nslots = len(slots)
        ntg = rng.choice([0, 0, 1, 2, 2, 3, 4])
        ntg = min(ntg, nslots)
        if (nslots - ntg) % 2:
            ntg += 1 if ntg < nslots else -1
        labels = [fresh() for _ in range(ntg)]
        for _ in range((nslots - ntg) // 2):
            x = fresh()
            labels += [x, x]
        rng.shuffle(labels)
        per = {m: [] for m in range(k)}
        for (m, _), x in zip(slots, labels):
            per[m].append(x)
        for m in range(k):
            objs.append(make_obj(rng, per[m]))
    elif shape == "hyper":
        # an index on three objects and/or a target index on two objects
        explicit = True
        x = fresh()
        k = 3
        tg2 = fresh() if rng.random() < 0.5 else None
        for m in range(k):
            idxs = [x]
            if tg2 is not None and m < 2:
                idxs.append(tg2)
            idxs += [fresh() for _ in range(rng.randint(0, 1))]
            rng.shuffle(idxs)
            objs.append(NT(rng.choice(["A", "B", "C"]) , tuple(idxs)))
    if rng.random() < 0.08 and objs:
        objs.append(rng.choice(objs))       # a squared factor
    term = Mul(*objs)
    return term, explicit


def einstein_targets(term):
    """indices occurring exactly once (the library's convention), computed on
    the pyterm"""
    ctx = adcio.IdxCtx()
    pt = adcio.conv_expr(term, ctx)
    if not pt:
        return None
    cnt = {}
    for i in adcio.term_indices(pt[0]):
        cnt[i] = cnt.get(i, 0) + 1
    return cnt


def gen_case(rng, n):
    """-> dict(expr=sympy, targets=[Index...] (requested order), explicit,
    tstr, tspin, bks, anti, label)"""
    spin_mode = rng.choice(["", "", "", "", "", "a", "mixed", "mixed",
                            "clash"])
    pool = index_pool(rng, spin_mode)
    term, explicit = random_term(rng, pool)
    if term == 0:
        return None
    from adcgen.indices import Index
    cnt = {}
    for f in Mul.make_args(term):
        base = f.args[0] if f.is_Pow else f
        mult = int(f.args[1]) if f.is_Pow else 1
        ids = (base.idx if hasattr(base, "idx") else
               [a for a in base.args if isinstance(a, Index)])
        for i in ids:
            cnt[i] = cnt.get(i, 0) + mult
    tg = [i for i, c in cnt.items() if c == 1]
    if explicit:
        # hyper case: additionally every index on exactly two objects may be
        # declared a target
        two = [i for i, c in cnt.items() if c == 2]
        if two and rng.random() < 0.7:
            tg.append(rng.choice(two))
    if len(tg) > 4:
        return None
    rng.shuffle(tg)
    # symmetric / antisymmetric partner terms
    expr = rand_pref(rng) * term
    same = [(p, q) for p, q in itertools.combinations(tg, 2)
            if p.space == q.space and p.spin == q.spin]
    if same and rng.random() < 0.45:
        p, q = rng.choice(same)
        sgn = rng.choice([1, -1])
        expr = expr + sgn * expr.xreplace({p: q, q: p})
        same2 = [pq for pq in same if not set(pq) & {p, q}]
        if same2 and rng.random() < 0.5:
            p2, q2 = rng.choice(same2)
            s2 = rng.choice([1, -1])
            expr = expr + s2 * expr.xreplace({p2: q2, q2: p2})
    elif len(same) >= 3 and rng.random() < 0.6:
        # cyclic partner: non-commuting product of transpositions
        tri = [t for t in itertools.combinations(tg, 3)
               if len({(x.space, x.spin) for x in t}) == 1]
        if tri:
            p, q, r3 = rng.choice(tri)
            cyc = expr.xreplace({p: q, q: r3, r3: p})
            expr = expr + cyc
            if rng.random() < 0.5:
                expr = expr + cyc.xreplace({p: q, q: r3, r3: p})
    elif rng.random() < 0.25:
        # unrelated further terms with the same targets
        other = NT("R", tuple(tg)) * rand_pref(rng) if tg else \
            rand_pref(rng) * S(3)
        expr = expr + other
        if tg and rng.random() < 0.4:
            q = pool[[c for c in OCC + VIRT if pool[c] not in
                      expr.atoms(Index)][0]]
            expr = expr + rand_pref(rng) * NT("W", tuple(tg) + (q,)) * \
                NT("Z", (q,))
    r = rng.random()
    if r < 0.10:
        expr = expr * Symbol(rng.choice(["x", "c0"])) ** rng.choice(
            [1, 2, 3, 1, 2, -1, -2])
        if rng.random() < 0.4:
            expr = expr * Symbol("omega") ** rng.choice([1, 2, 4, -1])
    elif r < 0.13 and not tg:
        # pure symbol / number terms next to (or instead of) the tensor term
        sym = Symbol("gam") ** rng.choice([1, 2, -1, -2, 3]) * \
            rng.choice([1, 3, Rational(1, 2), Rational(-2, 3)])
        expr = sym if rng.random() < 0.5 else expr + sym
    from sympy import expand
    expr = expand(expr)
    if expr == 0:
        return None
    # target string
    names = [i.name for i in tg]
    comma = None
    bks = 0
    if tg and rng.random() < 0.6:
        comma = rng.randint(0, len(tg))
        if comma * 2 == len(tg) and rng.random() < 0.6:
            bks = rng.choice([1, -1])
    tstr = "".join(names) if comma is None else \
        "".join(names[:comma]) + "," + "".join(names[comma:])
    tspin = None
    if spin_mode:
        sp = [i.spin for i in tg]
        tspin = "".join(sp) if comma is None or rng.random() < 0.5 else \
            "".join(sp[:comma]) + "," + "".join(sp[comma:])
    return dict(expr=expr, targets=tg, explicit=explicit, tstr=tstr,
                tspin=tspin, bks=bks, anti=rng.random() < 0.6,
                label=f"gen{n}")


def corpus():
    i, j, k, l, a, b, c, d = get_symbols("ijklabcd")
    i1, i2 = get_symbols(["i1", "i2"])
    C = []

    def add(label, e, tg, tstr, explicit=False, **kw):
        C.append(dict(expr=e, targets=list(tg), explicit=explicit, tstr=tstr,
                      tspin=kw.get("tspin"), bks=kw.get("bks", 0),
                      anti=kw.get("anti", True), label=label))
    add("corpus:group-objects", NT("A", (i, j)) * NT("B", (i, k)) *
        NT("C", (i, j)) * NT("D", (j,)), [k], "k", explicit=True)
    add("corpus:single-fock", AT("f", (i,), (a,)), [i, a], "ia")
    add("corpus:single-eri-bks", AT("V", (i, a), (j, b), 1), [i, a, j, b],
        "ia,jb", bks=1)
    add("corpus:symbol", Symbol("x") * AT("f", (i,), (j,)) *
        AT("Y", (j,), (a,)), [i, a], "ia")
    gam, om = Symbol("gam"), Symbol("omega")
    add("corpus:pure-symbol-division", 3 / gam, [], "")
    add("corpus:pure-symbol-power", Rational(2, 3) * gam ** 3 * om, [], "")
    add("corpus:pure-symbol-division-sum", 3 / gam ** 2 + om +
        Rational(1, 2) * NT("A", (i, i)), [], "")
    add("corpus:symbol-division-with-tensors", Rational(3, 5) * om ** 2 / gam *
        NT("A", (i, a)) * NT("B", (i, b)), [a, b], "ab")
    add("corpus:symbol-division-nested", 1 / gam * AT("V", (i, j), (a, b)) *
        Amplitude("t1", (a, c), (j, k)) * Amplitude("Y", (k,), (c,)),
        [i, b], "ib")
    add("corpus:symbol-division-single", om ** -2 * AT("f", (i,), (a,)),
        [i, a], "ia")
    add("corpus:symbol-power-with-tensors", om ** 3 * gam * NT("A", (i, a)) *
        NT("B", (i, b)), [b, a], "ba")
    add("corpus:tensor-division", NT("A", (i, a)) / NT("Z", (i,)) *
        NT("B", (i, b)), [a, b], "ab", explicit=True)
    add("corpus:name-prefix-V", AT("Vx", (i, j), (a, b)) *
        AT("V", (a, b), (i, k)), [j, k], "jk")
    add("corpus:name-prefix-f", NT("fancy", (i, a)) * AT("f", (i,), (b,)),
        [a, b], "ab")
    add("corpus:name-contains-V-f", NT("Zf", (i, a)) * NT("xV", (a, j)) *
        AT("f", (j,), (k,)), [i, k], "ik")
    add("corpus:numbered", NT("A", (i1, i2)) * NT("B", (i2, j)), [i1, j],
        "i1j")
    add("corpus:adc2-like", Rational(1, 2) * AT("V", (i, j), (a, b)) *
        Amplitude("t1", (a, c), (j, k)) * Amplitude("Y", (k,), (c,)) *
        Amplitude("X", (i,), (d,)), [b, d], "bd")
    add("corpus:two-scalars", Rational(1, 4) * AT("V", (i, j), (a, b)) *
        Amplitude("t1", (a, b), (i, j)) * AT("f", (k,), (c,)) *
        Amplitude("Y", (k,), (c,)), [], "")
    add("corpus:scalar-times-tensor", AT("V", (i, j), (a, b)) *
        Amplitude("t1", (a, b), (i, j)) * AT("f", (k,), (c,)), [k, c], "kc")
    add("corpus:number-term", Rational(1, 4) * AT("V", (i, j), (a, b)) *
        Amplitude("t1", (a, b), (i, j)) + 3, [], "")
    add("corpus:delta-outer", KroneckerDelta(i, j) * AT("f", (a,), (b,)),
        [i, a, j, b], "ia,jb", bks=1)
    add("corpus:antisym-pair", Amplitude("Y", (i,), (a,)) *
        Amplitude("Y", (j,), (b,)) - Amplitude("Y", (j,), (a,)) *
        Amplitude("Y", (i,), (b,)), [i, j, a, b], "ij,ab")
    add("corpus:braket-sym", Amplitude("Y", (i,), (a,)) *
        Amplitude("X", (j,), (b,)) + Amplitude("Y", (j,), (b,)) *
        Amplitude("X", (i,), (a,)), [i, a, j, b], "ia,jb", bks=1)
    add("corpus:braket-antisym", Amplitude("Y", (i,), (a,)) *
        Amplitude("X", (j,), (b,)) - Amplitude("Y", (j,), (b,)) *
        Amplitude("X", (i,), (a,)), [i, a, j, b], "ia,jb", bks=-1)
    add("corpus:sym-result", Amplitude("Y", (i,), (a,)) *
        Amplitude("X", (j,), (b,)) + Amplitude("Y", (j,), (a,)) *
        Amplitude("X", (i,), (b,)), [i, j, a, b], "ij,ab", anti=False)
    # cyclic permutations: products of non-commuting transpositions, applied
    # in the listed order
    X3 = NT("A", (i,)) * NT("B", (j,)) * NT("C", (k,))
    c1 = X3.xreplace({i: j, j: k, k: i})
    c2 = c1.xreplace({i: j, j: k, k: i})
    add("corpus:cyclic-2", X3 + c1, [i, j, k], "ijk")
    add("corpus:cyclic-2-sym", X3 + c1, [i, j, k], "ijk", anti=False)
    add("corpus:cyclic-3-sym", X3 + c1 + c2, [k, i, j], "kij", anti=False)
    add("corpus:cyclic-3-comma", Rational(1, 2) * (X3 + c1 + c2), [i, j, k],
        "ijk,")
    Y3 = NT("A", (a, l)) * NT("B", (b, l)) * AT("f", (c,), (d,)) * \
        NT("Z", (d,))
    d1 = Y3.xreplace({a: b, b: c, c: a})
    add("corpus:cyclic-virt-contracted", Y3 - 2 * d1, [a, b, c], "abc")
    add("corpus:cyclic-virt-contracted-3", Y3 + d1 +
        d1.xreplace({a: b, b: c, c: a}), [c, a, b], ",cab", anti=False)
    add("corpus:square", Amplitude("Y", (i,), (a,)) ** 2 * NT("Z", (j,)),
        [j], "j")
    add("corpus:partial-trace", NT("A", (i, j, j)) * NT("B", (i, k)), [k],
        "k")
    add("corpus:sqrt", sqrt(2) / 2 * AT("f", (i,), (a,)) * NT("Z", (a, j)),
        [i, j], "ij")
    add("corpus:rational", Rational(-3, 7) * AT("f", (i,), (a,)) *
        NT("Z", (a, j)), [j, i], "ji")
    add("corpus:names2", AT("p2", (i,), (a,), 1) *
        AT("t2eri3", (i, j), (k, a)) * AT("t2sq", (j, k), (l, b)),
        [l, b], "lb")
    return [c_ for c_ in C if c_ is not None]


# --------------------------------------------------------------------------
# checks

def relevant_count(term):
    n = 0
    for o in term.objects:
        base, ex = o.base_and_exponent
        if o.sympy.is_number or isinstance(base, Symbol):
            continue
        ex = S(ex)
        n += int(ex) if ex.is_Integer and ex > 0 else 1
    return n


def scheme_leak(obs):
    """a step of an observed scheme sums an index that also occurs on an
    object outside the step (or is consumed twice)"""
    for _, rec in obs.schemes:
        if rec[0] != "ok" or not isinstance(rec[1], list):
            continue
        steps = rec[1]
        for n, st in enumerate(steps):
            later = [ix for other in steps[n + 1:]
                     for nm, ix in zip(other.names, other.indices)
                     if nm != st.contraction_name]
            # indices of base objects not consumed yet are those appearing as
            # non-contraction operands of later steps
            for c in st.contracted:
                if any(c in ix for ix in later):
                    return True
    return False


def classify(case, variant, obs, kind, detail):
    """stable key for a failure"""
    be, opt = variant
    lab = case["label"]
    msg = str(obs.exc) if obs.exc is not None else ""
    try:
        terms = [t for _, ts in (obs.blocks or []) for t in ts]
    except Exception:
        terms = []
    if kind == "crash" and isinstance(obs.exc, TypeError) and \
            "'Index' object is not iterable" in msg and opt and \
            any(relevant_count(t) == 1 for t in terms):
        return "C17:single-object-term:optimize_contraction_scheme=True:f_ia"
    if kind == "crash" and isinstance(obs.exc, TypeError) and \
            "expected str instance, NoneType found" in msg and \
            any(isinstance(o.base, Symbol) for t in terms for o in t.objects):
        return "C17:symbol-prefactor:x*f_ij*Y_ja"
    if kind in ("value", "exec") and any(
            not t.idx and any(isinstance(o.base, Symbol) and
                              S(o.exponent) < 0 for o in t.objects)
            for t in terms):
        return "C17:symbol-negative-exponent-dropped:3/gam"
    if kind in ("value", "exec") and opt and scheme_leak(obs):
        return "C17:contracted-index-still-in-use:A_ij*B_ik*C_ij*D_j->k"
    if kind in ("value", "exec") and be == "einsum" and detail and \
            "not a valid numpy subscript" in detail:
        return "C17:einsum-numbered-index-names:A_i1i2*B_i2j"
    if kind in ("value", "exec", "names"):
        tn = U.tensor_names_dict()
        pyt = adcio.conv_expr(case["expr"])
        for _, facs in pyt:
            for a, _ in facs:
                if a[0] == "T" and a[2] not in (tn["eri"], tn["fock"]) and (
                        a[2].startswith(tn["eri"]) or
                        (a[2].startswith(tn["fock"]) and be == "einsum")):
                    return ("C17:name-prefix-translated-as-eri-or-fock:"
                            "Vx_ijab*V_abik")
    return f"C17:{kind}:{lab}:{be}:{'opt' if opt else 'unopt'}"


def names_distinct(case):
    """index names pairwise distinct inside every term and among targets"""
    pyt = adcio.conv_expr(case["expr"])
    ictx = adcio.IdxCtx()
    tg = [ictx.conv(x) for x in case["targets"]]
    for t in pyt:
        ids = set(adcio.term_indices(t)) | set(tg)
        if len({i.name for i in ids}) < len(ids):
            return False
    return True


def execute(case, be, text, rng, nmodels=2):
    """independent execution of `text` against brute-force evaluation of the
    expression.  Returns None if equal on all models / assignments, else a
    replay dict ('kind': 'exec' | 'value')."""
    pyt = adcio.conv_expr(case["expr"])
    ictx = adcio.IdxCtx()
    tg = [ictx.conv(x) for x in case["targets"]]
    table, conflicts = U.reference_names(pyt, be, U.tensor_names_dict())
    if conflicts:
        return {"kind": "ambiguous-names", "conflicts": [str(c) for c in conflicts]}
    symbols = {a[1] for _, facs in pyt for a, _ in facs if a[0] == "S"}
    tnames = [i.name for i in tg]
    for m in range(nmodels):
        sizes = ((1, 1), (1, 1)) if m == 0 else ((2, 1), (1, 2))
        model = numeric.Model(rng.randrange(1 << 30), *sizes)
        axes = [model.rng(i.space, i.spin) for i in tg]
        try:
            got = U.run_text(text, model, table, symbols, tnames, axes)
        except U.ExecError as ex:
            return {"kind": "exec", "error": str(ex), "model_seed": model.seed}
        for key in itertools.product(*axes):
            want = model.eval_expr(pyt, dict(zip(tg, key)))
            if got[key] != want:
                return {"kind": "value", "model_seed": model.seed,
                        "nocc": sizes[0], "nvirt": sizes[1],
                        "targets": dict(zip(tnames, key)),
                        "value_program": got[key], "value_expression": want,
                        "prime": numeric.P,
                        "name_conflicts": [str(c) for c in conflicts]}
    return None


def run_variant(case, be, opt):
    e = case["expr"]
    if case["explicit"]:
        E = Expr(e, target_idx=case["targets"])
    else:
        E = Expr(e)
    kw = {}
    if case["tspin"] is not None:
        kw["target_spin"] = case["tspin"]
    return U.observe(E, case["tstr"], be, opt, bra_ket_sym=case["bks"],
                     antisymmetric_result_tensor=case["anti"], **kw)


def describe(case, be, opt, obs):
    return {"label": case["label"], "expr": str(case["expr"]),
            "target_indices": case["tstr"], "target_spin": case["tspin"],
            "bra_ket_sym": case["bks"],
            "antisymmetric_result_tensor": case["anti"],
            "explicit_targets": case["explicit"], "backend": be,
            "optimize_contraction_scheme": opt,
            "emitted": obs.text,
            "exception": repr(obs.exc) if obs.exc is not None else None}


def run(ctx):
    logging.getLogger("adcgen").setLevel(logging.ERROR)
    lg = sys.modules.get("adcgen.logger")
    if lg is not None and hasattr(lg, "logger"):
        lg.logger.setLevel(logging.ERROR)
    rng = ctx.rng
    quick = ctx.tier == "quick"
    cases = build_cases(rng, quick)

    ctx.note(f"sympy {__import__('sympy').__version__}: S.Half == 0.5 is "
             f"{U.half_eq_float()} (sqrt prefactor branch "
             f"{'reachable' if U.half_eq_float() else 'unreachable -> NotImplementedError'})")

    records = []      # (case, be, opt, obs)
    coq_cases = []
    for case in cases:
        for be in ("einsum", "libtensor"):
            for opt in (True, False):
                try:
                    obs = run_variant(case, be, opt)
                except Exception as ex:   # Expr construction failed
                    ctx.note(f"{case['label']}: {ex!r}")
                    continue
                records.append((case, be, opt, obs))
                cc = U.coq_case(obs, be)
                coq_cases.append(cc if cc is not None else '"NOINPUT"')

    vals, errs = ctx.coq_eval("tie", coq_cases, header=U.COQ_HEADER, shard=40)
    # scheme_guard vs the object loop of the scheme search, called directly
    # (generate_code refuses divisions by symbols already in format_prefactor)
    g_cases = {}
    for case, be, opt, obs in records:
        if be != "einsum":
            continue
        for descr, term, want in U.direct_guard_cases(
                obs, case["tstr"], case["tspin"], opt):
            g_cases.setdefault((term, opt), (descr, want))
    g_keys = list(g_cases)
    gvals, _ = ctx.coq_eval("guard", [k[0] for k in g_keys],
                            header=U.COQ_HEADER, shard=200)
    for (term, opt), val in zip(g_keys, gvals):
        descr, want = g_cases[(term, opt)]
        fn = "optimize_contractions" if opt else "unoptimized_contraction"
        ctx.case(key=("guard", term, opt), nontrivial=want == "Refuse",
                 kind=f"guard:{'opt' if opt else 'unopt'}:{want.split()[0]}")
        if not ctx.obligation(f"scheme_guard == {fn} refusal for {descr}",
                              val == want, f"coq {val} / impl {want}"):
            ctx.violation(
                f"C17:model-mismatch:scheme-guard:{fn}:{descr[:80]}",
                f"{fn} and the Gallina scheme_guard disagree on refusing the "
                "term (division / non-tensor object)",
                {"term": descr, "function": fn, "model": val, "impl": want,
                 "correspondence": "Models/Codegen.v scheme_guard"}, False)
    # Obj.longname vs the Gallina model
    ln_cases = {}
    for case, be, opt, obs in records:
        for descr, term, want in U.coq_longname_cases(obs):
            ln_cases.setdefault(term, (descr, want))
    ln_terms = list(ln_cases)
    lvals, _ = ctx.coq_eval("longname", ln_terms, header=U.COQ_HEADER,
                            shard=200)
    for term, val in zip(ln_terms, lvals):
        descr, want = ln_cases[term]
        ctx.case(key=("longname", term), nontrivial=True, kind="longname")
        if not ctx.obligation(f"longname model == Obj.longname() for {descr}",
                              val == want, f"coq {val} / impl {want}"):
            ctx.violation(f"C17:model-mismatch:longname:{descr}",
                          "Gallina longname differs from Obj.longname()",
                          {"object": descr, "model": val, "impl": want,
                           "correspondence": "Models/Codegen.v longname"},
                          False)
    # hypotheses of the theorems, evaluated in Coq on every observed scheme
    chk_cases, chk_owner = [], []
    for n, (case, be, opt, obs) in enumerate(records):
        if obs.outcome != "ok":
            continue
        for cc in U.coq_check_cases(obs, be, case["targets"]):
            chk_cases.append(cc)
            chk_owner.append(n)
    cvals, _ = ctx.coq_eval("hyp", chk_cases, header=U.COQ_HEADER, shard=80)
    sy_owner = [n for n, (_, _, _, obs) in enumerate(records)
                if obs.outcome == "ok"]
    svals, _ = ctx.coq_eval("symexp", [U.coq_syms_case(records[n][3])
                                       for n in sy_owner],
                            header=U.COQ_HEADER, shard=200)
    hyp = {n: {"c_symexp": v == "true"} for n, v in zip(sy_owner, svals)}
    for n, v in zip(chk_owner, cvals):
        d = U.parse_checks(v)
        if not d:
            ctx.note(f"unparsed scheme_checks value: {v}")
            d = {"c_unparsed": False}
        cur = hyp.setdefault(n, {})
        for k, b in d.items():
            cur[k] = cur.get(k, True) and b
    hyp_stats = {}

    stats = {"ok": 0, "refuse": 0, "crash": 0, "input-error": 0,
             "executed": 0, "exec-skipped-same-name-different-spin": 0}
    for recno, ((case, be, opt, obs), cq, val) in enumerate(
            zip(records, coq_cases, vals)):
        variant = (be, opt)
        vname = f"{case['label']}:{be}:{'opt' if opt else 'unopt'}"
        kindlab = case["label"].split(":")[0].rstrip("0123456789")
        if cq == '"NOINPUT"':
            # generate_code failed before / inside exploit_perm_sym (input
            # validation): outside the property (no program requested)
            stats["input-error"] += 1
            ctx.case(key=None, nontrivial=False,
                     kind=f"{kindlab}:{be}:input-rejected")
            if not isinstance(obs.exc, Exception) or \
                    type(obs.exc).__name__ != "Inputerror":
                key = classify(case, variant, obs, "crash", None)
                ctx.violation(key, "generate_code raised "
                              f"{obs.exc!r} before producing any contraction",
                              describe(case, be, opt, obs), True)
            continue
        stats[obs.outcome] += 1
        nontriv = obs.text is not None and "(" in obs.text.split("to:\n")[-1]
        ctx.case(key=(str(case["expr"]), case["tstr"], case["tspin"],
                      case["bks"], case["anti"], be, opt),
                 nontrivial=nontriv,
                 sample={"expr": str(case["expr"])[:200],
                         "target": case["tstr"], "backend": be, "opt": opt,
                         "emitted": (obs.text or repr(obs.exc))[:400]},
                 kind=f"{kindlab}:{be}:{'opt' if opt else 'unopt'}:"
                      f"{obs.outcome}")
        # --- tie: text-exact comparison with the Gallina generator
        want = U.expected_verdict(obs)
        ok = ctx.obligation(f"model text == implementation text {vname}",
                            val == want, f"coq: {val}\nimpl: "
                            f"{obs.text if obs.text else repr(obs.exc)}")
        if not ok:
            ctx.violation(
                f"C17:model-mismatch:{vname}",
                "print_prog (codegen ...) differs from the text returned by "
                "generate_code (or the refusal/exception class differs)",
                {"case": describe(case, be, opt, obs), "model": val,
                 "correspondence": "Models/Codegen.v codegen/print_prog"},
                False)
        # --- outcome clause of the property
        if obs.outcome == "crash":
            key = classify(case, variant, obs, "crash", None)
            ctx.violation(key, "generate_code raised "
                          f"{type(obs.exc).__name__} (neither text nor the "
                          "documented NotImplementedError): " + str(obs.exc)[:200],
                          describe(case, be, opt, obs), True)
            continue
        if obs.outcome != "ok":
            continue
        # --- independent execution
        if not names_distinct(case):
            stats["exec-skipped-same-name-different-spin"] += 1
            continue
        bad = execute(case, be, obs.text, rng, nmodels=1 if quick else 2)
        if bad is not None and bad["kind"] == "ambiguous-names":
            # the naming convention itself gives two different objects of the
            # expression the same name (e.g. X_a and X_abc are both 'ul1', or
            # one tensor name with two spin blocks)
            stats["exec-skipped-convention-ambiguous"] = stats.get(
                "exec-skipped-convention-ambiguous", 0) + 1
            continue
        stats["executed"] += 1
        okv = ctx.obligation(f"emitted program value == expression value "
                             f"{vname}", bad is None, str(bad))
        # which hypotheses of C17_codegen_semantics hold for this call
        h = dict(hyp.get(recno, {}))
        if be == "libtensor":
            h.pop("c_letters", None)       # only needed for numpy subscripts
        failed = sorted(k for k, b in h.items() if not b)
        tag = "all-hypotheses-hold" if not failed else "fails:" + ",".join(failed)
        hyp_stats[tag] = hyp_stats.get(tag, 0) + 1
        if not failed and h:
            # theorem applies: the value must agree (consistency of the formal
            # hypotheses with the independent execution)
            if not ctx.obligation("hypotheses of C17_codegen_semantics hold => "
                                  f"values agree {vname}", bad is None):
                ctx.violation(
                    f"C17:hypotheses-hold-but-values-differ:{vname}",
                    "all decidable hypotheses of the C17 theorems hold for "
                    "the observed scheme but the independent execution "
                    "disagrees with the expression (model, interpreter or "
                    "scheme semantics inconsistent)",
                    {"case": describe(case, be, opt, obs), "difference": bad},
                    True)
        if not okv:
            key = classify(case, variant, obs, bad["kind"],
                           bad.get("error"))
            what = ("the emitted program is not executable by the reference "
                    "interpreter: " + bad["error"]) if bad["kind"] == "exec" \
                else ("the emitted program evaluates to a different value "
                      "than the expression")
            ctx.violation(key, what, {"case": describe(case, be, opt, obs),
                                      "difference": bad}, True)
    ctx.extra["c17_hypotheses"] = hyp_stats
    ctx.note(f"theorem hypotheses over executed calls: {hyp_stats}")
    ctx.extra["c17_stats"] = stats
    ctx.note(f"outcomes: {stats}")


def build_cases(rng, quick):
    n_gen = 150 if quick else 900
    cases = corpus()
    n = tries = 0
    while n < n_gen and tries < 20 * n_gen:
        tries += 1
        c = gen_case(rng, n)
        if c is not None:
            cases.append(c)
            n += 1
    return cases


def replay(ctx, rep):
    """re-executes the generate_code call of a replay file: regenerates the
    case list from the recorded seed / tier, finds the case by label, runs
    the implementation and the independent execution again"""
    import json
    import random
    logging.getLogger("adcgen").setLevel(logging.ERROR)
    r = rep.get("replay", {})
    case_d = r.get("case", r)
    label = case_d.get("label")
    be = case_d.get("backend", "einsum")
    opt = case_d.get("optimize_contraction_scheme", True)
    rng = random.Random(rep.get("seed", ctx.seed))
    cases = build_cases(rng, rep.get("tier", "quick") == "quick")
    case = next((c for c in cases if c["label"] == label), None)
    if case is None:
        print(f"case {label!r} not found; recorded data:")
        print(json.dumps(rep, indent=1, default=str)[:3000])
        return 2
    obs = run_variant(case, be, opt)
    print("expression :", case["expr"])
    print("call       :", {k: case_d.get(k) for k in (
        "target_indices", "target_spin", "bra_ket_sym",
        "antisymmetric_result_tensor", "backend",
        "optimize_contraction_scheme")})
    print("outcome    :", obs.outcome, repr(obs.exc) if obs.exc else "")
    print(obs.text or "")
    if obs.outcome == "crash":
        print("REPRODUCED: exception other than NotImplementedError")
        return 1
    if obs.outcome == "ok" and names_distinct(case):
        bad = execute(case, be, obs.text, random.Random(1), nmodels=2)
        if bad is not None and bad.get("kind") != "ambiguous-names":
            print("REPRODUCED:", json.dumps(bad, indent=1, default=str))
            return 1
    print("not reproduced (text comparison with the Gallina model is only "
          "done by the full check)")
    return 0
