"""C02 - ground-state perturbation theory agrees with explicit
determinant-space RSPT."""
import itertools
import sys
import time
from sympy import S
import adcgen
from adcgen.expr_container import Expr
from adcgen.indices import get_symbols
import adcio
import detspace
import equivcheck as EQ
import numeric
from numeric import P, inv

LEVEL = "proof"
RULE = ("for each partitioning (mp, re), order n and excitation class: the "
        "derived energy / amplitude / residual / normalisation factor "
        "(orders 0-4) / expectation-value "
        "expression is evaluated on model Hamiltonians (3 occupied + 3 "
        "virtual spin orbitals = 20 determinants, random real "
        "antisymmetrised integrals, canonical HF orbital energies for mp, "
        "general block structure for re) with the lower-order amplitudes "
        "taken from the explicit perturbed wavefunctions, and compared with "
        "RSPT carried out by linear algebra in determinant space "
        "(harness/detspace.py, exact arithmetic mod a 61-bit prime); the "
        "order bookkeeping function gen_term_orders is compared with its "
        "Gallina model exhaustively for small arguments.  Non-trivial: "
        "order >= 1; distinct by (quantity, order, class, model, indices)")
TRUSTED = ["harness/detspace.py (independent determinant-space engine) and "
           "harness/numeric.py (expression evaluator)",
           "the per-run comparison with explicit RSPT is exact evaluation on "
           "sampled model Hamiltonians, not a proof over all Hamiltonians; "
           "the theorems proved are listed in the manifest"]
ASSUMPTIONS = [
    "the semantic link 'Wick evaluation = determinant-space expectation "
    "value' for arbitrary tensor coefficients is theorem C01_wicks_value; "
    "the inductive RSPT chain (amplitude tensors of order < n are the "
    "determinant coefficients) is the hypothesis under which each order is "
    "checked - it is established order by order by the run itself",
    "orders <= 2 (quick) / <= 3 (thorough); model spaces with 3+3 spin "
    "orbitals (quadruples need 4+4: thorough uses one 4+4 model for the "
    "second-order quadruples)",
]

HEADER_PT = """From Coq Require Import List Arith.
From ADC Require Import Models.PT.
Import ListNotations.
"""


def make_model(space, psis, dmat=None):
    """numeric.Model on the orbitals of `space` whose tensors are the
    integrals / explicit amplitudes"""
    def V(model, kind, bks, up, lo):
        if len(up) != 2 or len(lo) != 2:
            return None
        return space.v(up[0], up[1], lo[0], lo[1]) % P

    def e(model, kind, bks, up, lo):
        return space.eps[up[0]] % P

    def f(model, kind, bks, up, lo):
        return space.f[up[0]][lo[0]] % P

    def amp(order):
        def t(model, kind, bks, up, lo):
            if order >= len(psis):
                return 0
            if not all(x >= space.nocc for x in up) or \
                    not all(x < space.nocc for x in lo):
                return 0
            if len(set(up)) != len(up) or len(set(lo)) != len(lo):
                return 0
            return space.amplitude(psis[order], list(up), list(lo))
        return t

    special = {"V": V, "e": e, "f": f}
    for n in range(1, 5):
        special[f"t{n}"] = amp(n)
        special[f"t{n}cc"] = amp(n)
    if dmat is not None:
        special["d"] = lambda m, k, b, up, lo: dmat[up[0]][lo[0]] % P
    return numeric.Model(space.seed, (space.nocc, 0), (space.nvirt, 0),
                         special)


def pyterms(expr):
    ictx = adcio.IdxCtx()
    e = Expr(getattr(expr, "sympy", expr)).expand()
    return adcio.conv_expr(e, ictx), ictx


def evaluate(model, expr, targets=(), values=()):
    terms, ictx = pyterms(expr)
    env = {ictx.conv(s): v for s, v in zip(targets, values)}
    return model.eval_expr(terms, env)


CLASSES = {1: "ph", 2: "pphh", 3: "ppphhh", 4: "pppphhhh"}
NAMES = {1: "ia", 2: "ijab", 3: "ijkabc", 4: "ijklabcd"}


def run(ctx):
    rng = ctx.rng
    quick = ctx.tier == "quick"
    max_order = 2 if quick else 3
    simplify = sys.modules["adcgen.simplify"].simplify

    # ---- gen_term_orders against its Gallina model (exhaustive, small) ------
    from adcgen.func import gen_term_orders
    cases, expect = [], []
    for order in range(0, 7):
        for length in range(0, 4):
            for mn in range(0, 4):
                cases.append(f"gen_term_orders {order} {length} {mn}")
                expect.append(gen_term_orders(order, length, mn))
    vals, errs = ctx.coq_eval("gto", cases, header=HEADER_PT, shard=200)
    for c, v, ex in zip(cases, vals, expect):
        got = None
        if v is not None:
            import re
            body = v.strip()
            rows = re.findall(r"\[([0-9; ]*)\]", body[1:-1]) if body != "[]" \
                else []
            got = [tuple(int(x) for x in r.split(";") if x.strip())
                   for r in rows]
        ok = got == [tuple(t) for t in ex]
        ctx.case(key=c, nontrivial=len(ex) > 1, kind="gen_term_orders")
        if not ctx.obligation(f"model = code: {c}", ok, f"{v} vs {ex}"):
            ctx.violation(f"C02:gen_term_orders:{c}",
                          "gen_term_orders differs from its Gallina model "
                          "(theorem gen_term_orders_spec no longer applies "
                          "to the code)", {"call": c, "model": v,
                                           "implementation": repr(ex)}, True)

    # ---- explicit RSPT -----------------------------------------------------
    for variant in ("mp", "re"):
        gs = adcgen.GroundState(adcgen.Operators(variant=variant))
        n_models = 2 if quick else 4
        for mi in range(n_models):
            space = detspace.Space(3, 3, rng.randrange(1 << 30),
                                   canonical=(variant == "mp"))
            t0 = time.time()
            E, psi = space.rspt(variant, max_order)
            ctx.note(f"{variant} model {mi}: RSPT to order {max_order} in "
                     f"{time.time() - t0:.1f}s")
            model = make_model(space, psi)
            # energies
            for n in range(0, max_order + 1):
                try:
                    val = evaluate(model, gs.energy(n))
                except Exception as ex:
                    ctx.violation(f"C02:energy-exception:{variant}:{n}",
                                  f"energy({n}) raised {ex!r}", {}, False)
                    continue
                ok = val == E[n] % P
                ctx.case(key=("energy", variant, n, space.seed),
                         nontrivial=n >= 1,
                         sample={"quantity": f"E({n}) {variant}",
                                 "model_seed": space.seed,
                                 "value_mod_P": val}, kind=f"energy:{variant}")
                if not ctx.obligation(f"{variant} energy order {n} = explicit "
                                      f"RSPT (model {space.seed})", ok):
                    ctx.violation(
                        f"C02:energy:{variant}:order{n}",
                        f"derived {variant} energy of order {n} differs from "
                        "explicit determinant-space RSPT",
                        {"variant": variant, "order": n,
                         "model": {"nocc": 3, "nvirt": 3, "seed": space.seed},
                         "derived": val, "explicit": E[n] % P,
                         "expression": str(gs.energy(n))[:600]}, True)
            # amplitudes (mp) / residuals (re)
            for n in range(1, max_order + 1):
                for k in range(1, min(2 * n, 3) + 1):
                    if n == 1 and k == 1:
                        continue
                    names = NAMES[k]
                    syms = get_symbols(names)
                    occs = syms[:k]
                    virts = syms[k:]
                    try:
                        if variant == "mp":
                            expr = gs.amplitude(n, CLASSES[k], names)
                        else:
                            expr = gs.amplitude_residual(n, CLASSES[k], names)
                        expr = Expr(expr).expand()
                    except Exception as ex:
                        ctx.violation(
                            f"C02:amplitude-exception:{variant}:{n}:{k}",
                            f"amplitude/residual raised {ex!r}", {}, False)
                        continue
                    combos = [(o, v) for o in itertools.combinations(
                        space.occ, k) for v in itertools.combinations(
                        space.virt, k)]
                    if len(combos) > (4 if quick else 9):
                        combos = rng.sample(combos, 4 if quick else 9)
                    for o, v in combos:
                        env_syms = list(occs) + list(virts)
                        env_vals = list(o) + list(v)
                        val = evaluate(model, expr, env_syms, env_vals)
                        if variant == "mp":
                            want = space.amplitude(psi[n], list(v), list(o))
                            what = "amplitude"
                        else:
                            want = 0
                            what = "residual"
                        ok = val == want % P
                        ctx.case(key=(what, variant, n, k, space.seed, o, v),
                                 nontrivial=True, kind=f"{what}:{variant}:"
                                 f"{n}:{CLASSES[k]}",
                                 sample={"quantity": f"{what} order {n} "
                                         f"{CLASSES[k]}", "occ": o, "virt": v,
                                         "value_mod_P": val})
                        if not ctx.obligation(
                                f"{variant} {what} order {n} {CLASSES[k]} "
                                f"{o}{v} (model {space.seed})", ok):
                            ctx.violation(
                                f"C02:{what}:{variant}:order{n}:{CLASSES[k]}",
                                f"derived {variant} {what} of order {n} "
                                f"({CLASSES[k]}) disagrees with the explicit "
                                "perturbed wavefunction",
                                {"variant": variant, "order": n,
                                 "class": CLASSES[k], "occ": o, "virt": v,
                                 "model": {"nocc": 3, "nvirt": 3,
                                           "seed": space.seed},
                                 "derived": val, "explicit": want % P}, True)
            # wavefunction normalisation factor 1/<Psi|Psi> to fourth
            # order (needs the explicit wavefunctions to third order; the
            # product S^(2)*S^(2) first shows up at order 4)
            if mi == 0:
                E3, psi3 = space.rspt(variant, 3)
                model3 = make_model(space, psi3)
                Sser = []
                for n in range(5):
                    Sser.append(sum(psi3[m].dot(psi3[n - m])
                                    for m in range(n + 1)
                                    if m <= 3 and n - m <= 3) % P)
                norm = detspace.series_inv(Sser, 4)
                for n in range(5):
                    try:
                        val = evaluate(model3, gs.norm_factor(n))
                    except Exception as ex:
                        ctx.violation(f"C02:norm-exception:{variant}:{n}",
                                      f"norm_factor({n}) raised {ex!r}", {},
                                      False)
                        continue
                    ctx.case(key=("norm", variant, n, space.seed),
                             nontrivial=n >= 2, kind=f"norm_factor:{variant}")
                    if not ctx.obligation(
                            f"{variant} norm factor order {n} = explicit "
                            f"1/<Psi|Psi> (model {space.seed})",
                            val == norm[n]):
                        ctx.violation(
                            f"C02:norm_factor:{variant}:order{n}",
                            f"derived normalisation factor of order {n} "
                            "differs from the explicit series of 1/<Psi|Psi>",
                            {"variant": variant, "order": n,
                             "model": {"nocc": 3, "nvirt": 3,
                                       "seed": space.seed},
                             "derived": val, "explicit": norm[n],
                             "expression": str(gs.norm_factor(n))[:600]},
                            True)
            # one-particle expectation value (mp)
            if variant == "mp":
                dmat = [[(numeric._h(space.seed, "d", p, q) % 1999 - 999)
                         for q in range(space.n)] for p in range(space.n)]
                modeld = make_model(space, psi, dmat)
                # explicit: N(l)/S(l)
                def Dop(vec):
                    return space.one_body(dmat, vec)
                Nser, Sser = [], []
                for n in range(max_order + 1):
                    Nn = sum(psi[m].dot(Dop(psi[n - m]))
                             for m in range(n + 1)) % P
                    Sn = sum(psi[m].dot(psi[n - m])
                             for m in range(n + 1)) % P
                    Nser.append(Nn)
                    Sser.append(Sn)
                ratio = detspace.series_mul(
                    Nser, detspace.series_inv(Sser, max_order), max_order)
                for n in range(max_order + 1):
                    try:
                        ev = gs.expectation_value(n, 1)
                        val = evaluate(modeld, ev)
                    except Exception as ex:
                        ctx.violation(f"C02:expectation-exception:{n}",
                                      f"expectation_value({n},1) raised "
                                      f"{ex!r}", {}, False)
                        continue
                    ok = val == ratio[n]
                    ctx.case(key=("expectation", n, space.seed),
                             nontrivial=n >= 2, kind="expectation_value")
                    if not ctx.obligation(
                            f"one-particle expectation value order {n} "
                            f"(model {space.seed})", ok):
                        ctx.violation(
                            f"C02:expectation_value:order{n}",
                            f"derived expectation value of order {n} differs "
                            "from the explicit <Psi|D|Psi>/<Psi|Psi> series",
                            {"order": n, "derived": val,
                             "explicit": ratio[n],
                             "model": {"nocc": 3, "nvirt": 3,
                                       "seed": space.seed}}, True)


def replay(ctx, rep):
    print(rep)
    return 0
