"""C02 - ground-state perturbation theory agrees with explicit
determinant-space RSPT."""
import itertools
import sys
import time
from sympy import S
import adcgen
from adcgen.expr_container import Expr
from adcgen.indices import get_symbols
import adcio
import detspace
import equivcheck as EQ
import numeric
from numeric import P, inv

LEVEL = "proof"
RULE = ("for each partitioning (mp, re), order n and excitation class: the "
        "derived energy / amplitude / residual / normalisation factor "
        "(orders 0-4) / expectation-value "
        "expression is evaluated on model Hamiltonians (3 occupied + 3 "
        "virtual spin orbitals = 20 determinants, random real "
        "antisymmetrised integrals, canonical HF orbital energies for mp, "
        "general block structure for re) with the lower-order amplitudes "
        "taken from the explicit perturbed wavefunctions, and compared with "
        "RSPT carried out by linear algebra in determinant space "
        "(harness/detspace.py, exact arithmetic mod a 61-bit prime); the "
        "order bookkeeping function gen_term_orders is compared with its "
        "Gallina model exhaustively for small arguments.  Non-trivial: "
        "order >= 1; distinct by (quantity, order, class, model, indices)")
TRUSTED = ["harness/detspace.py: construction of the H0/H1 matrices in "
           "determinant space (the linear solver is not trusted: the "
           "perturbation series is certified by the Coq checker rspt_ok on "
           "every run) and harness/numeric.py (expression evaluator)",
           "the per-run comparison with explicit RSPT is exact evaluation on "
           "sampled model Hamiltonians, not a proof over all Hamiltonians; "
           "the theorems proved are listed in the manifest"]
ASSUMPTIONS = [
    "the semantic link 'Wick evaluation = determinant-space expectation "
    "value' for arbitrary tensor coefficients is theorem C01_wicks_value; "
    "the inductive RSPT chain (amplitude tensors of order < n are the "
    "determinant coefficients) is the hypothesis under which each order is "
    "checked - it is established order by order by the run itself",
    "orders <= 2 (quick; plus third-order singles and triples amplitudes) / "
    "<= 3 (thorough); model spaces with 3+3 spin "
    "orbitals (quadruples need 4+4: thorough uses one 4+4 model for the "
    "second-order quadruples)",
]

HEADER_PT = """From Coq Require Import List Arith.
From ADC Require Import Models.PT.
Import ListNotations.
"""


def make_model(space, psis, dmat=None):
    """numeric.Model on the orbitals of `space` whose tensors are the
    integrals / explicit amplitudes"""
    def V(model, kind, bks, up, lo):
        if len(up) != 2 or len(lo) != 2:
            return None
        return space.v(up[0], up[1], lo[0], lo[1]) % P

    def e(model, kind, bks, up, lo):
        return space.eps[up[0]] % P

    def f(model, kind, bks, up, lo):
        return space.f[up[0]][lo[0]] % P

    def amp(order):
        def t(model, kind, bks, up, lo):
            if order >= len(psis):
                return 0
            if not all(x >= space.nocc for x in up) or \
                    not all(x < space.nocc for x in lo):
                return 0
            if len(set(up)) != len(up) or len(set(lo)) != len(lo):
                return 0
            return space.amplitude(psis[order], list(up), list(lo))
        return t

    special = {"V": V, "e": e, "f": f}
    for n in range(1, 5):
        special[f"t{n}"] = amp(n)
        special[f"t{n}cc"] = amp(n)
    if dmat is not None:
        if isinstance(dmat, dict):      # two-particle operator d^{pq}_{rs}
            special["d"] = lambda m, k, b, up, lo: dmat.get(
                (up[0], up[1], lo[0], lo[1]), 0) % P
        else:
            special["d"] = lambda m, k, b, up, lo: dmat[up[0]][lo[0]] % P
    return numeric.Model(space.seed, (space.nocc, 0), (space.nvirt, 0),
                         special)


def pyterms(expr):
    ictx = adcio.IdxCtx()
    e = Expr(getattr(expr, "sympy", expr)).expand()
    return adcio.conv_expr(e, ictx), ictx


def evaluate(model, expr, targets=(), values=()):
    terms, ictx = pyterms(expr)
    env = {ictx.conv(s): v for s, v in zip(targets, values)}
    return model.eval_expr(terms, env)


CLASSES = {1: "ph", 2: "pphh", 3: "ppphhh", 4: "pppphhhh"}
NAMES = {1: "ia", 2: "ijab", 3: "ijkabc", 4: "ijklabcd"}


def run(ctx):
    rng = ctx.rng
    quick = ctx.tier == "quick"
    max_order = 2 if quick else 3
    simplify = sys.modules["adcgen.simplify"].simplify

    # ---- gen_term_orders against its Gallina model (exhaustive, small) ------
    from adcgen.func import gen_term_orders
    cases, expect = [], []
    for order in range(0, 7):
        for length in range(0, 4):
            for mn in range(0, 4):
                cases.append(f"gen_term_orders {order} {length} {mn}")
                expect.append(gen_term_orders(order, length, mn))
    vals, errs = ctx.coq_eval("gto", cases, header=HEADER_PT, shard=200)
    for c, v, ex in zip(cases, vals, expect):
        got = None
        if v is not None:
            import re
            body = v.strip()
            rows = re.findall(r"\[([0-9; ]*)\]", body[1:-1]) if body != "[]" \
                else []
            got = [tuple(int(x) for x in r.split(";") if x.strip())
                   for r in rows]
        ok = got == [tuple(t) for t in ex]
        ctx.case(key=c, nontrivial=len(ex) > 1, kind="gen_term_orders")
        if not ctx.obligation(f"model = code: {c}", ok, f"{v} vs {ex}"):
            ctx.violation(f"C02:gen_term_orders:{c}",
                          "gen_term_orders differs from its Gallina model "
                          "(theorem gen_term_orders_spec no longer applies "
                          "to the code)", {"call": c, "model": v,
                                           "implementation": repr(ex)}, True)

    # ---- explicit RSPT (one worker process per derived quantity) ----------
    jobs = []
    for variant in ("mp", "re"):
        seeds = [rng.randrange(1 << 30) for _ in range(2 if quick else 4)]
        for n in range(0, max_order + 1):
            jobs.append(("energy", variant, n, None, seeds))
        amp_orders = list(range(1, max_order + 1))
        for n in amp_orders:
            for k in range(1, min(2 * n, 3) + 1):
                if n == 1 and k == 1:
                    continue
                jobs.append(("amp", variant, n, k, seeds))
        if quick and variant == "mp":
            # third order in the quick tier: the classes in which the
            # recursion subtracts more than one energy/amplitude product
            jobs.append(("amp", variant, 3, 1, seeds[:1]))
            jobs.append(("amp", variant, 3, 3, seeds[:1]))
        if quick and variant == "re":
            # third-order RE residuals (singles, doubles): the first order at
            # which the class k+2 part of the wavefunction couples in
            jobs.append(("amp", variant, 3, 1, seeds[:1]))
            jobs.append(("amp", variant, 3, 2, seeds[:1]))
        jobs.append(("norm", variant, None, None, seeds[:1]))
        # one-particle expectation value through third order (the odd-order
        # normalisation factors first matter at order 3)
        for n in range(4):
            jobs.append(("expect", variant, n, None, seeds))
        # two-particle operator, requested on the SAME GroundState instance
        # after the one-particle expectation values (orders 0-2)
        jobs.append(("expect2", variant, 2, None, seeds[:1]))
    # the explicit series used by the workers are certified inside Coq
    # (Models/RSPTCheck.v, theorem C02_rspt_certificate)
    cert_cases, cert_meta = [], []
    seen = set()
    for kind, variant, n, k, seeds in jobs:
        for seed in seeds:
            if (variant, seed) in seen:
                continue
            seen.add((variant, seed))
            space = detspace.Space(3, 3, seed, canonical=(variant == "mp"))
            E, psi = space.rspt(variant, 3)
            cert_cases.append(detspace.rspt_cert_term(space, E, psi, 3))
            cert_meta.append((variant, seed))
    vals, errs = ctx.coq_eval("rspt", cert_cases,
                              header=detspace.RSPT_HEADER, shard=4)
    for (variant, seed), v in zip(cert_meta, vals):
        ctx.case(key=("rspt-certificate", variant, seed), nontrivial=True,
                 kind="rspt-certificate")
        if not ctx.obligation(f"explicit {variant} RSPT series of model "
                              f"{seed} accepted by rspt_ok (orders 0-3)",
                              v == "true", str(v)):
            ctx.violation(f"C02:explicit-engine:{variant}",
                          "the explicit determinant-space perturbation "
                          "series is rejected by the verified checker "
                          "rspt_ok (harness/detspace.py is wrong)",
                          {"variant": variant, "seed": seed}, False)
    import concurrent.futures as cf
    import multiprocessing as mp_
    with cf.ProcessPoolExecutor(max_workers=12,
                                mp_context=mp_.get_context("fork")) as ex:
        results = list(ex.map(_job, [(j, quick) for j in jobs]))
    for job, res in zip(jobs, results):
        for r in res:
            if r["type"] == "note":
                ctx.note(r["text"])
                continue
            if r["type"] == "exception":
                ctx.violation(r["key"], r["what"], {}, False)
                continue
            ctx.case(key=tuple(r["case_key"]), nontrivial=r["nontrivial"],
                     kind=r["kind"], sample=r.get("sample"))
            if not ctx.obligation(r["name"], r["ok"]):
                ctx.violation(r["key"], r["what"], r["replay"], True)


def _job(arg):
    """derive one quantity and compare it with explicit RSPT on the model
    Hamiltonians of the given seeds; runs in a worker process"""
    (kind, variant, n, k, seeds), quick = arg
    out = []
    t0 = time.time()
    gs = adcgen.GroundState(adcgen.Operators(variant=variant))
    need = {"energy": n, "amp": n, "norm": 3, "expect": n,
            "expect2": n}[kind] or 0
    need = max(need, 1)
    rng = __import__("random").Random(hash((kind, variant, n, k)) & 0xffff)
    try:
        if kind == "energy":
            expr = gs.energy(n)
        elif kind == "amp":
            names = NAMES[k]
            if variant == "mp":
                expr = gs.amplitude(n, CLASSES[k], names)
            else:
                expr = gs.amplitude_residual(n, CLASSES[k], names)
            expr = Expr(expr).expand()
        elif kind == "norm":
            expr = [gs.norm_factor(m) for m in range(5)]
        elif kind == "expect2":
            one = [gs.expectation_value(m, 1) for m in range(n + 1)]
            expr = [gs.expectation_value(m, 2) for m in range(n + 1)]
            one_again = [gs.expectation_value(m, 1) for m in range(n + 1)]
            if [str(a) for a in one] != [str(b) for b in one_again]:
                return [{"type": "exception",
                         "key": f"C02:expectation-not-stable:{variant}",
                         "what": "one-particle expectation value changed "
                                 "after a two-particle request on the same "
                                 "instance"}]
        else:
            expr = gs.expectation_value(n, 1)
    except Exception as ex:
        return [{"type": "exception",
                 "key": f"C02:{kind}-exception:{variant}:{n}:{k}",
                 "what": f"{kind} derivation raised {ex!r}"}]
    out.append({"type": "note", "text": f"derive {kind} {variant} n={n} "
                f"k={k}: {time.time() - t0:.1f}s"})
    for seed in seeds:
        space = detspace.Space(3, 3, seed, canonical=(variant == "mp"))
        E, psi = space.rspt(variant, need)
        model = make_model(space, psi)
        mdl = {"nocc": 3, "nvirt": 3, "seed": seed}
        if kind == "energy":
            val = evaluate(model, expr)
            out.append({
                "type": "case", "case_key": ("energy", variant, n, seed),
                "nontrivial": n >= 1, "kind": f"energy:{variant}",
                "sample": {"quantity": f"E({n}) {variant}",
                           "model_seed": seed, "value_mod_P": val},
                "name": f"{variant} energy order {n} = explicit RSPT (model "
                        f"{seed})", "ok": val == E[n] % P,
                "key": f"C02:energy:{variant}:order{n}",
                "what": f"derived {variant} energy of order {n} differs "
                        "from explicit determinant-space RSPT",
                "replay": {"variant": variant, "order": n, "model": mdl,
                           "derived": val, "explicit": E[n] % P,
                           "expression": str(expr)[:600]}})
        elif kind == "amp":
            syms = get_symbols(NAMES[k])
            combos = [(o, v) for o in itertools.combinations(space.occ, k)
                      for v in itertools.combinations(space.virt, k)]
            nmax = 4 if quick else 9
            if len(combos) > nmax:
                combos = rng.sample(combos, nmax)
            what = "amplitude" if variant == "mp" else "residual"
            for o, v in combos:
                val = evaluate(model, expr, list(syms), list(o) + list(v))
                want = space.amplitude(psi[n], list(v), list(o)) \
                    if variant == "mp" else 0
                out.append({
                    "type": "case",
                    "case_key": (what, variant, n, k, seed, o, v),
                    "nontrivial": True,
                    "kind": f"{what}:{variant}:{n}:{CLASSES[k]}",
                    "sample": {"quantity": f"{what} order {n} {CLASSES[k]}",
                               "occ": o, "virt": v, "value_mod_P": val},
                    "name": f"{variant} {what} order {n} {CLASSES[k]} "
                            f"{o}{v} (model {seed})",
                    "ok": val == want % P,
                    "key": f"C02:{what}:{variant}:order{n}:{CLASSES[k]}",
                    "what": f"derived {variant} {what} of order {n} "
                            f"({CLASSES[k]}) disagrees with the explicit "
                            "perturbed wavefunction",
                    "replay": {"variant": variant, "order": n,
                               "class": CLASSES[k], "occ": o, "virt": v,
                               "model": mdl, "derived": val,
                               "explicit": want % P}})
        elif kind == "norm":
            # 1/<Psi|Psi> to fourth order (needs the explicit wavefunctions
            # to third order; S^(2)*S^(2) first shows up at order 4)
            Sser = [sum(psi[m].dot(psi[q - m]) for m in range(q + 1)
                        if m <= 3 and q - m <= 3) % P for q in range(5)]
            norm = detspace.series_inv(Sser, 4)
            for q in range(5):
                val = evaluate(model, expr[q])
                out.append({
                    "type": "case", "case_key": ("norm", variant, q, seed),
                    "nontrivial": q >= 2, "kind": f"norm_factor:{variant}",
                    "name": f"{variant} norm factor order {q} = explicit "
                            f"1/<Psi|Psi> (model {seed})",
                    "ok": val == norm[q],
                    "key": f"C02:norm_factor:{variant}:order{q}",
                    "what": f"derived normalisation factor of order {q} "
                            "differs from the explicit series of "
                            "1/<Psi|Psi>",
                    "replay": {"variant": variant, "order": q, "model": mdl,
                               "derived": val, "explicit": norm[q],
                               "expression": str(expr[q])[:600]}})
        elif kind == "expect2":
            d2 = {}
            for p_, q_ in itertools.combinations(range(space.n), 2):
                for r_, s_ in itertools.combinations(range(space.n), 2):
                    v = numeric._h(seed, "d2", p_, q_, r_, s_) % 199 - 99
                    for (a_, b_, s1) in ((p_, q_, 1), (q_, p_, -1)):
                        for (c_, e_, s2) in ((r_, s_, 1), (s_, r_, -1)):
                            d2[(a_, b_, c_, e_)] = s1 * s2 * v
            model2 = make_model(space, psi, d2)
            Nser, Sser = [], []
            for q in range(n + 1):
                Nser.append(sum(psi[m].dot(space.two_body_ten(d2, psi[q - m]))
                                for m in range(q + 1)) % P)
                Sser.append(sum(psi[m].dot(psi[q - m])
                                for m in range(q + 1)) % P)
            ratio = detspace.series_mul(
                Nser, detspace.series_inv(Sser, n), n)
            for q in range(n + 1):
                try:
                    val = evaluate(model2, expr[q])
                except Exception as ex:     # e.g. a one-particle operator
                    val = f"not evaluable as two-particle expression: {ex!r}"
                out.append({
                    "type": "case", "case_key": ("expectation2", q, seed),
                    "nontrivial": True, "kind": "expectation_value_2p",
                    "name": f"{variant} two-particle expectation value "
                            f"order {q} (model {seed})",
                    "ok": val == ratio[q],
                    "key": f"C02:expectation_value_2particle:{variant}:"
                           f"order{q}",
                    "what": f"derived two-particle expectation value of "
                            f"order {q} (requested after the one-particle "
                            "ones on the same instance) differs from the "
                            "explicit series",
                    "replay": {"order": q, "n_particles": 2, "derived": val,
                               "explicit": ratio[q], "model": mdl}})
        else:
            dmat = [[(numeric._h(seed, "d", p_, q_) % 1999 - 999)
                     for q_ in range(space.n)] for p_ in range(space.n)]
            modeld = make_model(space, psi, dmat)
            Nser, Sser = [], []
            for q in range(n + 1):
                Nser.append(sum(psi[m].dot(space.one_body(dmat, psi[q - m]))
                                for m in range(q + 1)) % P)
                Sser.append(sum(psi[m].dot(psi[q - m])
                                for m in range(q + 1)) % P)
            ratio = detspace.series_mul(
                Nser, detspace.series_inv(Sser, n), n)
            val = evaluate(modeld, expr)
            out.append({
                "type": "case", "case_key": ("expectation", n, seed),
                "nontrivial": n >= 2, "kind": "expectation_value",
                "name": f"one-particle expectation value order {n} (model "
                        f"{seed})", "ok": val == ratio[n],
                "key": f"C02:expectation_value:order{n}",
                "what": f"derived expectation value of order {n} differs "
                        "from the explicit <Psi|D|Psi>/<Psi|Psi> series",
                "replay": {"order": n, "derived": val, "explicit": ratio[n],
                           "model": mdl}})
    return out


def replay(ctx, rep):
    print(rep)
    return 0
