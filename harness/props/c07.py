"""C07 - simplify preserves the value and merges alpha-equivalent terms."""
import sys
from sympy import Add, Mul, S, Rational
from adcgen.expr_container import Expr
from adcgen.indices import Index
import gen_terms as G
import equivcheck as EQ
import derivations

LEVEL = "proof"
RULE = ("random sums of tensor products (classes of alpha-variants with known "
        "class count, near-misses, rewired copies (same tensors, other wiring "
        "of the contracted indices), repeated tensors, deltas, denominators as "
        "symbolic tensors, explicit/Einstein targets) and simplify calls "
        "captured from real derivations; a case is non-trivial if the input "
        "has >= 2 terms; distinct = distinct (input, targets) text")
TRUSTED = ["certificate finder harness/certfind.py is untrusted (Coq "
           "re-checks every certificate); a missing certificate is reported "
           "as a violation without failing input"]
ASSUMPTIONS = ["tensor models respect the symmetries declared by the tensor "
               "classes (ADC.Core.Canon.respects)",
               "completeness (all alpha-equivalent terms merged) is decided "
               "against the class count known by construction for generated "
               "inputs and by kernel-checked merging of output terms; it is "
               "not proved for arbitrary inputs"]


def simplify_fn():
    return sys.modules["adcgen.simplify"].simplify


def gen_case(rng, n):
    """sum with known number of alpha-equivalence classes"""
    no, nv = rng.randint(3, 4), rng.randint(3, 4)
    occ, virt = G.pool("o", 7), G.pool("v", 8)
    ntg_o, ntg_v = rng.choice([(0, 0), (1, 1), (2, 2), (1, 0), (2, 0)])
    tg = occ[:ntg_o] + virt[:ntg_v]
    pools = {"o": occ[:ntg_o + no], "v": virt[:ntg_v + nv]}
    fresh = {"o": occ[ntg_o:], "v": virt[ntg_v:]}
    if rng.random() < 0.4:
        # targets named with late letters: contracted names sort before the
        # targets inside the index groups
        tg = occ[7 - ntg_o:] + virt[8 - ntg_v:]
        pools = {"o": occ[:no] + occ[7 - ntg_o:],
                 "v": virt[:nv] + virt[8 - ntg_v:]}
        fresh = {"o": occ[:7 - ntg_o], "v": virt[:8 - ntg_v]}
    n_classes = rng.randint(1, 4)
    terms, expected = [], 0
    tags = ["Q1", "Q2", "Q3", "Q4"]
    for k in range(n_classes):
        nt = rng.randint(1, 4)
        base = G.random_term(rng, nt, pools, deltas=rng.choice([0, 0, 0, 1]),
                             allow_pow=True)
        if base == 0:
            continue
        # class tag: a tensor carrying no contracted index, distinct name
        base = base * G.NonSymmetricTensor(tags[k], tuple(tg[:1]))
        con = [s for s in base.atoms(Index) if s not in tg]
        by = {"o": [s for s in con if s.space == "occ"],
              "v": [s for s in con if s.space == "virt"]}
        tot = 0
        for _ in range(rng.randint(1, 4)):
            c = G.random_coef(rng)
            v = G.alpha_variant(rng, base, by, fresh)
            # the variant may differ from base by a sign (canonical order)
            terms.append(c * v)
        # class coefficient: determined by the validator, not here
        expected += 1
    e = Add(*terms)
    return e, tg, n_classes


def near_miss(rng):
    occ, virt = G.pool("o", 6), G.pool("v", 6)
    tg = [occ[0], virt[0]]
    pools = {"o": occ[:4], "v": virt[:4]}
    base = G.random_term(rng, rng.randint(2, 3), pools)
    other = G.random_term(rng, rng.randint(2, 3), pools)
    idxs = sorted(base.atoms(Index), key=lambda s: s.name)
    if len(idxs) >= 2:
        a, b = rng.sample(idxs, 2)
        if a.space == b.space:
            moved = base.xreplace({a: b})
        else:
            moved = other
    else:
        moved = other
    e = G.random_coef(rng) * base + G.random_coef(rng) * moved \
        + G.random_coef(rng) * other
    return e, tg


def einstein_ok(e, tg):
    """True if the summation convention (index occurs once = target) gives
    exactly the targets tg in every term"""
    import adcio
    try:
        terms = adcio.conv_expr(e)
    except adcio.Unsupported:
        return False
    ictx = adcio.IdxCtx()
    tgs = {ictx.conv(x) for x in tg}
    for t in terms:
        cnt = {}
        for i in adcio.term_indices(t):
            cnt[i] = cnt.get(i, 0) + 1
        if {i for i, n in cnt.items() if n == 1} != tgs:
            return False
    return True


def rewired(rng):
    """two or three terms built from the same tensors with different wiring
    of the contracted indices (same descriptions and index counts, alpha-
    equivalent or not): T^{ab}_{xy} P_{..} Q_{..} with the multiset
    {x, y, z, z} distributed over the four slots of P and Q, random naming"""
    from adcgen.sympy_objects import (Amplitude, AntiSymmetricTensor,
                                      NonSymmetricTensor)
    occ, virt = G.pool("o", 6), G.pool("v", 6)
    a, b = virt[0], virt[1]
    tg = [a, b]
    sp = rng.choice(["o", "v"])
    terms = []
    kindT = rng.choice(["amp", "anti"])
    for _ in range(rng.choice([2, 2, 3])):
        if sp == "o":
            x, y, z = rng.sample(occ[:4], 3)
            T = G.make_tensor("t1" if kindT == "amp" else "V", kindT,
                              (a, b), (x, y), 0)
        else:
            x, y, z = rng.sample(virt[2:6], 3)
            T = G.make_tensor("A", "anti", (x, y), (a, b), 0) \
                * NonSymmetricTensor("w", (a, b))
            tg = []
        slots = [x, y, z, z]
        rng.shuffle(slots)
        terms.append(G.random_coef(rng) * T
                     * NonSymmetricTensor("Pa", (slots[0], slots[1]))
                     * NonSymmetricTensor("Pb", (slots[2], slots[3])))
    return Add(*terms), tg


def rewire_generic(rng):
    """base + copy of base in which two indices of one space are exchanged
    inside a single tensor only"""
    occ, virt = G.pool("o", 6), G.pool("v", 6)
    tg = [occ[0], virt[0]]
    pools = {"o": occ[:4], "v": virt[:4]}
    base = G.random_term(rng, rng.randint(2, 3), pools)
    facs = list(Mul.make_args(base))
    tens = [f for f in facs if f.atoms(Index)]
    if not tens:
        return base, tg
    f = rng.choice(tens)
    mine = sorted(f.atoms(Index), key=lambda s_: s_.name)
    a = rng.choice(mine)
    cand = [x for x in base.atoms(Index) if x.space == a.space and x != a]
    if not cand:
        return base, tg
    b = rng.choice(sorted(cand, key=lambda s_: s_.name))
    g = f.xreplace({a: b, b: a})
    other = Mul(*[g if h is f else h for h in facs])
    return G.random_coef(rng) * base + G.random_coef(rng) * other, tg


def run(ctx):
    rng = ctx.rng
    simplify = simplify_fn()
    quick = ctx.tier == "quick"
    n_gen = 120 if quick else 600
    n_miss = 60 if quick else 300
    pairs, info = [], []

    def add(E, label, meta=None):
        try:
            out = simplify(E)
        except Exception as ex:
            ctx.violation(f"C07:exception:{label}",
                          f"simplify raised {ex!r}",
                          {"input": str(E), "label": label}, True)
            return
        tg = E.provided_target_idx
        if tg is None:
            tg = E.terms[0].target if E.sympy != 0 else ()
        p = EQ.Pair(E, out, tg, label, meta=meta)
        pairs.append(p)
        info.append((E, out))

    for n in range(n_gen):
        e, tg, ncls = gen_case(rng, n)
        if e == 0:
            continue
        if einstein_ok(e, tg) and rng.random() < 0.5:
            E = Expr(e)
        else:
            E = Expr(e, target_idx=tg)
        add(E, f"gen{n}", {"classes": ncls})
    for n in range(n_miss):
        e, tg = near_miss(rng)
        if e == 0:
            continue
        add(Expr(e, target_idx=tg), f"miss{n}")
    for n in range(n_miss * 2):
        e, tg = rewired(rng) if n % 2 else rewire_generic(rng)
        if e == 0:
            continue
        add(Expr(e, target_idx=tg), f"rewire{n}")
    # explicitly declared EMPTY target list with contracted indices that
    # occur once per term (the summation convention alone would call them
    # targets)
    from adcgen.sympy_objects import NonSymmetricTensor as _NST
    for n in range(6 if quick else 30):
        occ, virt = G.pool("o", 6), G.pool("v", 6)
        i_, j_, k_ = rng.sample(occ[:5], 3)
        a_ = rng.choice(virt[:3])
        e = (G.random_coef(rng) * _NST("X", (i_, j_)) * _NST("Y", (j_,))
             + G.random_coef(rng) * _NST("X", (i_, k_)) * _NST("Y", (k_,)))
        if n % 2:
            e = e * _NST("Z", (a_,))
        add(Expr(e, target_idx=[]), f"emptytg{n}")
    # bra-ket (anti)symmetric tensor with two target indices in opposite
    # groups, each next to a contracted index; the second term exchanges the
    # contracted indices on a non-symmetric remainder (the two terms are NOT
    # equivalent: merging them changes the value)
    from adcgen.sympy_objects import (AntiSymmetricTensor as _AST,
                                      SymmetricTensor as _ST)
    n_bk = 0
    for cls_, nm_, bks_ in ((_AST, "d", 1), (_AST, "d", -1), (_ST, "L", 1),
                            (_AST, "V", 1), (_AST, "d", 0)):
        for spx in ("oo", "ov"):
            occ, virt = G.pool("o", 6), G.pool("v", 6)
            x_, y_ = (occ[0], occ[1])
            c1, c2 = (virt[0], virt[1]) if spx == "ov" else (occ[2], occ[3])
            T = cls_(nm_, (x_, c1), (y_, c2), bks_)
            Xa = _NST("X", (c1, c2))
            Xb = _NST("X", (c2, c1))
            for sg in (1, -1):
                e = G.random_coef(rng) * T * Xa + sg * G.random_coef(rng) \
                    * T * Xb
                if e == 0:
                    continue
                for tgx in ([x_, y_], None):
                    add(Expr(e, target_idx=tgx) if tgx is not None
                        else Expr(e), f"braket-targets{n_bk}")
                    n_bk += 1
    for label, E in derivations.captured_simplify_inputs(ctx, quick):
        add(E, label)

    EQ.run_pairs(ctx, "equiv", pairs, shard=30)
    # completeness: kernel-checked merging of output terms
    merge_cases = []
    for p in pairs:
        if p.p2 is None:
            merge_cases.append("None")
            continue
        import adcio, certfind
        c2, _ = certfind.expr_cert(p.p2, p.tg)
        tg = adcio.coq_list(x.coq() for x in p.tg)
        merge_cases.append(f"merged_size {tg} {adcio.coq_cert(c2)} "
                           f"{adcio.coq_expr(p.p2)}")
    mvals, _ = ctx.coq_eval("merge", merge_cases, shard=60)

    for p, (E, out), mv in zip(pairs, info, mvals):
        n_in = len(p.p1) if p.p1 is not None else None
        n_out = len(p.p2) if p.p2 is not None else None
        ctx.case(key=(str(E.sympy), repr(p.tg)),
                 nontrivial=(n_in or 0) >= 2,
                 sample={"label": p.label, "in": str(E.sympy)[:300],
                         "out": str(out.sympy)[:300],
                         "targets": repr(p.tg)},
                 kind=f"{p.label.rstrip('0123456789')}:in{min(n_in or 0, 9)}")
        if p.ok is None:
            ctx.note(f"{p.label}: {p.err}")
            continue
        okv = ctx.obligation(f"simplify value {p.label}", p.ok, p.err)
        if not okv:
            ctx.violation(
                f"C07:value:{p.label}",
                "simplify output not proved equal in value to its input",
                {"case": EQ.describe(p), "difference": p.diff,
                 "correspondence": "check_equiv (Core/Equiv.v) rejected the "
                 "pair"}, p.diff is not None)
        # structural clauses
        # compared on the stored attributes, not only through the
        # `assumptions` property (both sides of that comparison would go
        # through the same code): an explicitly empty target tuple is not
        # "no targets given"
        def _tg(x):
            t_ = x.provided_target_idx
            return None if t_ is None else tuple(t_)

        def _term_targets(x):
            return {tuple(sorted(str(i) for i in t_.target))
                    for t_ in x.terms} if x.sympy != 0 else set()
        same_assump = (out.assumptions == E.assumptions
                       and _tg(out) == _tg(E)
                       and out.real == E.real
                       and tuple(out.sym_tensors) == tuple(E.sym_tensors)
                       and tuple(out.antisym_tensors)
                       == tuple(E.antisym_tensors)
                       and _term_targets(out) <= _term_targets(E))
        if not ctx.obligation(f"simplify keeps targets/assumptions {p.label}",
                              same_assump):
            ctx.violation(f"C07:assumptions:{p.label}",
                          "simplify changed target indices or assumptions",
                          {"case": EQ.describe(p),
                           "in": repr(E.assumptions),
                           "out": repr(out.assumptions)}, True)
        if not ctx.obligation(f"simplify no more terms {p.label}",
                              n_out <= n_in):
            ctx.violation(f"C07:length:{p.label}",
                          "simplify returned more terms than its input",
                          {"case": EQ.describe(p)}, True)
        # completeness
        if mv is not None and mv.startswith("Some"):
            msize = int(mv.split()[1].rstrip("%nat"))
            if not ctx.obligation(f"simplify output has no mergeable pair "
                                  f"{p.label}", msize == n_out):
                ctx.violation(
                    f"C07:unmerged:{p.label}",
                    "two terms of the simplify output are alpha-equivalent "
                    "(kernel-checked renaming merges them)",
                    {"case": EQ.describe(p), "terms_out": n_out,
                     "distinct_after_renaming": msize}, True)
        ncls = p.meta.get("classes")
        if ncls is not None and n_out is not None and n_out > ncls:
            ctx.obligation(f"class count {p.label}", False)
            ctx.violation(
                f"C07:classcount:{p.label}",
                f"input built from {ncls} alpha-equivalence classes but "
                f"simplify returned {n_out} terms",
                {"case": EQ.describe(p)}, True)


def replay(ctx, rep):
    print(rep)
    return 0
