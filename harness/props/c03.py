"""C03 - secular matrix equals <I|H-E0|J> over explicitly built intermediate
states."""
import itertools
import sys
import time
from sympy import sqrt, Rational
from math import factorial
import adcgen
from adcgen.expr_container import Expr
from adcgen.indices import get_symbols, n_ov_from_space
import adcio
import detspace
import isr_explicit
import equivcheck as EQ
import numeric
from numeric import P
from props.c02 import make_model, evaluate

LEVEL = "proof"
RULE = ("for ADC variants pp/ip/ea (dip/dea thorough), blocks and orders "
        "listed in the evidence: (i) the derived secular-matrix element is "
        "evaluated on model Hamiltonians (3+3 spin orbitals, canonical HF, "
        "amplitude tensors = explicit RSPT coefficients) for sampled bra/ket "
        "index assignments and compared with the same-order coefficient of "
        "<I|H-E0|J> between intermediate states constructed explicitly in "
        "determinant space (excitation operators on the normalised perturbed "
        "ground state, Gram-Schmidt against ground state / lower classes, "
        "S^{-1/2}; harness/isr_explicit.py, exact arithmetic mod a 61-bit "
        "prime); (ii) block(I,J) against the transposed bra/ket-swapped "
        "block(J,I) in a real basis and (iii) the matrix-vector product "
        "against prefactor * block * amplitude vector, both decided by the "
        "Coq validator for all Hamiltonians; (iv) block_order / "
        "max_ptorder_spaces against closed forms.  Non-trivial: order >= 1 "
        "or coupling block; distinct by (variant, block, order, model, "
        "indices)")
TRUSTED = ["harness/detspace.py, harness/isr_explicit.py (independent "
           "explicit construction), harness/numeric.py",
           "clause (i) is exact evaluation on sampled model Hamiltonians, "
           "not a proof over all Hamiltonians"]
ASSUMPTIONS = [
    "mp partitioning, canonical HF reference",
    "blocks/orders: quick pp ph,ph 0-2; ph,pphh and pphh,ph 1; pphh,pphh 0; "
    "ip h,h and ea p,p 0-2; thorough adds ph,ph 3, ip/ea couplings to "
    "hhp/pph order 1 and their diagonal order 0, dip/dea order <= 1; "
    "subtract_gs=False on the same instance for the lowest diagonal block "
    "(quick orders 0 and 2, thorough all)",
    "partial: the general statement for all orders is not a Coq theorem; "
    "the Wick step of every matrix element is covered by C01",
]

NAMES = {"ph": ("ia", "kc"), "pphh": ("ijab", "klcd"), "h": ("i", "k"),
         "p": ("a", "c"), "hhp": ("ija", "klc"), "pph": ("iab", "kcd"),
         "hh": ("ij", "kl"), "pp": ("ab", "cd")}


def plan(quick):
    P_ = [("pp", "ph", "ph", 0), ("pp", "ph", "ph", 1), ("pp", "ph", "ph", 2),
          ("pp", "ph", "pphh", 1), ("pp", "pphh", "ph", 1),
          ("pp", "pphh", "pphh", 0),
          ("ip", "h", "h", 0), ("ip", "h", "h", 1), ("ip", "h", "h", 2),
          ("ea", "p", "p", 0), ("ea", "p", "p", 1), ("ea", "p", "p", 2)]
    if not quick:
        P_ += [("pp", "ph", "ph", 3), ("pp", "pphh", "pphh", 1),
               ("pp", "ph", "pphh", 2), ("pp", "pphh", "ph", 2),
               ("ip", "h", "hhp", 1), ("ip", "hhp", "h", 1),
               ("ip", "hhp", "hhp", 0), ("ea", "p", "pph", 1),
               ("ea", "pph", "p", 1), ("ea", "pph", "pph", 0),
               ("dip", "hh", "hh", 0), ("dip", "hh", "hh", 1),
               ("dea", "pp", "pp", 0), ("dea", "pp", "pp", 1)]
    return P_


def split(space, names):
    syms = get_symbols(names)
    occ = [s for s in syms if s.space == "occ"]
    virt = [s for s in syms if s.space == "virt"]
    return occ, virt


def run(ctx):
    rng = ctx.rng
    quick = ctx.tier == "quick"
    todo = plan(quick)
    max_order = max(o for *_, o in todo)
    gs = adcgen.GroundState(adcgen.Operators())
    mats = {}
    for variant in sorted({v for v, *_ in todo}):
        isr = adcgen.IntermediateStates(gs, variant)
        mats[variant] = adcgen.SecularMatrix(isr)

    # ---- (iv) bookkeeping closed forms ----------------------------------
    for variant, m in mats.items():
        for adc in range(0, 6):
            bo = m.block_order(adc)
            mx = m.max_ptorder_spaces(adc)
            mn = m.isr.min_space[0]
            ok = True
            for (s1, s2), o in bo.items():
                k1 = (len(s1) - len(mn)) // 2
                k2 = (len(s2) - len(mn)) // 2
                want = adc - k1 - k2 if s1 != s2 else adc - 2 * k1
                if s1 != s2:
                    want = adc - min(k1, k2) * 2 - abs(k1 - k2)
                ok = ok and (o == want) and bo[(s2, s1)] == o
            ok = ok and all(mx[s] == adc - (len(s) - len(mn)) // 2
                            for s in mx)
            ctx.case(key=("block_order", variant, adc), kind="block_order")
            if not ctx.obligation(f"block_order closed form {variant} "
                                  f"ADC({adc})", ok, repr(bo)):
                ctx.violation(f"C03:block_order:{variant}:{adc}",
                              "block_order / max_ptorder_spaces deviate from "
                              "the closed form or are not symmetric",
                              {"variant": variant, "adc_order": adc,
                               "block_order": {str(k): v
                                               for k, v in bo.items()}}, True)

    # ---- (i) explicit intermediate states -------------------------------
    n_models = 1 if quick else 2
    exprs = {}
    for mi in range(n_models):
        space = detspace.Space(3, 3, rng.randrange(1 << 30), canonical=True)
        E, psi = space.rspt("mp", max_order)
        model = make_model(space, psi)
        isrs = {}
        for variant, bs, ks, order in todo:
            if variant not in isrs:
                t0 = time.time()
                isrs[variant] = isr_explicit.ISR(space, psi, E, variant,
                                                 max_order, n_classes=2)
                ctx.note(f"explicit ISR {variant}: {time.time() - t0:.1f}s")
            X = isrs[variant]
            if bs not in X.classes or ks not in X.classes:
                continue
            key = (variant, bs, ks, order)
            if key not in exprs:
                t0 = time.time()
                try:
                    exprs[key] = mats[variant].isr_matrix_block(
                        order, f"{bs},{ks}", NAMES[bs][0] + "," + NAMES[ks][1])
                except Exception as ex:
                    ctx.violation(f"C03:block-exception:{key}",
                                  f"isr_matrix_block raised {ex!r}", {}, False)
                    exprs[key] = None
                ctx.note(f"derive {key}: {time.time() - t0:.1f}s")
            expr = exprs[key]
            if expr is None:
                continue
            bo, bv = split(bs, NAMES[bs][0])
            ko, kv = split(ks, NAMES[ks][1])
            pairs = [(I, J) for I in range(len(X.configs[bs]))
                     for J in range(len(X.configs[ks]))]
            n_s = 6 if quick else 14
            if len(pairs) > n_s:
                # prefer pairs of configurations that share orbitals (delta
                # terms only show there), plus a few arbitrary ones
                def shared(IJ):
                    (o1, v1), (o2, v2) = X.configs[bs][IJ[0]], \
                        X.configs[ks][IJ[1]]
                    return len(set(o1) & set(o2)) + len(set(v1) & set(v2))
                ranked = sorted(pairs, key=lambda IJ: -shared(IJ))
                top = ranked[:max(1, len(ranked) // 4)]
                pairs = rng.sample(top, min(len(top), n_s - 2)) + \
                    rng.sample(pairs, 2)
            # the same instance asked with subtract_gs=False after the
            # default: lowest diagonal block (the two differ by E0^(n) on the
            # diagonal)
            lowest = isr_explicit.CLASSES[variant][0][0]
            if bs == ks == lowest and (not quick or order in (0, 2)):
                ukey = key + ("unshifted",)
                if ukey not in exprs:
                    try:
                        exprs[ukey] = mats[variant].isr_matrix_block(
                            order, f"{bs},{ks}",
                            NAMES[bs][0] + "," + NAMES[ks][1],
                            subtract_gs=False)
                    except Exception as ex:
                        ctx.violation(f"C03:block-exception:{ukey}",
                                      f"isr_matrix_block raised {ex!r}", {},
                                      False)
                        exprs[ukey] = None
                if exprs[ukey] is not None:
                    diag = [(I, I) for I in range(len(X.configs[bs]))]
                    for I, J in rng.sample(diag, 2) + pairs[:2]:
                        (oi, vi), (oj, vj) = X.configs[bs][I], \
                            X.configs[ks][J]
                        val = evaluate(model, exprs[ukey], bo + bv + ko + kv,
                                       list(oi) + list(vi) + list(oj)
                                       + list(vj))
                        want = X.secular(bs, I, ks, J,
                                         subtract_gs=False)[order]
                        ctx.case(key=(ukey, space.seed, I, J),
                                 nontrivial=True,
                                 kind=f"{variant}:{bs},{ks}:{order}:unshifted")
                        if not ctx.obligation(
                                f"{variant} M^({order})[{bs},{ks}] "
                                f"subtract_gs=False {oi}{vi}|{oj}{vj} (model "
                                f"{space.seed})", val == want):
                            ctx.violation(
                                f"C03:secular-unshifted:{variant}:{bs},{ks}:"
                                f"order{order}",
                                "secular matrix element requested with "
                                "subtract_gs=False (after the default request "
                                "on the same instance) differs from <I|H|J> "
                                "between explicitly constructed intermediate "
                                "states",
                                {"variant": variant, "block": f"{bs},{ks}",
                                 "order": order, "subtract_gs": False,
                                 "bra": (oi, vi), "ket": (oj, vj),
                                 "model": {"nocc": 3, "nvirt": 3,
                                           "seed": space.seed},
                                 "derived": val, "explicit": want}, True)
            for I, J in pairs:
                (oi, vi), (oj, vj) = X.configs[bs][I], X.configs[ks][J]
                val = evaluate(model, expr, bo + bv + ko + kv,
                               list(oi) + list(vi) + list(oj) + list(vj))
                want = X.secular(bs, I, ks, J)[order]
                ok = val == want
                ctx.case(key=(key, space.seed, I, J),
                         nontrivial=order >= 1 or bs != ks,
                         sample={"variant": variant, "block": f"{bs},{ks}",
                                 "order": order, "bra": (oi, vi),
                                 "ket": (oj, vj), "value_mod_P": val},
                         kind=f"{variant}:{bs},{ks}:{order}")
                if not ctx.obligation(
                        f"{variant} M^({order})[{bs},{ks}] {oi}{vi}|{oj}{vj} "
                        f"(model {space.seed})", ok):
                    ctx.violation(
                        f"C03:secular:{variant}:{bs},{ks}:order{order}",
                        "derived secular matrix element differs from "
                        "<I|H-E0|J> between explicitly constructed "
                        "intermediate states",
                        {"variant": variant, "block": f"{bs},{ks}",
                         "order": order, "bra": (oi, vi), "ket": (oj, vj),
                         "model": {"nocc": 3, "nvirt": 3, "seed": space.seed},
                         "derived": val, "explicit": want}, True)

    # ---- (ii) transposition, (iii) matrix-vector product (all models) ------
    pairs = []
    for variant, bs, ks, order in todo:
        if order > (1 if quick else 2) and (bs, ks) != ("ph", "ph"):
            continue
        m = mats[variant]
        ib, ik = NAMES[bs][0], NAMES[ks][1]
        try:
            a = m.isr_matrix_block(order, f"{bs},{ks}", f"{ib},{ik}")
            b = m.isr_matrix_block(order, f"{ks},{bs}", f"{ik},{ib}")
        except Exception as ex:
            ctx.note(f"transpose {variant} {bs},{ks} {order}: {ex!r}")
            continue
        tg = get_symbols(ib + ik)
        pr = EQ.Pair(Expr(a, real=True).expand(), Expr(b, real=True).expand(),
                     tg, f"transpose:{variant}:{bs},{ks}:{order}")
        pairs.append(pr)
        ctx.case(key=pr.label, nontrivial=order >= 1, kind="transpose")
        # mvp
        if order <= 1 or (bs, ks) == ("ph", "ph"):
            try:
                mv = m.mvp_block_order(order, bs, f"{bs},{ks}", ib)
            except Exception as ex:
                ctx.note(f"mvp {variant} {bs},{ks} {order}: {ex!r}")
                continue
            y = m.isr.amplitude_vector(indices=ik, lr="right")
            n1, n2 = n_ov_from_space(bs), n_ov_from_space(ks)
            pref = 1 / sqrt(factorial(n1["occ"]) * factorial(n1["virt"])) \
                / sqrt(factorial(n2["occ"]) * factorial(n2["virt"]))
            want = (pref * a * y).expand()
            tg2 = get_symbols(ib)
            pr = EQ.Pair(Expr(mv, target_idx=tg2).expand(),
                         Expr(want, target_idx=tg2).expand(), tg2,
                         f"mvp:{variant}:{bs},{ks}:{order}", deltas=True)
            pairs.append(pr)
            ctx.case(key=pr.label, nontrivial=True, kind="mvp")
    EQ.run_pairs(ctx, "tr", pairs, shard=4)
    for p in pairs:
        if p.ok is None:
            ctx.obligation(f"{p.label}: inside the validator fragment", False,
                           p.err)
            continue
        if not ctx.obligation(p.label, p.ok, p.err):
            ctx.violation(
                f"C03:{p.label}",
                "secular matrix block not proved equal to the transposed "
                "swapped block / matrix-vector product not proved equal to "
                "prefactor * block * amplitude vector",
                {"relation": p.label, "difference": p.diff, "error": p.err,
                 "case": EQ.describe(p, 800)}, p.diff is not None)


def replay(ctx, rep):
    print(rep)
    return 0
