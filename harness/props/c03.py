"""C03 - secular matrix equals <I|H-E0|J> over explicitly built intermediate
states."""
import itertools
import sys
import time
from sympy import sqrt, Rational
from math import factorial
import adcgen
from adcgen.expr_container import Expr
from adcgen.indices import get_symbols, n_ov_from_space
import adcio
import detspace
import isr_explicit
import equivcheck as EQ
import numeric
from numeric import P
from props.c02 import make_model, evaluate

LEVEL = "proof"
RULE = ("for ADC variants pp/ip/ea (dip/dea thorough), blocks and orders "
        "listed in the evidence: (i) the derived secular-matrix element is "
        "evaluated on model Hamiltonians (3+3 spin orbitals, canonical HF, "
        "amplitude tensors = explicit RSPT coefficients) for sampled bra/ket "
        "index assignments and compared with the same-order coefficient of "
        "<I|H-E0|J> between intermediate states constructed explicitly in "
        "determinant space (excitation operators on the normalised perturbed "
        "ground state, Gram-Schmidt against ground state / lower classes, "
        "S^{-1/2}; harness/isr_explicit.py, exact arithmetic mod a 61-bit "
        "prime); (ii) block(I,J) against the transposed bra/ket-swapped "
        "block(J,I) in a real basis and (iii) the matrix-vector product "
        "against prefactor * block * amplitude vector, both decided by the "
        "Coq validator for all Hamiltonians; (iii') mvp(adc_order, space, "
        "order=k) against the sum of the k'th-order block contributions of "
        "ADC(adc_order) and order=None against the sum over k; (iv) "
        "block_order / "
        "max_ptorder_spaces against closed forms.  Non-trivial: order >= 1 "
        "or coupling block; distinct by (variant, block, order, model, "
        "indices)")
TRUSTED = ["harness/detspace.py, harness/isr_explicit.py (independent "
           "explicit construction), harness/numeric.py",
           "clause (i) is exact evaluation on sampled model Hamiltonians, "
           "not a proof over all Hamiltonians"]
ASSUMPTIONS = [
    "mp partitioning, canonical HF reference",
    "blocks/orders: quick: lowest diagonal block orders 0-2 (dip/dea 0-1) "
    "and both coupling blocks to the first satellite class orders 1-2 for "
    "pp/ip/ea/dip/dea, pp pphh,pphh 0; thorough adds ph,ph 3, satellite "
    "diagonal blocks orders 0-1, dip/dea lowest block order 2; "
    "subtract_gs=False on the same instance for the lowest diagonal block "
    "(quick orders 0 and 2, thorough all)",
    "partial: the general statement for all orders is not a Coq theorem; "
    "the Wick step of every matrix element is covered by C01",
]

def _names(space):
    """(bra names, ket names) of an excitation class: disjoint letters"""
    no, nv = space.count("h"), space.count("p")
    return ("ijk"[:no] + "abc"[:nv], "lmn"[:no] + "def"[:nv])


NAMES = {sp: _names(sp) for sp in (
    "ph", "pphh", "ppphhh", "h", "hhp", "hhhpp", "p", "pph", "ppphh", "hh",
    "hhhp", "pp", "ppph")}


def plan(quick):
    P_ = [("pp", "ph", "ph", 0), ("pp", "ph", "ph", 1), ("pp", "ph", "ph", 2),
          ("pp", "ph", "pphh", 1), ("pp", "pphh", "ph", 1),
          ("pp", "ph", "pphh", 2), ("pp", "pphh", "ph", 2),
          ("pp", "pphh", "pphh", 0),
          ("ip", "h", "h", 0), ("ip", "h", "h", 1), ("ip", "h", "h", 2),
          ("ea", "p", "p", 0), ("ea", "p", "p", 1), ("ea", "p", "p", 2),
          ("ip", "h", "hhp", 1), ("ip", "hhp", "h", 1),
          ("ip", "h", "hhp", 2), ("ip", "hhp", "h", 2),
          ("ea", "p", "pph", 1), ("ea", "pph", "p", 1),
          ("ea", "p", "pph", 2), ("ea", "pph", "p", 2),
          ("dip", "hh", "hh", 0), ("dip", "hh", "hh", 1),
          ("dea", "pp", "pp", 0), ("dea", "pp", "pp", 1),
          ("dip", "hh", "hhhp", 1), ("dip", "hhhp", "hh", 1),
          ("dip", "hh", "hhhp", 2), ("dip", "hhhp", "hh", 2),
          ("dea", "pp", "ppph", 1), ("dea", "ppph", "pp", 1),
          ("dea", "pp", "ppph", 2), ("dea", "ppph", "pp", 2),
          # main class / third class (two excitation levels apart): the
          # first-order Hamiltonian can couple them, the block vanishes only
          # after the first-order amplitudes are inserted
          ("ip", "h", "hhhpp", 1), ("ip", "hhhpp", "h", 1),
          ("ea", "p", "ppphh", 1), ("ea", "ppphh", "p", 1)]
    if not quick:
        P_ += [("pp", "ph", "ph", 3), ("pp", "pphh", "pphh", 1),
               ("ip", "hhp", "hhp", 0), ("ea", "pph", "pph", 0),
               ("ip", "hhp", "hhp", 1), ("ea", "pph", "pph", 1),
               ("dip", "hh", "hh", 2), ("dea", "pp", "pp", 2),
               ("dip", "hhhp", "hhhp", 0), ("dea", "ppph", "ppph", 0),
               ("pp", "ph", "ppphhh", 1), ("pp", "ppphhh", "ph", 1),
               ("ip", "hhp", "hhhpp", 1), ("ea", "pph", "ppphh", 1)]
    return P_


def split(space, names):
    syms = get_symbols(names)
    occ = [s for s in syms if s.space == "occ"]
    virt = [s for s in syms if s.space == "virt"]
    return occ, virt


def run(ctx):
    rng = ctx.rng
    quick = ctx.tier == "quick"
    todo = plan(quick)
    max_order = max(o for *_, o in todo)
    gs = adcgen.GroundState(adcgen.Operators())
    mats = {}
    for variant in sorted({v for v, *_ in todo}):
        isr = adcgen.IntermediateStates(gs, variant)
        mats[variant] = adcgen.SecularMatrix(isr)

    # ---- (iv) bookkeeping closed forms ----------------------------------
    for variant, m in mats.items():
        for adc in range(0, 6):
            bo = m.block_order(adc)
            mx = m.max_ptorder_spaces(adc)
            mn = m.isr.min_space[0]
            ok = True
            for (s1, s2), o in bo.items():
                k1 = (len(s1) - len(mn)) // 2
                k2 = (len(s2) - len(mn)) // 2
                want = adc - k1 - k2 if s1 != s2 else adc - 2 * k1
                if s1 != s2:
                    want = adc - min(k1, k2) * 2 - abs(k1 - k2)
                ok = ok and (o == want) and bo[(s2, s1)] == o
            ok = ok and all(mx[s] == adc - (len(s) - len(mn)) // 2
                            for s in mx)
            ctx.case(key=("block_order", variant, adc), kind="block_order")
            if not ctx.obligation(f"block_order closed form {variant} "
                                  f"ADC({adc})", ok, repr(bo)):
                ctx.violation(f"C03:block_order:{variant}:{adc}",
                              "block_order / max_ptorder_spaces deviate from "
                              "the closed form or are not symmetric",
                              {"variant": variant, "adc_order": adc,
                               "block_order": {str(k): v
                                               for k, v in bo.items()}}, True)

    # ---- (i) explicit intermediate states (one worker per block) ---------
    seeds = [rng.randrange(1 << 30) for _ in range(1 if quick else 2)]
    # the explicit perturbation series the intermediate states are built from
    # are certified inside Coq (Models/RSPTCheck.v rspt_ok_sound)
    detspace.certify(ctx, "C03", [("mp", sd) for sd in seeds], max_order)
    for sd in seeds:
        sp_ = detspace.Space(3, 3, sd, canonical=True)
        E_, psi_ = sp_.rspt("mp", max_order)
        isr_explicit.certify_ortho(ctx, "C03", sp_, psi_, E_,
                                   sorted({v for v, *_ in todo}), max_order)
    import concurrent.futures as cf
    import multiprocessing as mp_
    with cf.ProcessPoolExecutor(max_workers=12,
                                mp_context=mp_.get_context("fork")) as ex:
        results = list(ex.map(_job, [(t, seeds, quick, max_order,
                                      rng.randrange(1 << 30))
                                     for t in todo]))
    for res in results:
        for r in res:
            if r["type"] == "note":
                ctx.note(r["text"])
            elif r["type"] == "exception":
                ctx.violation(r["key"], r["what"], {}, False)
            else:
                ctx.case(key=tuple(r["case_key"]), nontrivial=r["nontrivial"],
                         kind=r["kind"], sample=r.get("sample"))
                if not ctx.obligation(r["name"], r["ok"]):
                    ctx.violation(r["key"], r["what"], r["replay"], True)

    # ---- (ii) transposition, (iii) matrix-vector product (all models) ------
    pairs = []
    for variant, bs, ks, order in todo:
        if order > (1 if quick else 2) and (bs, ks) != ("ph", "ph"):
            continue
        m = mats[variant]
        ib, ik = NAMES[bs][0], NAMES[ks][1]
        try:
            a = m.isr_matrix_block(order, f"{bs},{ks}", f"{ib},{ik}")
            b = m.isr_matrix_block(order, f"{ks},{bs}", f"{ik},{ib}")
        except Exception as ex:
            ctx.note(f"transpose {variant} {bs},{ks} {order}: {ex!r}")
            continue
        tg = get_symbols(ib + ik)
        pr = EQ.Pair(Expr(a, real=True).expand(), Expr(b, real=True).expand(),
                     tg, f"transpose:{variant}:{bs},{ks}:{order}")
        pairs.append(pr)
        ctx.case(key=pr.label, nontrivial=order >= 1, kind="transpose")
        # mvp
        if order <= 1 or (bs, ks) == ("ph", "ph"):
            try:
                mv = m.mvp_block_order(order, bs, f"{bs},{ks}", ib)
            except Exception as ex:
                ctx.note(f"mvp {variant} {bs},{ks} {order}: {ex!r}")
                continue
            y = m.isr.amplitude_vector(indices=ik, lr="right")
            n1, n2 = n_ov_from_space(bs), n_ov_from_space(ks)
            pref = 1 / sqrt(factorial(n1["occ"]) * factorial(n1["virt"])) \
                / sqrt(factorial(n2["occ"]) * factorial(n2["virt"]))
            want = (pref * a * y).expand()
            tg2 = get_symbols(ib)
            pr = EQ.Pair(Expr(mv, target_idx=tg2).expand(),
                         Expr(want, target_idx=tg2).expand(), tg2,
                         f"mvp:{variant}:{bs},{ks}:{order}", deltas=True)
            pairs.append(pr)
            ctx.case(key=pr.label, nontrivial=True, kind="mvp")
    # ---- (iii') mvp(adc_order, space, order=k) is the sum of the k'th-order
    #      contributions of the blocks of ADC(adc_order) with that bra space;
    #      order=None is the sum over all orders -------------------------
    for variant in (["pp", "ip"] if quick else ["pp", "ip", "ea", "dip"]):
        m = mats[variant]
        for adc in ((1, 2) if quick else (0, 1, 2, 3)):
            try:
                bo = m.block_order(adc)
                spaces = sorted(m.max_ptorder_spaces(adc), key=len)
            except Exception as ex:
                ctx.note(f"block_order {variant} {adc}: {ex!r}")
                continue
            for space in spaces[:1 if quick or adc == 3 else 2]:
                if space not in NAMES:
                    continue
                ib = NAMES[space][0]
                tg2 = get_symbols(ib)
                total = 0
                try:
                    for k in range(adc + 1):
                        got = m.mvp(adc, space, ib, order=k)
                        want = 0
                        for block, mx in bo.items():
                            if block[0] == space and mx >= k:
                                want += m.mvp_block_order(k, space, block, ib)
                        total += got
                        pr = EQ.Pair(Expr(got, target_idx=tg2).expand(),
                                     Expr(want, target_idx=tg2).expand(),
                                     tg2, f"mvp-order:{variant}:ADC({adc}):"
                                     f"{space}:order={k}", deltas=True)
                        pairs.append(pr)
                        ctx.case(key=pr.label, nontrivial=True,
                                 kind="mvp-order")
                    full = m.mvp(adc, space, ib)
                    pr = EQ.Pair(Expr(full, target_idx=tg2).expand(),
                                 Expr(total, target_idx=tg2).expand(), tg2,
                                 f"mvp-order:{variant}:ADC({adc}):{space}:"
                                 "order=None", deltas=True)
                    pairs.append(pr)
                    ctx.case(key=pr.label, nontrivial=True, kind="mvp-order")
                except Exception as ex:
                    ctx.violation(f"C03:mvp-exception:{variant}:{adc}:{space}",
                                  f"mvp raised {ex!r}", {}, False)
    EQ.run_pairs(ctx, "tr", pairs, shard=4)
    for p in pairs:
        if p.ok is None:
            ctx.obligation(f"{p.label}: inside the validator fragment", False,
                           p.err)
            continue
        if not ctx.obligation(p.label, p.ok, p.err):
            ctx.violation(
                f"C03:{p.label}",
                "secular matrix block not proved equal to the transposed "
                "swapped block / matrix-vector product not proved equal to "
                "prefactor * block * amplitude vector",
                {"relation": p.label, "difference": p.diff, "error": p.err,
                 "case": EQ.describe(p, 800)}, p.diff is not None)


def _job(arg):
    """derive one secular-matrix block and compare it with the explicit
    construction on the model Hamiltonians; runs in a worker process"""
    (variant, bs, ks, order), seeds, quick, max_order, rseed = arg
    import random
    rng = random.Random(rseed)
    out = []
    key = (variant, bs, ks, order)
    gs = adcgen.GroundState(adcgen.Operators())
    mat = adcgen.SecularMatrix(adcgen.IntermediateStates(gs, variant))
    # FIRST (before the generic-index counters advance): the block with
    # NUMBERED index names (they live in the
    # name space of the generic indices): lowest diagonal block, order 2
    nexpr = None
    if bs == ks == isr_explicit.CLASSES[variant][0][0] and order == 2:
        nb = "".join(c + "9" for c in NAMES[bs][0])
        nk = "".join(c + "9" for c in NAMES[ks][1])
        try:
            nexpr = mat.isr_matrix_block(order, f"{bs},{ks}", f"{nb},{nk}")
            nbo, nbv = split(bs, nb)
            nko, nkv = split(ks, nk)
        except Exception as ex:
            out.append({"type": "exception",
                        "key": f"C03:block-exception:{key}:numbered",
                        "what": f"isr_matrix_block raised {ex!r}"})
    names = NAMES[bs][0] + "," + NAMES[ks][1]
    t0 = time.time()
    try:
        expr = mat.isr_matrix_block(order, f"{bs},{ks}", names)
    except Exception as ex:
        return [{"type": "exception", "key": f"C03:block-exception:{key}",
                 "what": f"isr_matrix_block raised {ex!r}"}]
    out.append({"type": "note",
                "text": f"derive {key}: {time.time() - t0:.1f}s"})
    # the same instance asked with subtract_gs=False after the default:
    # lowest diagonal block (the two differ by E0^(n) on the diagonal)
    lowest = isr_explicit.CLASSES[variant][0][0]
    uexpr = None
    if bs == ks == lowest and (not quick or order in (0, 2)):
        try:
            uexpr = mat.isr_matrix_block(order, f"{bs},{ks}", names,
                                         subtract_gs=False)
        except Exception as ex:
            out.append({"type": "exception",
                        "key": f"C03:block-exception:{key}:unshifted",
                        "what": f"isr_matrix_block raised {ex!r}"})
    bo, bv = split(bs, NAMES[bs][0])
    ko, kv = split(ks, NAMES[ks][1])
    for seed in seeds:
        space = detspace.Space(3, 3, seed, canonical=True)
        E, psi = space.rspt("mp", max_order)
        model = make_model(space, psi)
        third = {c[2][0] for c in isr_explicit.CLASSES.values()
                 if len(c) > 2}
        X = isr_explicit.ISR(space, psi, E, variant, max_order,
                             n_classes=3 if bs in third or ks in third else 2)
        if bs not in X.classes or ks not in X.classes:
            continue
        mdl = {"nocc": 3, "nvirt": 3, "seed": seed}
        pairs = [(I, J) for I in range(len(X.configs[bs]))
                 for J in range(len(X.configs[ks]))]
        n_s = 6 if quick else 14
        if len(pairs) > n_s:
            # prefer pairs of configurations that share orbitals (delta
            # terms only show there), plus a few arbitrary ones
            def shared(IJ):
                (o1, v1), (o2, v2) = X.configs[bs][IJ[0]], \
                    X.configs[ks][IJ[1]]
                return len(set(o1) & set(o2)) + len(set(v1) & set(v2))
            ranked = sorted(pairs, key=lambda IJ: -shared(IJ))
            top = ranked[:max(1, len(ranked) // 4)]
            pairs = rng.sample(top, min(len(top), n_s - 2)) + \
                rng.sample(pairs, 2)
        todo_ = [(I, J, True) for I, J in pairs]
        if uexpr is not None:
            diag = [(I, I) for I in range(len(X.configs[bs]))]
            todo_ += [(I, J, False)
                      for I, J in rng.sample(diag, min(2, len(diag)))
                      + pairs[:2]]
        if nexpr is not None:
            todo_ += [(I, J, "numbered") for I, J in pairs[:4]]
        for I, J, shifted in todo_:
            (oi, vi), (oj, vj) = X.configs[bs][I], X.configs[ks][J]
            if shifted == "numbered":
                val = evaluate(model, nexpr, nbo + nbv + nko + nkv,
                               list(oi) + list(vi) + list(oj) + list(vj))
                want = X.secular(bs, I, ks, J)[order]
                out.append({
                    "type": "case", "case_key": (key, seed, I, J, "num"),
                    "nontrivial": True,
                    "kind": f"{variant}:{bs},{ks}:{order}:numbered-names",
                    "name": f"{variant} M^({order})[{bs},{ks}] with numbered "
                            f"index names {oi}{vi}|{oj}{vj} (model {seed})",
                    "ok": val == want,
                    "key": f"C03:secular-numbered-names:{variant}:{bs},{ks}:"
                           f"order{order}",
                    "what": "secular matrix element requested with numbered "
                            "index names differs from the explicit one",
                    "replay": {"variant": variant, "block": f"{bs},{ks}",
                               "order": order, "bra": (oi, vi),
                               "ket": (oj, vj), "model": mdl,
                               "derived": val, "explicit": want}})
                continue
            val = evaluate(model, expr if shifted else uexpr,
                           bo + bv + ko + kv,
                           list(oi) + list(vi) + list(oj) + list(vj))
            want = X.secular(bs, I, ks, J, subtract_gs=shifted)[order]
            tag = "" if shifted else ":unshifted"
            out.append({
                "type": "case",
                "case_key": (key, seed, I, J, shifted),
                "nontrivial": order >= 1 or bs != ks or not shifted,
                "kind": f"{variant}:{bs},{ks}:{order}{tag}",
                "sample": {"variant": variant, "block": f"{bs},{ks}",
                           "order": order, "bra": (oi, vi), "ket": (oj, vj),
                           "subtract_gs": shifted, "value_mod_P": val},
                "name": f"{variant} M^({order})[{bs},{ks}]{tag} "
                        f"{oi}{vi}|{oj}{vj} (model {seed})",
                "ok": val == want,
                "key": (f"C03:secular:{variant}:{bs},{ks}:order{order}"
                        if shifted else
                        f"C03:secular-unshifted:{variant}:{bs},{ks}:"
                        f"order{order}"),
                "what": "derived secular matrix element differs from "
                        "<I|H-E0|J> between explicitly constructed "
                        "intermediate states" if shifted else
                        "secular matrix element requested with "
                        "subtract_gs=False (after the default request on "
                        "the same instance) differs from <I|H|J> between "
                        "explicitly constructed intermediate states",
                "replay": {"variant": variant, "block": f"{bs},{ks}",
                           "order": order, "subtract_gs": shifted,
                           "bra": (oi, vi), "ket": (oj, vj), "model": mdl,
                           "derived": val, "explicit": want}})
    return out


def replay(ctx, rep):
    print(rep)
    return 0
