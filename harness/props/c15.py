"""C15 - spin integration yields exactly the requested spin block."""
import itertools

from sympy import Add, Mul, Pow, Rational, S

import adcio
import numeric
import equivcheck as EQ
import c15_util as U
from adcgen import spatial_orbitals as so
from adcgen.expr_container import Expr
from adcgen.indices import get_symbols, sort_idx_canonical
from adcgen.intermediates import Intermediates
from adcgen.sympy_objects import (AntiSymmetricTensor, SymmetricTensor,
                                  Amplitude, NonSymmetricTensor,
                                  KroneckerDelta)

LEVEL = "proof"
RULE = ("products of <= 4 objects drawn from ERI, Coulomb integrals, "
        "t-amplitudes (ranks 1-3, several orders, cc), deltas, Fock and "
        "operator matrices, orbital energies, symbolic denominators D, ADC "
        "amplitudes and tensors of registered intermediates over 4 occupied "
        "and 4 virtual index names, with a prefactor and sometimes a square; "
        "targets are the Einstein targets or an explicit subset of <= 4 "
        "indices; every spin string of the targets is run.  Fixed inputs: "
        "all single objects, single ERIs and their 2nd/3rd powers in all six space blocks and 16 spin patterns (expand_antisym_eri), ERI powers through the whole pipeline for every target spin string, the definitions of all registered "
        "intermediates, MP energies, the four inputs of the repaired defects and the seeded-defect example W_bdef (corpus).  Multi-term stream: sums of 2-4 terms with the same provided targets (delta products, single tensors, contractions, generated products) for every target spin string.  _has_valid_combination: random lists of 2-5 objects with 1-4 candidate maps over 1-3 of 6 indices, 70% with a hidden solution behind decoys; brute-force stream: products of 3-5 tabled objects, 2-4 targets.  A case is "
        "non-trivial if the term has at least one contracted index or at "
        "least two objects with a block table; distinct = distinct "
        "(term, targets, spins, mode) text")
TRUSTED = ["the block tables of registered intermediates are dumped from the "
           "running library on every run and passed to the model as data "
           "(they are themselves outputs of allowed_spin_blocks(expr), which "
           "is compared with the model on the intermediates' definitions)",
           "default tensor names (tensor_names) are assumed",
           "numeric tensor models (harness/numeric.py) are used only to "
           "search for a failing input and to validate the model"]
ASSUMPTIONS = ["tensor values vanish outside the allowed spin blocks of their "
               "objects (hypothesis `vanishes` of C15_integrate_value)",
               "the spin-orbital range of a space is the concatenation of "
               "its alpha and beta ranges",
               "restricted: tensor values coincide on spin orbitals with the "
               "same spatial part (on allowed blocks)",
               "ERI expansion: <pq||rs> = d(sp,sr)d(sq,ss)(pr|qs) - "
               "d(sp,ss)d(sq,sr)(ps|qr)"]

# corpus: the inputs on which the four defects repaired in /repo (commits 0c1e7ae,
# 8f48ab3, 18a2580, 80a5ce3) showed; a failure on one of them is reported under
# the stable key of the original finding
SENTINEL_KEYS = {
    "sentinel:f_ii": "C15:no-table-term-dropped:f_ii",
    "sentinel:delta_ij*e_a": "C15:shallow-copy-completion:delta_ij*e_a",
    "sentinel:V_ijij": "C15:repeated-index-block-raises:V_ijij",
    "sentinel:delta_ij*f_ab": "C15:restricted-delta-zero:delta_ij*f_ab[bbbb]",
}


def vkey(cs, default):
    return SENTINEL_KEYS.get(cs.label, default)


class Case:
    def __init__(self, label, sym, targets, provided, kinds=None):
        self.label, self.sym = label, sym
        self.targets = list(targets)       # Index objects, in the order given
        self.provided = provided           # Expr(target_idx=...) or Einstein
        self.kinds = kinds or []

    def expr(self):
        if self.provided:
            return Expr(self.sym, target_idx=self.targets)
        return Expr(self.sym)

    @property
    def names(self):
        return "".join(x.name for x in self.targets)


def has_table(o):
    """does the object have a block table (False also if computing it raises:
    the exception is then observed by the correspondence stages)"""
    if o.sympy.is_number:
        return False
    try:
        return o.allowed_spin_blocks is not None
    except Exception:       # noqa
        return False


def classify(term, tm_keys):
    """structural class of a term (input distribution only): 'no-table' = no
    object has a block table, 'free-contracted' = some contracted index sits
    only on objects without a table"""
    tabled = [o for o in term.objects if has_table(o)]
    idx = set(term.idx)
    if idx and not tabled:
        return "no-table"
    on_table = set()
    for o in tabled:
        on_table.update(o.idx)
    if any(x not in on_table and x not in tm_keys for x in idx):
        return "free-contracted"
    return None


# ---------------------------------------------------------------------------
def stage_tables(ctx, tabs, failed, info):
    """A: dumped tables are well-formed; Obj.allowed_spin_blocks == model"""
    for name, tb in tabs.items():
        d = info[name]
        n = len(d["default_idx"])
        ok = (len(set(tb)) == len(tb) and all(len(b) == n for b in tb)
              and all("".join("a" if c == "b" else "b" for c in b) in tb
                      for b in tb)
              and list(tb) == sorted(tb))
        ctx.obligation(f"table of {name}: duplicate-free, sorted, block "
                       "length = number of indices, closed under spin flip",
                       ok, repr(tb))
        ctx.obligation(f"tensor of {name}: obj.idx == default indices",
                       d["obj_idx"] == d["default_idx"],
                       f"{d['obj_idx']} vs {d['default_idx']}")
    ctx.obligation("no registered intermediate is named ul<n>/ur<n>",
                   not any(k.startswith(("ul", "ur")) for k in
                           Intermediates().available))
    for name, exc in failed.items():
        ctx.note(f"Intermediates().available['{name}'].allowed_spin_blocks "
                 f"raises {exc} (definition contains the Fock matrix, which "
                 "has no block table); its tensor 'Zero' has no table")

    i, j, k, l = get_symbols("ijkl")
    a, b, c, d = get_symbols("abcd")
    p, q, r, s = get_symbols("pqrs")
    objs = [
        AntiSymmetricTensor("V", (i, j), (a, b), 1),
        AntiSymmetricTensor("V", (p, q), (r, s)),
        AntiSymmetricTensor("V", (i, a), (j, a), 1),
        SymmetricTensor("v", (p, q), (r, s), 1),
        SymmetricTensor("v", (i, a), (j, b), 1),
        KroneckerDelta(i, j), KroneckerDelta(a, b), KroneckerDelta(p, q),
        AntiSymmetricTensor("f", (i,), (a,), 1),
        AntiSymmetricTensor("f", (p,), (q,)),
        AntiSymmetricTensor("d", (a,), (i,)),
        NonSymmetricTensor("e", (i,)), NonSymmetricTensor("e", (a,)),
        SymmetricTensor("D", (i, j), (a, b), -1),
        SymmetricTensor("D", (i,), (a,), -1),
        Amplitude("X", (a,), (i,)), Amplitude("Y", (a, b), (i, j)),
        Amplitude("X", (a,), (i, j)),
        AntiSymmetricTensor("Zero", (i, j), (a, b)),
        AntiSymmetricTensor("p0_2", (i,), (j,)),
        AntiSymmetricTensor("p", (i,), (j,)),
        AntiSymmetricTensor("p1", (i,), (a,)),
        AntiSymmetricTensor("p2", (i,), (j,), 1),
        AntiSymmetricTensor("p2", (a,), (b,), 1),
        AntiSymmetricTensor("p2", (i,), (a,), 1),
        AntiSymmetricTensor("p3", (i,), (a,), 1),
        AntiSymmetricTensor("p3", (a,), (i,), 1),
        AntiSymmetricTensor("t2eri9", (i, j), (k, a)),
        NonSymmetricTensor("t2sq", (i, a, j, b)),
        NonSymmetricTensor("n", (i, a)),
    ]
    for nm in ("t", "t1", "t2", "t3", "t1cc", "tcc", "t12", "t2c", "tx",
               "t1x", "tc1"):
        objs.append(Amplitude(nm, (a,), (i,)))
        objs.append(Amplitude(nm, (a, b), (i, j)))
        objs.append(Amplitude(nm, (a, b, c), (i, j, k)))
        objs.append(AntiSymmetricTensor(nm, (i, j), (a, b)))
    objs.append(Amplitude("t2", (a, b, c, d), (i, j, k, l)))
    objs.append(Amplitude("t1", (a, b), (i,)))          # odd: ValueError
    for name in tabs:
        objs.append(Intermediates().available[name].tensor(return_sympy=True))
    cases, obs = [], []
    for o in objs:
        ictx = adcio.IdxCtx()
        ob = Expr(o).terms[0].objects[0]
        try:
            pyv = ob.allowed_spin_blocks
            pyv = ("ok", None if pyv is None else [list(x) for x in pyv])
        except Exception as ex:         # noqa
            pyv = ("exc", type(ex).__name__)
        atom = adcio.conv_base(o, ictx)
        cases.append(f"allowed_blocks ITAB {adcio.coq_atom(atom)}")
        obs.append((o, pyv))
    vals, _ = ctx.coq_eval("tables", cases, header=U.COQ_HEADER,
                           defs=f"Definition ITAB : itable := "
                                f"{U.coq_itab(tabs)}.\n")
    for (o, pyv), v in zip(obs, vals):
        mv = U.parse_res(v)
        if mv[0] == "ok":
            mv = ("ok", None if mv[1] == "-" else mv[1])
            same = pyv == mv
        elif mv[0] == "err":
            same = pyv == ("exc", U.ERR_CLASS[mv[1]])
        else:
            same = False
        ctx.case(key=("table", str(o)), nontrivial=pyv[1] is not None,
                 sample=None, kind="table:" + (
                     "none" if pyv[1] is None else pyv[0]))
        if not ctx.obligation(f"Obj.allowed_spin_blocks == model: {o}", same,
                              f"python {pyv} model {mv}"):
            ctx.violation(f"C15:obj-table:{o}",
                          "Obj.allowed_spin_blocks differs from the model "
                          "allowed_blocks (Models/Spin.v)",
                          {"object": str(o), "python": pyv, "model": mv,
                           "correspondence": "allowed_blocks"}, False)


# ---------------------------------------------------------------------------
def fixed_cases():
    i, j, k, l = get_symbols("ijkl")
    a, b, c, d = get_symbols("abcd")
    V = lambda u, lo: AntiSymmetricTensor("V", u, lo, 1)       # noqa
    t1 = lambda u, lo: Amplitude("t1", u, lo)                  # noqa
    t2 = lambda u, lo: Amplitude("t2", u, lo)                  # noqa
    f = lambda x, y: AntiSymmetricTensor("f", (x,), (y,), 1)   # noqa
    e = lambda x: NonSymmetricTensor("e", (x,))                # noqa
    D = SymmetricTensor("D", (i, j), (a, b), -1)
    out = [
        Case("mp2-energy", Rational(1, 4) * V((i, j), (a, b)) *
             t1((a, b), (i, j)), [], False),
        Case("mp2-energy+42", Rational(1, 4) * V((i, j), (a, b)) *
             t1((a, b), (i, j)), [], False),
        Case("t2_1-symbolic", V((a, b), (i, j)) * D, [i, j, a, b], True),
        Case("t1_2-term", Rational(1, 2) * t1((b, c), (i, j)) *
             V((j, a), (b, c)), [i, a], True),
        Case("V-contracted-virt", V((i, a), (j, a)), [i, j], True),
        Case("t2-t2-V", t1((a, c), (i, k)) * t1((b, d), (j, l)) *
             V((k, l), (c, d)), [i, j, a, b], True),
        Case("delta-t", KroneckerDelta(i, j) * t2((a,), (k,)) *
             f(k, a), [i, j], True),
        Case("number", S(42), [], False),
        # sentinels of the three findings
        Case("sentinel:f_ii", f(i, i), [], False),
        Case("sentinel:delta_ij*e_a", KroneckerDelta(i, j) * e(a), [i, j],
             True),
        Case("sentinel:V_ijij", Rational(-1, 2) * V((i, j), (i, j)), [],
             False),
        Case("sentinel:delta_ij*f_ab", KroneckerDelta(i, j) * f(a, b),
             [i, a, j, b], True),
        # ERI powers (seeded defect: sign of an exchange-only block pulled out
        # of an even power); every spin string is run in the pipeline stage
        Case("eri-power:V_iajb^2", V((i, a), (j, b)) ** 2, [i, a, j, b],
             True),
        Case("eri-power:V_ijka^2", V((i, j), (k, a)) ** 2 / 2,
             [i, j, k, a], True),
        Case("eri-power:V_iabc^2", V((i, a), (b, c)) ** 2, [i, a, b, c],
             True),
        Case("eri-power:V_iajb^3", V((i, a), (j, b)) ** 3, [i, a, j, b],
             True),
        Case("eri-power:V_iajb^2-contracted", V((i, a), (j, b)) ** 2,
             [i, j], True),
        Case("eri-power:V_ijab^2", V((i, j), (a, b)) ** 2, [i, j, a, b],
             True),
        Case("D-alone", D, [i, j, a, b], True),
        Case("e-alone", e(i), [i], True),
        Case("f-X", f(i, a) * Amplitude("X", (a,), (j,)), [i, j], True),
        Case("delta-XY", KroneckerDelta(i, j) * Amplitude("X", (a,), (k,)) *
             Amplitude("Y", (a,), (k,)), [i, j], True),
    ]
    for name, it in Intermediates().available.items():
        try:
            ex = it.expand_itmd(fully_expand=False).expand()
        except Exception:       # noqa
            continue
        tg = list(get_symbols(it.default_idx))
        if len(tg) > 4:
            continue
        for n, t in enumerate(ex.terms):
            out.append(Case(f"itmd:{name}:{n}", t.sympy, tg, True))
    return out


def gen_cases(ctx, n):
    rng = ctx.rng
    voc = U.vocab(rng)
    out = []
    tries = 0
    while len(out) < n and tries < 20 * n:
        tries += 1
        sym, kinds = U.random_product(rng, voc, rng.choice([1, 2, 2, 3, 3, 4]))
        if sym == 0:
            continue
        pk = U.pick_targets(rng, sym)
        if pk is None:
            continue
        tg, provided = pk
        tg = list(tg)
        rng.shuffle(tg)
        out.append(Case(f"gen{len(out)}", sym, tg, provided, kinds))
    return out


def spin_strings(n):
    return ["".join(x) for x in itertools.product("ab", repeat=n)]


def stage_integrate(ctx, tabs, cases):
    """B: variants substituted by integrate_spin == model (code as it is),
    numeric value check of the result"""
    itab_def = f"Definition ITAB : itable := {U.coq_itab(tabs)}.\n"
    rows, coq_cases = [], []
    for cs in cases:
        try:
            E = cs.expr()
        except Exception as ex:         # noqa
            ctx.note(f"{cs.label}: Expr() raised {ex!r}")
            continue
        if E.sympy == 0 or len(E.terms) != 1:
            continue
        term = E.terms[0]
        if tuple(term.target) != tuple(sorted(cs.targets,
                                              key=sort_idx_canonical)):
            continue
        ictx = adcio.IdxCtx()
        try:
            atoms = U.term_atoms(term, ictx)
        except adcio.Unsupported as ex:
            ctx.note(f"{cs.label}: unsupported {ex}")
            continue
        tidx_sym = sorted(set(term.idx), key=sort_idx_canonical)
        tidx = [ictx.conv(x) for x in tidx_sym]
        tgc = [ictx.conv(x) for x in cs.targets]
        for spins in spin_strings(len(cs.targets)):
            ob = U.observe_integrate(cs.expr(), cs.names, spins)
            tm = U.coq_tmap(zip(tgc, spins))
            lst = adcio.coq_list(x.coq() for x in tidx)
            coq_cases.append(
                f"rbind (integrate_atoms ITAB {tm} "
                f"{U.coq_atoms(atoms)}) (fun l => Ok (map (assign_list "
                f"{lst}) l))")
            coq_cases.append(
                f"(iset_eqb {lst} (atoms_idx {U.coq_atoms(atoms)}), "
                f"match sobjs_of ITAB {U.coq_atoms(atoms)} with "
                f"Ok objs => wf_objs_b objs | Err _ => false end)")
            rows.append((cs, spins, ob, term, tidx_sym, tidx, tgc, ictx))
    vals, _ = ctx.coq_eval("integrate", coq_cases, header=U.COQ_HEADER,
                           defs=itab_def, shard=240)
    stats = {"agree": 0, "ordered": 0, "multiset-only": 0}
    for n, (cs, spins, ob, term, tidx_sym, tidx, tgc, ictx) in \
            enumerate(rows):
        m_impl = U.parse_res(vals[2 * n])
        chk = (vals[2 * n + 1] or "").replace(" ", "")
        idx_ok = chk.startswith("(true,")
        wf_ok = chk.endswith(",true)")
        label = f"{cs.label}[{spins}]"
        # --- observed
        if ob.exc is not None and not ob.exc_in_simplify:
            py = ("exc", ob.exc)
        else:
            v = U.variants_of(ob, tidx_sym)
            if not tidx_sym:
                v = [[]]
            py = ("ok", v)
        if m_impl[0] == "err":
            mi = ("exc", U.ERR_CLASS[m_impl[1]])
        else:
            mi = m_impl

        def ms(r):
            return r if r[0] != "ok" else ("ok", sorted(map(tuple, r[1])))
        cls = classify(term, set(cs.targets))
        same_ord = (py == mi)
        # the order of the variants of one combination follows the iteration
        # order of a Python set (missing contracted indices): compared as
        # multisets when such indices exist
        same = same_ord or (cls is not None and ms(py) == ms(mi))
        n_con = len([x for x in tidx if x not in tgc])
        n_tab = len([o for o in term.objects if has_table(o)])
        ctx.case(key=(str(cs.sym), cs.names, spins, "integrate"),
                 nontrivial=(n_con >= 1 or n_tab >= 2),
                 sample={"label": label, "term": str(cs.sym)[:200],
                         "targets": cs.names, "spins": spins,
                         "variants": py[1] if py[0] == "exc" else
                         ["".join(x) for x in py[1]][:8]},
                 kind=f"integrate:objs{min(len(term.objects), 5)}:"
                      f"tg{len(spins)}" + (f":{cls}" if cls else ""))
        ctx.obligation(f"term indices == model atoms_idx {label}", idx_ok)
        ctx.obligation(f"hypothesis wf_objs of the theorems holds {label}",
                       wf_ok, "wf_objs_b = false")
        if not ctx.obligation(f"integrate_spin variants == model {label}",
                              same, f"python {py} model {mi}"):
            ctx.violation(
                vkey(cs, f"C15:variants:{cs.label}:{spins}"),
                "the substitutions performed by integrate_spin differ from "
                "the model integrate_atoms (Models/Spin.v), i.e. from the "
                "enumeration of C15_integrate_enumerates",
                {"term": str(cs.sym), "targets": cs.names, "spins": spins,
                 "python": py, "model": mi,
                 "correspondence": "integrate_atoms"}, py[0] == "exc")
            continue
        stats["agree"] += 1
        stats["ordered" if same_ord else "multiset-only"] += 1
        # --- value check (failing-input search / validation of the model)
        if ob.exc is not None:
            if ob.exc_in_simplify:
                k = "simplify-raises(TODO in source: polynoms)"
            else:
                k = "rejected-input"
            ctx.dist[k] = ctx.dist.get(k, 0) + 1
            continue
        check_targets(ctx, cs, spins, ob.result, spins, "integrate_spin")
        bad = value_check(ctx, cs, spins, ob.result, tabs)
        if not ctx.obligation(f"value of integrate_spin {label}",
                              bad is None, str(bad)):
            ctx.violation(
                vkey(cs, f"C15:value:{cs.label}:{spins}"),
                "integrate_spin result differs in value from the "
                "spin-orbital expression on the requested block",
                {"term": str(cs.sym), "targets": cs.names,
                 "spins": spins, "python": py, "difference": bad,
                 "theorem": "C15_integrate_value"}, True)
    stats["rows"] = len(rows)
    ctx.extra["integrate_stats"] = stats


def check_targets(ctx, cs, spins, result, out_spins, what):
    """the target indices of the result are the input targets with the
    requested spins (all alpha for a restricted reference)"""
    if not cs.provided:
        ok = result.provided_target_idx is None
        exp = None
    else:
        exp = tuple(sorted(get_symbols(cs.names, out_spins),
                           key=sort_idx_canonical)) if cs.targets else ()
        got = result.provided_target_idx
        ok = got is not None and tuple(got) == exp
    if not ctx.obligation(f"target indices of the result of {what} "
                          f"{cs.label}[{spins}]", ok,
                          f"{result.provided_target_idx} expected {exp}"):
        ctx.violation(
            f"C15:result-targets:{cs.label}:{spins}:{what}",
            f"{what} returns an expression with wrong target indices",
            {"term": str(cs.sym), "targets": cs.names, "spins": spins,
             "got": str(result.provided_target_idx), "expected": str(exp)},
            True)


def value_check(ctx, cs, spins, result, tabs, restricted=False,
                eri_from_coulomb=False, seeds=(11, 12)):
    """compare the spin-orbital value on the requested block with the value
    of `result`; returns a replay dict of the first difference or None"""
    ictx = adcio.IdxCtx()
    try:
        p_in = adcio.conv_expr(cs.expr().sympy, ictx)
        p_out = adcio.conv_expr(result.sympy, ictx)
    except adcio.Unsupported as ex:
        ctx.note(f"{cs.label}: value check unsupported: {ex}")
        return None
    tg_in = [ictx.conv(x) for x in cs.targets]
    out_spins = "a" * len(spins) if restricted else spins
    tg_out = [ictx.conv(x) for x in get_symbols(cs.names, out_spins)] \
        if cs.targets else []
    for seed in seeds:
        n = 1 if seed % 2 else 2
        ncon = len(adcio.term_contracted(p_in[0], set(tg_in))) if p_in else 0
        if n == 2 and ncon > 4:
            n = 1
        model = U.spin_model(seed, n, tabs, restricted, eri_from_coulomb)
        ranges = [model.rng(x.space, s) for x, s in zip(tg_in, spins)]
        combos = list(itertools.product(*ranges))
        if len(combos) > 16:
            combos = ctx.rng.sample(combos, 16)
        for combo in combos:
            env_in = dict(zip(tg_in, combo))
            if restricted:
                env_out = dict(zip(tg_out, (model.alpha_of[o] for o in combo)))
            else:
                env_out = dict(zip(tg_out, combo))
            try:
                v1 = model.eval_expr(p_in, env_in)
                v2 = model.eval_expr(p_out, env_out)
            except ZeroDivisionError:
                continue
            if v1 != v2:
                return {"model_seed": seed, "n_alpha=n_beta": n,
                        "targets": {repr(k): v for k, v in env_in.items()},
                        "spin_orbital_value": v1, "integrated_value": v2,
                        "prime": numeric.P, "restricted": restricted,
                        "eri_from_coulomb": eri_from_coulomb}
    return None



# ---------------------------------------------------------------------------
def all_idx_list(pterms_list):
    seen, out = set(), []
    for pts in pterms_list:
        for t in pts:
            for x in adcio.term_indices(t):
                if x not in seen:
                    seen.add(x)
                    out.append(x)
    return out


def expand_value_check(sym_in, sym_out, tabs, seeds=(21, 22)):
    """value of a spin-labelled expression before / after expand_antisym_eri
    on models with <pq||rs> = dd(pr|qs) - dd(ps|qr), every index a target;
    returns a replay dict of the first difference or None"""
    ictx = adcio.IdxCtx()
    try:
        p_in = adcio.conv_expr(sym_in, ictx)
        p_out = adcio.conv_expr(sym_out, ictx)
    except adcio.Unsupported:
        return None
    tg = all_idx_list([p_in, p_out])
    if any(not x.spin for x in tg) or len(tg) > 8:
        return None
    for seed in seeds:
        model = U.spin_model(seed, 1 if seed % 2 else 2, tabs,
                             eri_from_coulomb=True)
        ranges = [model.rng(x.space, x.spin) for x in tg]
        combos = list(itertools.islice(itertools.product(*ranges), 64))
        for combo in combos:
            env = dict(zip(tg, combo))
            try:
                v1 = model.eval_expr(p_in, env)
                v2 = model.eval_expr(p_out, env)
            except ZeroDivisionError:
                continue
            if v1 != v2:
                return {"model_seed": seed,
                        "orbitals": {repr(k): v for k, v in env.items()},
                        "value_antisym_eri": v1, "value_expanded": v2,
                        "prime": numeric.P}
    return None


def stage_expand(ctx, tabs):
    """C: expand_antisym_eri == model (syntactic, modulo canonical forms)"""
    rng = ctx.rng
    names = {"o": "ij", "v": "ab"}
    inputs = []
    for pat in ("oovv", "ovov", "oooo", "ooov", "ovvv", "vvvv"):
        for spins in itertools.product("ab", repeat=4):
            ix = []
            cnt = {"o": 0, "v": 0}
            for c, s in zip(pat, spins):
                nm = ("ijkl" if c == "o" else "abcd")[cnt[c]]
                cnt[c] += 1
                ix.append(get_symbols(nm, s)[0])
            V = AntiSymmetricTensor("V", tuple(ix[:2]), tuple(ix[2:]), 1)
            inputs.append((f"V-{pat}-{''.join(spins)}", V))
            # powers: the power of the signed Coulomb expansion
            inputs.append((f"V^2-{pat}-{''.join(spins)}", V ** 2))
            inputs.append((f"V^3-{pat}-{''.join(spins)}", 2 * V ** 3))
    ia, ja, aa, ba = get_symbols("ijab", "aaaa")
    ib, jb, ab_, bb = get_symbols("ijab", "bbbb")
    kb, cb = get_symbols("kc", "bb")
    V1 = AntiSymmetricTensor("V", (ia, jb), (aa, bb), 1)
    V2 = AntiSymmetricTensor("V", (ia, ja), (aa, ba), 1)
    V3 = AntiSymmetricTensor("V", (ia, kb), (aa, cb), 1)
    t = Amplitude("t1", (aa, bb), (ia, jb))
    inputs += [("V^2", V2 ** 2), ("V*V", V1 * V3), ("V*t/4", V1 * t / 4),
               ("V2*V3*t", 2 * V2 * V3 * t), ("1/V", 1 / V2),
               ("V+V", V1 + 3 * V2), ("no-eri", t),
               ("V-bks0", AntiSymmetricTensor("V", (ia, ja), (aa, ba))),
               ("V-bks0-mixed", AntiSymmetricTensor("V", (ia, jb), (aa, ba))),
               ("v", SymmetricTensor("v", (ia, aa), (jb, bb), 1) * V1)]
    cases, obs = [], []
    for label, sym in inputs:
        try:
            out = Expr(sym).expand_antisym_eri().expand()
            py = ("ok", out.sympy)
        except Exception as ex:     # noqa
            py = ("exc", type(ex).__name__)
        ictx = adcio.IdxCtx()
        try:
            p_in = adcio.conv_expr(sym, ictx)
            p_out = adcio.conv_expr(py[1], ictx) if py[0] == "ok" else []
        except adcio.Unsupported as ex:
            ctx.note(f"expand {label}: unsupported {ex}")
            continue
        tg = adcio.coq_list(x.coq() for x in all_idx_list([p_in, p_out]))
        cases.append(
            f"match expand_eri_expr {adcio.coq_expr(p_in)} with "
            f"| Ok e1 => Ok (check_equiv {tg} [] [] e1 "
            f"{adcio.coq_expr(p_out)}) | Err c => Err c end")
        obs.append((label, sym, py))
    vals, _ = ctx.coq_eval("expand", cases, header=U.COQ_HEADER, shard=40)
    for (label, sym, py), v in zip(obs, vals):
        mv = U.parse_res(v)
        if py[0] == "ok":
            same = mv == ("ok", True)
        else:
            same = mv[0] == "err" and U.ERR_CLASS[mv[1]] == py[1]
        ctx.case(key=("expand", str(sym)), nontrivial=True, kind="expand_eri",
                 sample={"label": label, "in": str(sym)[:200],
                         "out": str(py[1])[:200]})
        bad = None
        if py[0] == "ok":
            bad = expand_value_check(sym, py[1], tabs)
            ctx.obligation(f"value of expand_antisym_eri {label}",
                           bad is None, str(bad))
        if not ctx.obligation(f"expand_antisym_eri == model {label}", same,
                              f"python {py} model {mv}") or bad is not None:
            ctx.violation(f"C15:expand-eri:{label}",
                          "expand_antisym_eri differs from the model "
                          "expand_eri_expr (Models/Spin.v)"
                          + (" and in value from the antisymmetrised "
                             "integrals" if bad else ""),
                          {"input": str(sym), "python": str(py),
                           "model_accepts": str(mv), "difference": bad,
                           "correspondence": "expand_eri_expr",
                           "theorem": "C15_eri_expand_value_partial"},
                          bad is not None)


def brute_blocks(E, names):
    """oracle of C15_dfs_complete / C15_block_not_reported: a target block is
    allowed iff for some term some total spin assignment of the term's
    indices gives the targets the block's spins and puts every object with a
    block table on an allowed block.  None if a table cannot be computed."""
    tg = list(get_symbols(names))
    out = set()
    for term in E.terms:
        objs = []
        for o in term.objects:
            if o.sympy.is_number:
                continue
            tb = o.allowed_spin_blocks
            if tb is not None:
                objs.append((o.idx, set(tb)))
        idx = sorted(set(term.idx) | set(tg), key=sort_idx_canonical)
        if len(idx) > 14:
            return None
        pos = {x: n for n, x in enumerate(idx)}
        for assign in itertools.product("ab", repeat=len(idx)):
            if all("".join(assign[pos[x]] for x in ix) in tb
                   for ix, tb in objs):
                out.add("".join(assign[pos[x]] for x in tg))
    return out


def nonzero_on_block(E, names, blk, tabs, seeds=(7, 8)):
    """search a spin-structured model on which the expression does not vanish
    on the target block; returns a replay dict or None"""
    ictx = adcio.IdxCtx()
    try:
        p_in = adcio.conv_expr(E.sympy, ictx)
    except adcio.Unsupported:
        return None
    tg_in = [ictx.conv(x) for x in get_symbols(names)]
    if max((len(adcio.term_contracted(t, set(tg_in))) for t in p_in),
           default=0) > 6:
        return None
    for seed in seeds:
        model = U.spin_model(seed, 1, tabs)
        ranges = [model.rng(x.space, s) for x, s in zip(tg_in, blk)]
        for combo in itertools.product(*ranges):
            try:
                val = model.eval_expr(p_in, dict(zip(tg_in, combo)))
            except ZeroDivisionError:
                continue
            if val != 0:
                return {"model_seed": seed, "block": blk,
                        "orbitals": list(combo), "value": val,
                        "prime": numeric.P}
    return None


def check_complete(ctx, label, E, names, reported, tabs):
    """reported blocks vs the brute-force oracle"""
    try:
        brute = brute_blocks(E, names)
    except Exception as ex:     # noqa
        ctx.note(f"brute force {label}: {ex!r}")
        return
    if brute is None:
        return
    missing = sorted(brute - reported)
    extra = sorted(reported - brute)
    if not ctx.obligation(f"allowed_spin_blocks complete (brute force) "
                          f"{label}", not missing, f"missing {missing}"):
        nz = None
        for blk in missing:
            nz = nonzero_on_block(E, names, blk, tabs)
            if nz is not None:
                break
        ctx.violation(
            f"C15:block-not-reported:{label}",
            "allowed_spin_blocks(expr, target) does not report a block on "
            "which a consistent spin assignment exists"
            + (" and the expression is non-zero" if nz else ""),
            {"expr": str(E.sympy)[:1000], "targets": names,
             "reported": sorted(reported), "brute_force": sorted(brute),
             "missing": missing, "nonzero_value": nz,
             "theorem": "C15_dfs_complete / C15_block_not_reported"},
            nz is not None)
    if not ctx.obligation(f"allowed_spin_blocks sound (brute force) {label}",
                          not extra, f"extra {extra}"):
        ctx.violation(
            f"C15:block-reported-without-assignment:{label}",
            "allowed_spin_blocks(expr, target) reports a block for which no "
            "consistent spin assignment exists",
            {"expr": str(E.sympy)[:1000], "targets": names,
             "reported": sorted(reported), "brute_force": sorted(brute),
             "extra": extra}, False)


def corpus_blocks():
    """expressions kept because a seeded defect showed on them"""
    a, b, c, d, e, f = get_symbols("abcdef")
    m, n = get_symbols("mn")
    # W^{bd}_{ef} = - t1^{be}_{mn} t2^{a}_{n} t2^{c}_{m} <ac||df>: needs
    # backtracking in _has_valid_combination after a trial that put beta on an
    # index the valid combination needs as alpha
    W = (-Amplitude("t1", (b, e), (m, n)) * Amplitude("t2", (a,), (n,))
         * Amplitude("t2", (c,), (m,))
         * AntiSymmetricTensor("V", (a, c), (d, f)))
    return [("corpus:W_bdef", Expr(W, target_idx=[b, d, e, f]), "bdef")]


def stage_expr_blocks(ctx, tabs, quick):
    """D: allowed_spin_blocks(expr, target) == model; a block that is not
    reported is zero on a spin-structured tensor model"""
    rng = ctx.rng
    itab_def = f"Definition ITAB : itable := {U.coq_itab(tabs)}.\n"
    inputs = corpus_blocks()
    for name, it in Intermediates().available.items():
        try:
            ex = it.expand_itmd(fully_expand=False).expand()
        except Exception as e:       # noqa
            ctx.note(f"expand_itmd {name}: {e!r}")
            continue
        if len(it.default_idx) > (6 if quick else 8):
            continue
        inputs.append((f"itmd:{name}", ex, "".join(it.default_idx)))
    voc = U.vocab(rng)
    n_gen = 60 if quick else 300
    while n_gen:
        nt = rng.choice([1, 1, 2, 3])
        terms, tg = [], None
        for _ in range(nt):
            sym, _k = U.random_product(rng, voc, rng.choice([1, 2, 3]),
                                       kinds=None if rng.random() < 0.3 else
                                       ["V", "t2", "t1", "delta", "itmd",
                                        "v"])
            terms.append(sym)
        E0 = Expr(terms[0])
        if E0.sympy == 0:
            continue
        if tg is None:
            allidx = sorted(set(E0.terms[0].idx), key=sort_idx_canonical)
            tg = rng.sample(allidx, rng.randint(0, min(4, len(allidx))))
        if nt > 1:
            # other terms: alpha-variants of the first with another coupling
            terms = [terms[0]] + [t for t in terms[1:]
                                  if set(tg) <= t.free_symbols]
        n_gen -= 1
        names = "".join(x.name for x in tg)
        inputs.append((f"gen{n_gen}", Expr(Add(*terms), target_idx=tg), names))
    cases, obs = [], []
    for label, E, names in inputs:
        try:
            py = ("ok", [list(b) for b in so.allowed_spin_blocks(E, names)])
        except Exception as ex:     # noqa
            py = ("exc", type(ex).__name__)
        ictx = adcio.IdxCtx()
        try:
            alist = [U.term_atoms(t, ictx) for t in E.terms]
        except adcio.Unsupported as ex:
            ctx.note(f"blocks {label}: unsupported {ex}")
            continue
        tg = adcio.coq_list(ictx.conv(x).coq() for x in get_symbols(names))
        cases.append(f"expr_allowed_blocks ITAB {tg} "
                     f"{adcio.coq_list(U.coq_atoms(a) for a in alist)}")
        obs.append((label, E, names, py))
    vals, _ = ctx.coq_eval("blocks", cases, header=U.COQ_HEADER,
                           defs=itab_def, shard=8)
    for (label, E, names, py), v in zip(obs, vals):
        mv = U.parse_res(v)
        if mv[0] == "err":
            mv = ("exc", U.ERR_CLASS[mv[1]])
        same = py == mv
        ctx.case(key=("blocks", str(E.sympy), names),
                 nontrivial=len(names) >= 2, kind=f"expr-blocks:tg{len(names)}",
                 sample={"label": label, "expr": str(E.sympy)[:200],
                         "targets": names, "blocks": str(py[1])[:200]})
        if not ctx.obligation(f"allowed_spin_blocks(expr) == model {label}",
                              same, f"python {py} model {mv}"):
            ctx.violation(f"C15:expr-blocks:{label}",
                          "allowed_spin_blocks(expr, target) differs from the "
                          "model expr_allowed_blocks (Models/Spin.v)",
                          {"expr": str(E.sympy)[:1000], "targets": names,
                           "python": py, "model": mv,
                           "correspondence": "expr_allowed_blocks"}, False)
        if py[0] != "ok" or len(names) > 4:
            continue
        reported = {"".join(b) for b in py[1]}
        check_complete(ctx, label, E, names, reported, tabs)
        # numeric: every block that is not reported vanishes
        ictx = adcio.IdxCtx()
        try:
            p_in = adcio.conv_expr(E.sympy, ictx)
        except adcio.Unsupported:
            continue
        tg_in = [ictx.conv(x) for x in get_symbols(names)]
        if max((len(adcio.term_contracted(t, set(tg_in))) for t in p_in),
               default=0) > 5:
            continue
        model = U.spin_model(7, 1, tabs)
        for blk in spin_strings(len(names)):
            if blk in reported:
                continue
            ranges = [model.rng(x.space, s) for x, s in zip(tg_in, blk)]
            for combo in itertools.product(*ranges):
                try:
                    val = model.eval_expr(p_in, dict(zip(tg_in, combo)))
                except ZeroDivisionError:
                    continue
                if not ctx.obligation(
                        f"unreported block {blk} of {label} is zero",
                        val == 0):
                    ctx.violation(
                        f"C15:unreported-block-nonzero:{label}:{blk}",
                        "a spin block that allowed_spin_blocks does not "
                        "report has a non-zero value",
                        {"expr": str(E.sympy)[:1000], "targets": names,
                         "block": blk, "orbitals": combo, "value": val,
                         "reported": sorted(reported)}, True)
                    break


def stage_blocks_bruteforce(ctx, tabs, quick):
    """D2: allowed_spin_blocks(expr, target) against the brute-force oracle on
    products of 3-4 objects with block tables that share contracted indices
    (no Coq evaluation: many cheap cases)"""
    rng = ctx.rng
    voc = U.vocab(rng)
    n = 700 if quick else 5000
    done = 0
    tries = 0
    while done < n and tries < 5 * n:
        tries += 1
        sym, _k = U.random_product(rng, voc, rng.choice([3, 3, 4, 4, 5]),
                                   kinds=["V", "t2", "t1", "t1", "t3"])
        E0 = Expr(sym)
        if E0.sympy == 0:
            continue
        allidx = sorted(set(E0.terms[0].idx), key=sort_idx_canonical)
        if len(allidx) > 10:
            continue
        tg = rng.sample(allidx, rng.randint(2, min(4, len(allidx))))
        names = "".join(x.name for x in tg)
        E = Expr(sym, target_idx=tg)
        try:
            rep = {"".join(b) for b in so.allowed_spin_blocks(E, names)}
        except Exception as ex:     # noqa
            ctx.obligation(f"allowed_spin_blocks raises {sym}", False,
                           repr(ex))
            ctx.violation(f"C15:expr-blocks-exception:bf{done}",
                          f"allowed_spin_blocks raised {ex!r}",
                          {"expr": str(sym), "targets": names}, True)
            done += 1
            continue
        done += 1
        ctx.case(key=("bf", str(sym), names), nontrivial=True,
                 kind=f"expr-blocks-bruteforce:objs{len(E.terms[0].objects)}")
        check_complete(ctx, f"bf{done}:{sym}"[:160], E, names, rep, tabs)


def _rand_hvc_instance(rng, pool):
    """lists of candidate idx-maps per object; often with a hidden solution
    that is reached only after backtracking over alpha/beta conflicts"""
    n_obj = rng.randint(2, 5)
    hidden = {x: rng.choice("ab") for x in pool} \
        if rng.random() < 0.7 else None
    inst = []
    for _ in range(n_obj):
        sub = rng.sample(pool, rng.randint(1, 3))
        cands = []
        for _ in range(rng.randint(1, 4)):
            c = tuple(rng.choice("ab") for _ in sub)
            if c not in cands:
                cands.append(c)
        if hidden is not None:
            h = tuple(hidden[x] for x in sub)
            if h in cands:
                cands.remove(h)
            # decoys first: the solution is reached after failed trials
            cands.insert(rng.choice([len(cands), len(cands),
                                     rng.randint(0, len(cands))]), h)
        inst.append([{"a": {x for x, sp in zip(sub, c) if sp == "a"},
                      "b": {x for x, sp in zip(sub, c) if sp == "b"}}
                     for c in cands])
    return inst


def stage_hvc(ctx, quick):
    """G: _has_valid_combination itself (called through the module) against
    the Gallina hvc and against a brute-force product search"""
    rng = ctx.rng
    pool = list(get_symbols("ijkabc"))
    ictx = adcio.IdxCtx()
    cq = {x: ictx.conv(x).coq() for x in pool}

    def coq_set(st):
        return "[" + "; ".join(cq[x] for x in sorted(
            st, key=sort_idx_canonical)) + "]"

    def coq_map(m):
        return f"(SMap {coq_set(m['a'])} {coq_set(m['b'])})"
    n = 3000 if quick else 15000
    cases, obs = [], []
    for k in range(n):
        inst = _rand_hvc_instance(rng, pool)
        arg = [[{"a": set(m["a"]), "b": set(m["b"])} for m in l]
               for l in inst]
        variant = {"a": set(), "b": set()}
        try:
            res = bool(so._has_valid_combination(arg, 0, variant))
            exc = None
        except Exception as ex:     # noqa
            res, exc = None, repr(ex)
        # brute force: one map per object, no index with two spins
        oracle = None
        for choice in itertools.product(*inst):
            a = set().union(*(m["a"] for m in choice))
            b = set().union(*(m["b"] for m in choice))
            if not a & b:
                oracle = {"a": a, "b": b}
                break
        untouched = (arg == inst)
        cases.append(
            "match hvc " + adcio.coq_list(
                adcio.coq_list(coq_map(m) for m in l) for l in inst)
            + " sempty with Some v => Some (smap_eqb v "
            + coq_map(variant) + ") | None => None end")
        obs.append((inst, res, exc, variant, oracle, untouched))
    vals, _ = ctx.coq_eval("hvc", cases, header=U.COQ_HEADER, shard=500)
    n_true = n_back = 0
    for k, ((inst, res, exc, variant, oracle, untouched), v) in \
            enumerate(zip(obs, vals)):
        v = (v or "").strip()
        model_true = v.startswith("Some")
        n_true += bool(res)
        first = all(not (l[0]["a"] & m["b"] or l[0]["b"] & m["a"])
                    for n_, l in enumerate(inst) for m in
                    [x[0] for x in inst[:n_]])
        n_back += bool(res) and not first
        ok = (exc is None and res == model_true and res == (oracle is not None)
              and untouched
              and (v == "Some true" if res else
                   variant == {"a": set(), "b": set()}))
        ctx.case(key=("hvc", repr(inst)), nontrivial=len(inst) >= 3,
                 kind=f"hvc:{'found' if res else 'none'}")
        if not ctx.obligation(f"_has_valid_combination == hvc == brute "
                              f"force #{k}", ok,
                              f"python {res} {exc} model {v} oracle "
                              f"{oracle is not None}"):
            ctx.violation(
                f"C15:has-valid-combination:#{k}",
                "_has_valid_combination differs from the model hvc / from "
                "the brute-force search over all choices of one map per "
                "object, or leaves additions of a failed trial in the "
                "variant",
                {"candidate_maps": repr(inst), "python": res,
                 "exception": exc, "variant_after": repr(variant),
                 "model": v, "brute_force_solution": repr(oracle),
                 "theorem": "C15_dfs_sound / C15_dfs_complete"},
                exc is None and res is False and oracle is not None)
            if len([x for x in ctx.violations
                    if x["key"].startswith("C15:has-valid")]) >= 5:
                break
    ctx.extra["hvc_stats"] = {"instances": len(obs), "found": n_true,
                              "found_after_backtracking": n_back}


def multiterm_exprs(ctx, quick):
    """sums of 2-4 terms with the same (provided) targets whose terms allow
    different spin blocks: delta products, single tensors, contractions,
    generated products containing every target"""
    rng = ctx.rng
    i, j, k, l = get_symbols("ijkl")
    a, b, c, d = get_symbols("abcd")
    V = lambda u, lo: AntiSymmetricTensor("V", u, lo, 1)       # noqa
    t1 = lambda u, lo: Amplitude("t1", u, lo)                  # noqa
    t2 = lambda u, lo: Amplitude("t2", u, lo)                  # noqa
    f = lambda x, y: AntiSymmetricTensor("f", (x,), (y,), 1)   # noqa
    p2 = lambda x, y: AntiSymmetricTensor("p2", (x,), (y,), 1)  # noqa
    dl = KroneckerDelta
    pools = {
        (i, j, a, b): [
            dl(i, j) * dl(a, b), t1((a, b), (i, j)),
            t1((a, c), (i, k)) * t1((b, c), (j, k)), V((a, b), (i, j)),
            V((i, a), (j, b)), dl(i, j) * f(a, b), dl(a, b) * f(i, j),
            t2((a,), (i,)) * t2((b,), (j,)),
            V((a, k), (i, c)) * t1((b, c), (j, k)),
            p2(i, j) * dl(a, b), dl(i, j) * p2(a, b),
            V((k, l), (c, d)) * t1((a, c), (i, k)) * t1((b, d), (j, l)),
            t1((a, b), (k, l)) * V((k, l), (i, j)),
            t2((a,), (j,)) * t2((b,), (i,)), dl(i, j) * t2((a,), (k,)) *
            t2((b,), (k,))],
        (i, a): [
            t2((a,), (i,)), f(i, a), t1((a, b), (i, j)) * t2((b,), (j,)),
            V((j, a), (b, c)) * t1((b, c), (i, j)),
            V((j, k), (i, b)) * t1((a, b), (j, k)),
            AntiSymmetricTensor("p3", (i,), (a,), 1),
            t1((a, b), (i, j)) * f(j, b), V((i, j), (a, b)) * t2((b,), (j,))],
        (i, j): [
            dl(i, j), f(i, j), p2(i, j),
            t1((a, b), (i, k)) * t1((a, b), (j, k)), V((i, k), (j, k)),
            t2((a,), (i,)) * t2((a,), (j,)), dl(i, j) * V((k, l), (k, l)),
            V((i, a), (j, b)) * p2(a, b)],
        (a, b): [
            dl(a, b), f(a, b), p2(a, b),
            t1((a, c), (i, j)) * t1((b, c), (i, j)), V((a, i), (b, i)),
            t2((a,), (i,)) * t2((b,), (i,))],
    }
    out = []
    # corpus: the example of the seeded defect (flag term_vanishes not reset)
    out.append(("corpus:delta*delta+t+tt", dl(i, j) * dl(a, b)
                + t1((a, b), (i, j)) + t1((a, c), (i, k)) * t1((b, c), (j, k)),
                [i, j, a, b]))
    out.append(("corpus:t+delta*delta", t1((a, b), (i, j))
                + dl(i, j) * dl(a, b), [i, j, a, b]))
    voc = U.vocab(rng)
    n = 16 if quick else 120
    for num in range(n):
        tg = rng.choice(list(pools) + [(i, j, a, b)] * 2)
        cand = list(pools[tg])
        # generated products that carry every target
        for _ in range(6):
            sym, _k = U.random_product(rng, voc, rng.choice([1, 2, 3]),
                                       kinds=["V", "t2", "t1", "delta", "f",
                                              "itmd", "XY", "d"])
            if sym != 0 and set(tg) <= sym.free_symbols and \
                    not sym.atoms(Pow):
                cand.append(sym)
        terms = rng.sample(cand, rng.randint(2, min(4, len(cand))))
        sym = Add(*[Rational(rng.choice([1, -1, 2, 1, -1, 3]),
                             rng.choice([1, 2, 4, 1])) * t for t in terms])
        tgl = list(tg)
        rng.shuffle(tgl)
        out.append((f"multi{num}", sym, tgl))
    return out


def stage_multiterm(ctx, tabs, quick):
    """F: integrate_spin / transform_to_spatial_orbitals on sums of terms that
    allow different spin blocks, for every target spin string: the
    contributions before the final simplify == model integrate_expr (sum of
    the per-term results), numeric value of the result"""
    itab_def = f"Definition ITAB : itable := {U.coq_itab(tabs)}.\n"
    coq_cases, rows = [], []
    for label, sym, tg in multiterm_exprs(ctx, quick):
        cs = Case(label, sym, tg, True)
        try:
            E = cs.expr()
        except Exception as ex:     # noqa
            ctx.note(f"{label}: Expr() raised {ex!r}")
            continue
        if E.sympy == 0 or len(E.terms) < 2:
            continue
        for spins in spin_strings(len(tg)):
            ob = U.observe_integrate(cs.expr(), cs.names, spins)
            if ob.exc is not None and ob.exc_in_simplify:
                k = "simplify-raises(TODO in source: polynoms)"
                ctx.dist[k] = ctx.dist.get(k, 0) + 1
                continue
            ictx = adcio.IdxCtx()
            try:
                p_in = adcio.conv_expr(E.sympy, ictx)
                p_pre = adcio.conv_expr(Add(*ob.pre), ictx)
            except adcio.Unsupported as ex:
                ctx.note(f"{label}: unsupported {ex}")
                break
            tgc = [ictx.conv(x) for x in cs.targets]
            tm = U.coq_tmap(zip(tgc, spins))
            allidx = adcio.coq_list(x.coq() for x in all_idx_list([p_pre]))
            coq_cases.append(
                f"match integrate_expr ITAB {tm} {adcio.coq_expr(p_in)} with "
                f"| Ok e1 => Ok (check_equiv {allidx} [] [] e1 "
                f"{adcio.coq_expr(p_pre)}, List.length e1) | Err c => Err c end")
            rows.append((cs, spins, ob, len(E.terms)))
    vals, _ = ctx.coq_eval("multiterm", coq_cases, header=U.COQ_HEADER,
                           defs=itab_def, shard=40)
    for (cs, spins, ob, nterms), v in zip(rows, vals):
        label = f"{cs.label}[{spins}]"
        v = (v or "").replace(" ", "")
        if ob.exc is not None:
            same = v.startswith("Err") and \
                U.ERR_CLASS[int(v[3:].strip("()"))] == ob.exc
        else:
            same = v.startswith("Ok(true,")
        n_sub = len(ob.subs)
        ctx.case(key=(str(cs.sym), cs.names, spins, "multiterm"),
                 nontrivial=True, kind=f"multiterm:terms{nterms}:"
                                       f"tg{len(spins)}",
                 sample={"label": label, "expr": str(cs.sym)[:240],
                         "targets": cs.names, "spins": spins,
                         "substituted_terms": n_sub,
                         "result": str(getattr(ob.result, "sympy",
                                               ob.exc))[:200]})
        bad = None
        if ob.exc is None:
            check_targets(ctx, cs, spins, ob.result, spins, "integrate_spin")
            bad = value_check(ctx, cs, spins, ob.result, tabs)
            ctx.obligation(f"value of integrate_spin {label}", bad is None,
                           str(bad))
        if not ctx.obligation(f"integrate_spin contributions == model "
                              f"integrate_expr {label}", same,
                              f"model {v} python exc {ob.exc}") \
                or bad is not None:
            ctx.violation(
                f"C15:multiterm:{cs.label}:{spins}",
                "integrate_spin on a sum of terms differs from the model "
                "integrate_expr (sum of the per-term enumerations)"
                + (" and in value from the spin-orbital expression on the "
                   "requested block" if bad else ""),
                {"expr": str(cs.sym), "targets": cs.names, "spins": spins,
                 "python_result": str(getattr(ob.result, "sympy", ob.exc)),
                 "model_accepts": v, "difference": bad,
                 "theorem": "C15_integrate_value (per term)"},
                bad is not None)
            continue
        if ob.exc is not None:
            continue
        for restricted, expand in ((False, True), (True, True)):
            mode = f"restricted={restricted},expand_eri={expand}"
            try:
                out = so.transform_to_spatial_orbitals(
                    cs.expr(), cs.names, spins, restricted=restricted,
                    expand_eri=expand)
            except Exception as ex:     # noqa
                ctx.note(f"{label} {mode}: {ex!r}"[:200])
                continue
            bad = value_check(ctx, cs, spins, out, tabs,
                              restricted=restricted, eri_from_coulomb=expand)
            ctx.case(key=(str(cs.sym), cs.names, spins, mode, "multiterm"),
                     kind=f"multiterm:{mode}")
            if not ctx.obligation(f"value of transform {mode} {label}",
                                  bad is None, str(bad)):
                ctx.violation(
                    f"C15:multiterm-transform:{cs.label}:{spins}:{mode}",
                    "transform_to_spatial_orbitals on a sum of terms differs "
                    "in value from the spin-orbital expression on the "
                    "requested block",
                    {"expr": str(cs.sym), "targets": cs.names,
                     "spins": spins, "mode": mode,
                     "python": str(out.sympy)[:1000], "difference": bad},
                    True)


def split_pair(v):
    """'(x, y)' printed by Coq -> (x, y) for res values"""
    v = v.strip()
    if v.startswith("("):
        v = v[1:-1]
    k = v.index(",")
    return v[:k], v[k + 1:]


def stage_pipeline(ctx, tabs, cases, quick):
    """E: transform_to_spatial_orbitals == model pipeline (syntactic for the
    enumeration, ERI expansion and beta->alpha renaming; the final simplify of
    integrate_spin by a kernel-checked certificate) + value checks"""
    rng = ctx.rng
    itab_def = f"Definition ITAB : itable := {U.coq_itab(tabs)}.\n"
    coq_cases, rows, pairs = [], [], []
    for cs in cases:
        E = cs.expr()
        if E.sympy == 0:
            continue
        term = E.terms[0]
        if len(E.terms) != 1:
            continue
        if any(o.name == "V" and o.bra_ket_sym != 1 for o in term.objects
               if not o.sympy.is_number and hasattr(o, "name")):
            continue
        sps = spin_strings(len(cs.targets))
        if len(sps) > 4 and not cs.label.startswith("eri-power"):
            sps = rng.sample(sps, 4)
            if cs.label.startswith("sentinel"):
                sps = ["b" * len(cs.targets)] + sps[:2]
        for spins in sps:
            ob = U.observe_integrate(cs.expr(), cs.names, spins)
            if ob.exc is not None:
                continue
            ictx = adcio.IdxCtx()
            try:
                p_in = adcio.conv_expr(E.sympy, ictx)
                if not ob.pre:
                    ob.pre = [ob.result.sympy]      # number term: no simplify
                p_pre = adcio.conv_expr(Add(*ob.pre), ictx)
            except adcio.Unsupported:
                continue
            tgc = [ictx.conv(x) for x in cs.targets]
            tm = U.coq_tmap(zip(tgc, spins))
            allidx = adcio.coq_list(
                x.coq() for x in all_idx_list([p_pre]))
            coq_cases.append(
                f"match integrate_expr ITAB {tm} "
                f"{adcio.coq_expr(p_in)} with | Ok e1 => Ok (check_equiv "
                f"{allidx} [] [] e1 {adcio.coq_expr(p_pre)}) "
                f"| Err c => Err c end")
            rows.append(("integrate", cs, spins, None))
            tg_out = get_symbols(cs.names, spins) if cs.targets else []
            pairs.append(EQ.Pair(Add(*ob.pre), ob.result.sympy, tg_out,
                                 f"{cs.label}[{spins}]:simplify"))
            # ERI expansion and restriction applied to the integrated result
            for restricted, expand in ((False, True), (True, True),
                                       (True, False)):
                try:
                    out = so.transform_to_spatial_orbitals(
                        cs.expr(), cs.names, spins, restricted=restricted,
                        expand_eri=expand)
                    py = ("ok", out)
                except Exception as ex:     # noqa
                    py = ("exc", type(ex).__name__)
                ictx = adcio.IdxCtx()
                try:
                    p_int = adcio.conv_expr(ob.result.sympy, ictx)
                    p_out = adcio.conv_expr(py[1].sympy, ictx) \
                        if py[0] == "ok" else []
                except adcio.Unsupported:
                    continue
                allidx = adcio.coq_list(
                    x.coq() for x in all_idx_list([p_int, p_out]))
                coq_cases.append(
                    f"match rbind ({'expand_eri_expr' if expand else 'Ok'}"
                    f" {adcio.coq_expr(p_int)}) "
                    f"{'restrict_expr' if restricted else 'Ok'}"
                    f" with | Ok e1 => Ok (check_equiv {allidx} [] [] e1 "
                    f"{adcio.coq_expr(p_out)}) | Err c => Err c end")
                rows.append(("transform", cs, spins,
                             (restricted, expand, py)))
    vals, _ = ctx.coq_eval("pipeline", coq_cases, header=U.COQ_HEADER,
                           defs=itab_def, shard=60)
    for (what, cs, spins, extra), v in zip(rows, vals):
        label = f"{cs.label}[{spins}]"
        mv = U.parse_res(v)
        if what == "integrate":
            same = mv == ("ok", True)
            ctx.case(key=(str(cs.sym), cs.names, spins, "pre"),
                     kind="pipeline:integrate_expr")
            if not ctx.obligation(
                    f"integrate_expr model == contribution before simplify "
                    f"{label}", same, str(mv)):
                ctx.violation(
                    vkey(cs, f"C15:integrate-expr:{cs.label}:{spins}"),
                    "the sum of substituted terms built by integrate_spin "
                    "differs from the model integrate_expr",
                    {"term": str(cs.sym), "targets": cs.names,
                     "spins": spins, "model_accepts": str(mv),
                     "correspondence": "integrate_expr"}, False)
            continue
        restricted, expand, py = extra
        mode = f"restricted={restricted},expand_eri={expand}"
        def acc(m):
            if py[0] == "ok":
                return m == ("ok", True)
            return m[0] == "err" and U.ERR_CLASS[m[1]] == py[1]
        same = acc(mv)
        ctx.case(key=(str(cs.sym), cs.names, spins, mode),
                 kind=f"pipeline:{mode}",
                 sample={"label": label, "mode": mode,
                         "term": str(cs.sym)[:200],
                         "out": str(py[1])[:200]})
        if not ctx.obligation(f"transform {mode} == model {label}", same,
                              f"python {str(py)[:300]} model {mv}"):
            bad = None
            if py[0] == "ok":       # failing-input search
                bad = value_check(ctx, cs, spins, py[1], tabs,
                                  restricted=restricted,
                                  eri_from_coulomb=expand)
            ctx.violation(
                vkey(cs, f"C15:transform:{cs.label}:{spins}:{mode}"),
                "transform_to_spatial_orbitals differs from the model "
                "(expand_eri_expr / restrict_expr)"
                + (" and in value from the spin-orbital expression"
                   if bad else ""),
                {"term": str(cs.sym), "targets": cs.names, "spins": spins,
                 "mode": mode,
                 "python": str(getattr(py[1], "sympy", py[1]))[:1000],
                 "model_accepts": str(mv), "difference": bad},
                bad is not None)
            continue
        if py[0] != "ok":
            continue
        check_targets(ctx, cs, spins, py[1],
                      "a" * len(spins) if restricted else spins,
                      f"transform {mode}")
        bad = value_check(ctx, cs, spins, py[1], tabs, restricted=restricted,
                          eri_from_coulomb=expand)
        if not ctx.obligation(f"value of transform {mode} {label}",
                              bad is None, str(bad)):
            ctx.violation(
                vkey(cs, f"C15:transform-value:{cs.label}:{spins}:{mode}"),
                "transform_to_spatial_orbitals result differs in value from "
                "the spin-orbital expression on the requested block",
                {"term": str(cs.sym), "targets": cs.names, "spins": spins,
                 "mode": mode, "python": str(py[1])[:1000],
                 "difference": bad}, True)
    EQ.run_pairs(ctx, "simplify", pairs, shard=30)
    for p in pairs:
        if p.ok is None:
            ctx.note(f"{p.label}: {p.err}")
            continue
        ctx.case(key=("simplify", p.label), kind="pipeline:final-simplify")
        if not ctx.obligation(f"final simplify keeps the value {p.label}",
                              p.ok, p.err):
            ctx.violation(
                f"C15:final-simplify:{p.label}",
                "the simplify call at the end of integrate_spin is not "
                "proved value-preserving by the verified validator",
                {"case": EQ.describe(p), "difference": p.diff},
                p.diff is not None)


def run(ctx):
    U.quiet()
    quick = ctx.tier == "quick"
    tabs, failed, info = U.dump_itab()
    ctx.extra["intermediate_tables"] = {k: list(v) for k, v in tabs.items()}
    stage_tables(ctx, tabs, failed, info)
    cases = fixed_cases() + gen_cases(ctx, 120 if quick else 600)
    stage_integrate(ctx, tabs, cases)
    stage_expand(ctx, tabs)
    stage_expr_blocks(ctx, tabs, quick)
    stage_multiterm(ctx, tabs, quick)
    stage_blocks_bruteforce(ctx, tabs, quick)
    stage_hvc(ctx, quick)
    stage_pipeline(ctx, tabs, cases[:(60 if quick else 300)], quick)


def replay(ctx, rep):
    print(rep)
    return 0
