"""C13 - orbital-energy fraction algebra and Fock diagonalisation."""
import sys
from fractions import Fraction
from sympy import Add, Mul, S, Rational, Pow
from adcgen.expr_container import Expr
from adcgen.indices import Index, get_symbols
from adcgen.eri_orbenergy import EriOrbenergy
from adcgen.sympy_objects import NonSymmetricTensor, AntiSymmetricTensor
import adcio
import certfind
import gen_terms as G
import equivcheck as EQ
import numeric

RE = sys.modules["adcgen.reduce_expr"]
LEVEL = "proof"
RULE = ("random terms prefactor * numerator(linear in orbital energies, "
        "rational coefficients) * remainder(1-3 tensors) / product of 1-3 "
        "orbital-energy brackets (2/4/6 energies, exponents 1-2, either "
        "overall sign; every fourth term without denominator and with a "
        "remainder symmetric in target indices); operations: split+rebuild, canonicalize_sign "
        "(both modes), permute_num, denom_eri_sym (reported common "
        "symmetries, also with antisymmetric denominators), "
        "cancel_orb_energy_frac, factor_eri_parts,"
        " factor_denom, use_symbolic_denominators / use_explicit_denominators"
        " (both directions), diagonalize_fock, block_diagonalize_fock. "
        "Non-trivial: denominator present; distinct by (operation, input)")
TRUSTED = ["certificate finder (untrusted; Coq re-checks)",
           "Python mirrors of unfold_D / unfold_fock are used only to find "
           "certificates; the unfolding that is compared is done in Coq"]
ASSUMPTIONS = [
    "scalars form a field (x<>0 -> x*inv x = 1, 1<>0); every orbital-energy "
    "bracket occurring in a denominator is non-zero for all assignments",
    "symbolic denominators: tensor model gives D^{u}_{l} the value "
    "1/(sum e_u - sum e_l) (Models/OrbEnergy.v D_model)",
    "Fock diagonalisation: f_pq = delta_pq e_p (fock_model); "
    "block-diagonalisation: f_ov = f_vo = 0, checked numerically only",
]

HEADER = adcio.COQ_HEADER3 + "From ADC Require Import Models.OrbEnergy.\n"


def e_(x):
    return NonSymmetricTensor("e", (x,))


def bracket(rng, occ, virt, n):
    os_ = rng.sample(occ, n)
    vs_ = rng.sample(virt, n)
    s = rng.choice([1, -1])
    return s * (Add(*[e_(x) for x in os_]) - Add(*[e_(x) for x in vs_]))


def gen_fraction_term(rng, with_num=True, with_den=True):
    occ, virt = G.pool("o", 6), G.pool("v", 6)
    ntg = rng.choice([(0, 0), (1, 1), (2, 2), (1, 0)])
    if not with_den:
        ntg = rng.choice([(2, 2), (2, 0), (0, 2), (2, 1)])
    tg = occ[:ntg[0]] + virt[:ntg[1]]
    po, pv = occ[:ntg[0] + 3], virt[:ntg[1] + 3]
    pools = {"o": po, "v": pv}
    names = ["V", "t1", "t2", "f", "X", "Y", "d", "A", "B"]
    rem = G.random_term(rng, rng.randint(1, 3), pools, names=names)
    if not with_den:
        # remainder (anti)symmetric under permutations of target indices:
        # a tensor carrying the targets pairwise in one index group
        up = list(virt[:2]) if ntg[1] == 2 else list(virt[4:6])
        lo = list(occ[:2]) if ntg[0] == 2 else list(occ[4:6])
        rem = AntiSymmetricTensor(rng.choice(["Y", "V"]), tuple(up),
                                  tuple(lo)) * G.random_term(
            rng, 1, {"o": occ[4:6] + occ[:ntg[0]],
                     "v": virt[4:6] + virt[:ntg[1]]}, names=["A", "B", "f"])
    missing = [x for x in tg if x not in rem.atoms(Index)]
    if missing:
        rem = rem * NonSymmetricTensor("w", tuple(missing))
    io = [x for x in rem.atoms(Index) if x.space == "occ"]
    iv = [x for x in rem.atoms(Index) if x.space == "virt"]
    io.sort(key=lambda s_: s_.name)
    iv.sort(key=lambda s_: s_.name)
    den = 1
    brackets = []
    for _ in range(rng.randint(1, 3) if with_den else 0):
        n = rng.choice([1, 1, 2, 2, 3])
        n = min(n, len(io), len(iv))
        if n == 0:
            continue
        br = bracket(rng, io, iv, n)
        brackets.append(br)
        den *= br ** rng.choice([1, 1, 1, 2, 3])
    num = 1
    if with_num and io and iv and rng.random() < 0.8:
        n = min(rng.choice([1, 2, 3]), len(io), len(iv))
        os_, vs_ = rng.sample(io, n), rng.sample(iv, n)
        s = rng.choice([1, -1])
        cf = lambda: Rational(rng.choice([1, 1, 1, 2, 1, 3]),  # noqa
                              rng.choice([1, 1, 2]))
        num = s * (Add(*[cf() * e_(x) for x in os_])
                   - Add(*[cf() * e_(x) for x in vs_]))
        if brackets and rng.random() < 0.4:
            # numerator = weighted sum of the denominator brackets (weights
            # other than 1: the cancellation rescales the prefactor)
            sg_ = rng.choice([1, -1])
            num = Add(*[sg_ * rng.choice([1, 2, 3, 2, Rational(1, 2)]) *
                        (b if b.coeff(e_(io[0])) >= 0 or True else b)
                        for b in brackets])
            if rng.random() < 0.3:
                num += cf() * e_(rng.choice(io))
    term = G.random_coef(rng) * num * rem / den
    return term, tg, den != 1


def fail(ctx, p, op, what=None):
    ctx.violation(
        f"C13:{op}:{str(getattr(p.e1, 'sympy', p.e1))[:160]}",
        what or f"{op}: result not proved equal in value to its input",
        {"operation": op, "case": EQ.describe(p), "difference": p.diff,
         "error": p.err}, p.diff is not None)


def run(ctx):
    rng = ctx.rng
    quick = ctx.tier == "quick"
    n = 60 if quick else 300
    special = {"e": numeric.orb_energy_special}
    pairs = []

    def add(op, E, res, tg, **kw):
        pairs.append(EQ.Pair(E, res, tg, op, special=special, frac="e",
                             meta={"op": op}, **kw))

    # ---- A: single-term fraction operations -----------------------------
    for k in range(n):
        # every fourth term has no denominator (number), but an
        # orbital-energy numerator and a target-symmetric remainder
        term, tg, has_den = gen_fraction_term(rng, with_den=bool(k % 4))
        E = Expr(term, target_idx=tg)
        if len(E.terms) != 1 and not isinstance(E.sympy, Mul):
            continue
        ops = [("split_rebuild", lambda t: EriOrbenergy(t).expr),
               ("canonicalize_sign",
                lambda t: EriOrbenergy(t).canonicalize_sign().expr),
               ("canonicalize_sign_only_denom",
                lambda t: EriOrbenergy(t).canonicalize_sign(
                    only_denom=True).expr),
               ("permute_num", lambda t: EriOrbenergy(t).permute_num().expr),
               ("cancel_orb_energy_frac",
                lambda t: EriOrbenergy(t).cancel_orb_energy_frac())]
        for op, fn in ops:
            try:
                res = fn(Expr(term, target_idx=tg).terms[0])
            except RuntimeError as ex:
                if "Ambiguous signs" in str(ex):
                    # explicit refusal: occupied (virtual) orbital energies
                    # with mixed signs in the numerator
                    ctx.dist[f"{op}:refused-ambiguous-signs"] = ctx.dist.get(
                        f"{op}:refused-ambiguous-signs", 0) + 1
                    continue
                ctx.violation(f"C13:{op}:exception:{str(term)[:120]}",
                              f"{op} raised {ex!r}", {"term": str(term)},
                              False)
                continue
            except Exception as ex:
                ctx.violation(f"C13:{op}:exception:{str(term)[:120]}",
                              f"{op} raised {ex!r}", {"term": str(term)},
                              False)
                continue
            add(op, E, res, tg)
            ctx.case(key=(op, str(term)),
                     nontrivial=has_den or op == "permute_num",
                     sample={"op": op, "term": str(term)[:250],
                             "result": str(getattr(res, "sympy", res))[:250]},
                     kind=op)

    # ---- A': common symmetry of remainder and denominator (denom_eri_sym),
    #      also for denominators that are ANTIsymmetric under a permutation
    #      (e_i - e_j, e_a - e_b); pointwise statement: all indices free ----
    from adcgen.sympy_objects import Amplitude as _Amp
    occ, virt = G.pool("o", 6), G.pool("v", 6)
    i_, j_, k_ = occ[:3]
    a_, b_, c_ = virt[:3]
    rems = [AntiSymmetricTensor("V", (i_, j_), (a_, b_), 1),
            _Amp("t1", (a_, b_), (i_, j_)),
            AntiSymmetricTensor("V", (i_, j_), (a_, b_), 1)
            * NonSymmetricTensor("X", (k_, c_)),
            AntiSymmetricTensor("V", (i_, k_), (a_, c_), 1)
            * _Amp("t1", (b_, c_), (j_, k_))]
    dens = [e_(i_) - e_(j_), e_(a_) - e_(b_),
            e_(i_) + e_(j_) - e_(a_) - e_(b_), e_(i_) - e_(a_),
            (e_(i_) - e_(j_)) * (e_(a_) - e_(b_)),
            (e_(i_) - e_(j_)) ** 2, (e_(a_) - e_(b_)) ** 3]
    for rem_ in rems:
        for den_ in dens:
            term = G.random_coef(rng) * rem_ / den_
            allidx = sorted(term.atoms(Index), key=lambda s_: s_.name)
            try:
                eo_ = EriOrbenergy(Expr(term).terms[0])
                sym_ = eo_.denom_eri_sym()
            except Exception as ex:
                ctx.violation(f"C13:denom_eri_sym:exception:{str(term)[:120]}",
                              f"denom_eri_sym raised {ex!r}",
                              {"term": str(term)}, False)
                continue
            for perms_, f_ in sym_.items():
                if f_ is None:
                    continue
                perm_t = term
                for p1, p2 in perms_:
                    perm_t = perm_t.xreplace({p1: p2, p2: p1})
                add("denom_eri_sym", Expr(perm_t, target_idx=allidx),
                    Expr(f_ * term, target_idx=allidx), allidx)
                ctx.case(key=("denom_eri_sym", str(term), str(perms_)),
                         nontrivial=True, kind="denom_eri_sym",
                         sample={"term": str(term)[:200],
                                 "perms": str(perms_), "factor": str(f_)})

    # ---- B: grouping ------------------------------------------------------
    for k in range(n // 2):
        base, tg, _ = gen_fraction_term(rng, with_num=False)
        # variants of one remainder with different / permuted denominators
        E0 = Expr(base, target_idx=tg)
        eo = EriOrbenergy(E0.terms[0])
        rem = eo.eri.sympy
        io = sorted([x for x in rem.atoms(Index) if x.space == "occ"],
                    key=lambda s_: s_.name)
        iv = sorted([x for x in rem.atoms(Index) if x.space == "virt"],
                    key=lambda s_: s_.name)
        terms = [base]
        for _ in range(rng.randint(1, 3)):
            m = min(rng.choice([1, 2]), len(io), len(iv))
            if m == 0:
                continue
            terms.append(G.random_coef(rng) * rem /
                         bracket(rng, io, iv, m) ** rng.choice([1, 2]))
        other, _, _ = gen_fraction_term(rng, with_num=False)
        if set(x for x in tg) <= other.atoms(Index):
            terms.append(other)
        E = Expr(Add(*terms), target_idx=tg)
        for op, fn in (("factor_eri_parts", RE.factor_eri_parts),
                       ("factor_denom", RE.factor_denom)):
            try:
                parts = fn(E.copy())
            except Exception as ex:
                ctx.violation(f"C13:{op}:exception:{str(E.sympy)[:120]}",
                              f"{op} raised {ex!r}", {"expr": str(E.sympy)},
                              False)
                continue
            total = Add(*[p_.sympy for p_ in parts])
            add(op, E, Expr(total, target_idx=tg), tg)
            ctx.case(key=(op, str(E.sympy)), nontrivial=len(parts) > 1,
                     kind=f"{op}:parts{min(len(parts), 4)}")
            # structural clause: equal remainder / equal denominator in a part
            for p_ in parts:
                sig = set()
                for t in p_.terms:
                    eo = EriOrbenergy(t)
                    if op == "factor_eri_parts":
                        sig.add(str(eo.eri.sympy))
                    else:
                        sig.add(str(eo.canonicalize_sign(
                            only_denom=True).denom.sympy))
                if not ctx.obligation(f"{op}: one remainder/denominator per "
                                      f"part", len(sig) <= 1, repr(sig)):
                    ctx.violation(
                        f"C13:{op}:mixed-part:{str(E.sympy)[:120]}",
                        f"{op} returned a part whose terms differ in the "
                        "remainder resp. denominator",
                        {"expr": str(E.sympy), "part": str(p_.sympy),
                         "signatures": sorted(sig)}, True)

    EQ.run_pairs(ctx, "frac", pairs, shard=25)
    for p in pairs:
        if p.ok is None:
            ctx.note(f"{p.label}: {p.err}")
            continue
        if not ctx.obligation(f"{p.label}: {str(p.e1.sympy)[:70]}", p.ok,
                              p.err):
            fail(ctx, p, p.label)

    # ---- C: symbolic denominators, D: Fock diagonalisation ---------------
    mpairs, meta = [], []
    for k in range(n):
        terms, tg = [], None
        t0, tg, _ = gen_fraction_term(rng)
        terms.append(t0)
        E = Expr(Add(*terms), target_idx=tg)
        try:
            Es = E.copy().use_symbolic_denominators()
            Ex = Es.copy().use_explicit_denominators()
        except Exception as ex:
            ctx.violation(f"C13:symbolic:exception:{str(E.sympy)[:120]}",
                          f"symbolic/explicit denominators raised {ex!r}",
                          {"expr": str(E.sympy)}, False)
            continue
        ictx = adcio.IdxCtx()
        try:
            pE = adcio.conv_expr(E, ictx)
            pS = adcio.conv_expr(Es, ictx)
            pX = adcio.conv_expr(Ex, ictx)
        except adcio.Unsupported as ex:
            ctx.note(f"unsupported {ex}")
            continue
        tgc = [ictx.conv(x) for x in tg]
        pSu = py_unfold_D(pS)
        uD = f'(unfold_D "e" "D" {adcio.coq_expr(pS)})'
        for lab, a, b, c1_ in (("symbolic", pSu, pE, uD),
                               ("explicit_of_symbolic", pX, pE, None),
                               ("symbolic_vs_explicit", pSu, pX, uD)):
            pr = EQ.Pair(None, None, [], lab, special=special, frac="e")
            pr.p1, pr.p2, pr.tg, pr.coq1 = a, b, tgc, c1_
            mpairs.append(pr)
            meta.append((lab, E, Es, Ex, a, b, tgc))
        ctx.case(key=("symbolic", str(E.sympy)), nontrivial=True,
                 sample={"expr": str(E.sympy)[:200],
                         "symbolic": str(Es.sympy)[:200]}, kind="symbolic")
    # systematic chains f_{x0 x1} f_{x1 x2} ... with a power on one link, both
    # orientations of the links, the ends on X / Y, targets none / first end
    chains = []
    for L in (2, 3, 4):
        for sp_ in "ov":
            pool_ = G.pool(sp_, 6)
            for pw_link in range(L):
                for pw in (2, 3):
                    xs = pool_[:L + 1]
                    f_ = 1
                    for k_ in range(L):
                        a_, b_ = xs[k_], xs[k_ + 1]
                        if (k_ + pw) % 2:
                            a_, b_ = b_, a_
                        f_ = f_ * AntiSymmetricTensor(
                            "f", (a_,), (b_,), 1) ** (pw if k_ == pw_link
                                                      else 1)
                    t_ = f_ * NonSymmetricTensor("X", (xs[0],)) * \
                        NonSymmetricTensor("Y", (xs[-1],))
                    chains.append((t_, [xs[0]] if (L + pw) % 2 else []))
    if quick:
        chains = rng.sample(chains, 16)
    # powers of a single Fock element with the FIRST or the SECOND index as
    # target (the surviving index then differs)
    for sp_ in "ov":
        pool_ = G.pool(sp_, 4)
        for pw in (2, 3):
            for tgt in (0, 1):
                for swap in (False, True):
                    a_, b_ = (pool_[1], pool_[0]) if swap else \
                        (pool_[0], pool_[1])
                    t_ = AntiSymmetricTensor("f", (a_,), (b_,), 1) ** pw * \
                        NonSymmetricTensor("X", (pool_[1 - tgt],))
                    chains.append((t_, [pool_[tgt]]))
    for k in range(n + len(chains)):
        occ, virt = G.pool("o", 6), G.pool("v", 6)
        ntg = rng.choice([(1, 1), (0, 0), (2, 0), (1, 0)])
        tg = occ[:ntg[0]] + virt[:ntg[1]]
        pools = {"o": occ[:ntg[0] + 3], "v": virt[:ntg[1] + 3]}
        sp = rng.choice("ov")
        p_, q_ = (rng.sample(pools[sp], 2) if rng.random() < 0.85
                  else [rng.choice(pools[sp])] * 2)
        f = AntiSymmetricTensor("f", (p_,), (q_,), rng.choice([0, 1]))
        fixed_chain = None
        if k >= n:
            fixed_chain = chains[k - n]
        if rng.random() < 0.3:
            # powers of a Fock element (also written as f_pq f_qp)
            f = f ** rng.choice([2, 2, 3]) if rng.random() < 0.6 else \
                f * AntiSymmetricTensor("f", (q_,), (p_,), 1)
        if rng.random() < 0.4:
            # further Fock elements, chained with the first one (sharing an
            # index) or independent
            for _ in range(rng.randint(1, 3)):
                cand = [x for x in pools[sp] if x not in (p_, q_)]
                r_ = rng.choice(cand)
                a_, b_ = rng.choice([(q_, r_), (r_, q_), (p_, r_),
                                     (r_, rng.choice(cand))])
                f = f * AntiSymmetricTensor("f", (a_,), (b_,), 1) ** \
                    rng.choice([1, 1, 2, 3])
                q_ = r_
        rest = G.random_term(rng, rng.randint(1, 2), pools,
                             names=["V", "t1", "t2", "X", "Y", "d"])
        term = G.random_coef(rng) * f * rest
        missing = [x for x in tg if x not in term.atoms(Index)]
        if missing:
            term = term * NonSymmetricTensor("w", tuple(missing))
        if rng.random() < 0.3:
            den = bracket(rng, pools["o"], pools["v"], 1)
            term = term / den
        if fixed_chain is not None:
            term, tg = fixed_chain
            p_, q_ = 0, 1
        E = Expr(term, target_idx=tg)
        try:
            Ed = E.copy().diagonalize_fock()
        except (NotImplementedError, TypeError) as ex:
            # documented refusal for polynomials (denominators); raised as
            # TypeError because Polynom.diagonalize_fock lacks the
            # return_sympy parameter - not a value violation
            if "olynom" in repr(ex):
                ctx.dist["diagonalize_fock:refused-polynom"] = \
                    ctx.dist.get("diagonalize_fock:refused-polynom", 0) + 1
                continue
            if "intersecting" in repr(ex):
                # documented refusal: Fock elements with intersecting
                # indices that can not be resolved
                ctx.dist["diagonalize_fock:refused-intersecting"] = \
                    ctx.dist.get("diagonalize_fock:refused-intersecting",
                                 0) + 1
                continue
            raise
        except Exception as ex:
            ctx.violation(f"C13:diagonalize_fock:exception:{str(term)[:120]}",
                          f"diagonalize_fock raised {ex!r}",
                          {"expr": str(term)}, False)
            continue
        # targets must be kept
        if not ctx.obligation("diagonalize_fock keeps the target indices",
                              set(Ed.provided_target_idx or ()) == set(tg)):
            ctx.violation(f"C13:diagonalize_fock:targets:{str(term)[:120]}",
                          "diagonalize_fock changed the target indices",
                          {"expr": str(term), "targets": repr(tg),
                           "result_targets": repr(Ed.provided_target_idx)},
                          True)
        ictx = adcio.IdxCtx()
        try:
            pE = adcio.conv_expr(E, ictx)
            pD = adcio.conv_expr(Ed, ictx)
        except adcio.Unsupported as ex:
            ctx.note(f"unsupported {ex}")
            continue
        tgc = [ictx.conv(x) for x in tg]
        a, b = py_unfold_fock(pE), py_unfold_fock(pD)
        pr = EQ.Pair(None, None, [], "diagonalize_fock", special=special,
                     frac="e")
        pr.p1, pr.p2, pr.tg = a, b, tgc
        pr.coq1 = f'(unfold_fock "e" "f" {adcio.coq_expr(pE)})'
        pr.coq2 = f'(unfold_fock "e" "f" {adcio.coq_expr(pD)})'
        mpairs.append(pr)
        meta.append(("diagonalize_fock", E, Ed, None, a, b, tgc))
        ctx.case(key=("diagfock", str(E.sympy)), nontrivial=p_ != q_,
                 sample={"expr": str(E.sympy)[:200],
                         "diag": str(Ed.sympy)[:200]},
                 kind="diagonalize_fock")
        # block diagonalisation: f_ov terms dropped, nothing else changed
        Eb = Expr(term, target_idx=tg).block_diagonalize_fock()
        expect = term  # f_oo / f_vv only in this generator
        if not ctx.obligation("block_diagonalize_fock keeps diagonal blocks",
                              (Eb.sympy - expect) == 0):
            ctx.violation(f"C13:block_diag:{str(term)[:120]}",
                          "block_diagonalize_fock changed a term without "
                          "off-diagonal Fock block",
                          {"expr": str(term), "result": str(Eb.sympy)}, True)
    # off-diagonal Fock blocks vanish
    for k in range(10 if quick else 40):
        occ, virt = G.pool("o", 4), G.pool("v", 4)
        f = AntiSymmetricTensor("f", (rng.choice(occ),), (rng.choice(virt),),
                                rng.choice([0, 1]))
        rest = G.random_term(rng, 1, {"o": occ, "v": virt},
                             names=["V", "t1", "X"])
        keep = G.random_term(rng, 2, {"o": occ, "v": virt},
                             names=["V", "t1", "f"])
        E = Expr(f * rest + keep)
        Eb = E.copy().block_diagonalize_fock()
        # expected: terms with an ov/vo Fock factor removed
        ictx = adcio.IdxCtx()
        pE = adcio.conv_expr(E.expand(), ictx)
        pB = adcio.conv_expr(Eb, ictx)

        def offdiag(t):
            return any(a[0] == "T" and a[2] == "f" and
                       {i.space for i in adcio.atom_indices(a)} ==
                       {"occ", "virt"} for a, inv in t[1])
        expect = [t for t in pE if not offdiag(t)]
        ok = sorted(map(repr, expect)) == sorted(map(repr, pB))
        ctx.case(key=("blockdiag", str(E.sympy)), kind="block_diag")
        if not ctx.obligation("block_diagonalize_fock drops exactly the "
                              "terms with f_ov / f_vo", ok):
            ctx.violation(f"C13:block_diag_offdiag:{str(E.sympy)[:120]}",
                          "block_diagonalize_fock did not drop exactly the "
                          "terms containing an off-diagonal Fock block",
                          {"expr": str(E.sympy), "result": str(Eb.sympy)},
                          True)

    EQ.run_pairs(ctx, "models", mpairs, shard=25, header=HEADER)
    for pr, (lab, E, E2, E3, a, b, tgc) in zip(mpairs, meta):
        if not ctx.obligation(f"{lab}: {str(E.sympy)[:70]}", bool(pr.ok),
                              pr.err):
            ctx.violation(
                f"C13:{lab}:{str(E.sympy)[:160]}",
                f"{lab}: result not proved equal in value to its input "
                "under the model hypothesis",
                {"operation": lab, "expr": str(E.sympy),
                 "result": str(E2.sympy), "difference": pr.diff,
                 "error": pr.err}, pr.diff is not None)


# ---- python mirrors of the Coq unfoldings (certificate search only) -------
def py_unfold_D(terms, en="e", dn="D"):
    out = []
    for c, facs in terms:
        nf = []
        for a, inv in facs:
            if a[0] == "T" and a[1] == "KSym" and a[2] == dn and a[3] == -1:
                poly = tuple([(Fraction(1), (("T", "KNonSym", en, 0, (i,), ()),))
                              for i in a[4]] +
                             [(Fraction(-1), (("T", "KNonSym", en, 0, (i,), ()),))
                              for i in a[5]])
                nf.append((("P", poly), not inv))
            else:
                nf.append((a, inv))
        out.append((c, nf))
    return out


def py_unfold_fock(terms, en="e", fn="f"):
    out = []
    for c, facs in terms:
        nf = []
        for a, inv in facs:
            if a[0] == "T" and a[1] == "KAnti" and a[2] == fn and not inv \
                    and len(a[4]) == 1 and len(a[5]) == 1:
                p, q = a[4][0], a[5][0]
                ep = ("T", "KNonSym", en, 0, (p,), ())
                if p == q:
                    nf.append((ep, False))
                else:
                    nf.append((("D", p, q), False))
                    nf.append((ep, False))
            else:
                nf.append((a, inv))
        out.append((c, nf))
    return out


def replay(ctx, rep):
    print(rep)
    return 0
