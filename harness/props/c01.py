"""C01 - Wick evaluation equals the Fermi-vacuum expectation value.

Per run:
 T  the if/elif/else table of adcgen.func._contraction is translated from the
    current source (fail closed) and proved equal to the Gallina table on the
    whole 36-case domain inside Coq; the 36 cases are also called directly.
 F  _contract_operator_string and _has_fully_contracted_contribution on
    generated and captured operator strings vs. the Gallina model (canonical
    integer-weighted multisets of delta products), plus the value of both
    against explicit determinant algebra in Python.
 E  wicks(expr, rules, simplify_kronecker_deltas) end to end against a
    brute-force determinant-space evaluation on a 2-occupied / 2-virtual
    spin-orbital model (this is also the failing-input search); delta
    evaluation on/off; Rules vs. the Gallina model of Rules.apply.
"""
import itertools
import sys
import time
import traceback

from sympy import Add, Mul, S, expand
from sympy.physics.secondquant import F, Fd, NO

import adcio
import numeric
import c01_util as U
import c01_translate as TR

LEVEL = "proof"
EXHAUSTIVE = False
RULE = ("contraction table: exhaustive (36 kind/space cases, distinct and "
        "equal indices); operator strings: structured random (built from "
        "contractible pairs, interleaved/rotated, all-general, occ/virt only, "
        "unbalanced, uniformly random; 1-10 distinct indices so that repeats "
        "are frequent), lengths 0-10 quick / 0-14 thorough, plus every string "
        "passed to _contract_operator_string during GroundState.energy / "
        "amplitude derivations; a string is non-trivial if the model returns "
        ">= 1 contribution; wicks inputs: coefficient x tensors x operator "
        "groups (bare and normal-ordered, incl. general indices inside NO and "
        "equal neighbouring operators), indices contracted with tensors or "
        "free (incl. free general indices), sums, with/without delta "
        "evaluation and block rules; regression corpus "
        "corpus/C01_regressions.json (inputs of the three repaired findings) "
        "with and without delta evaluation; distinct = "
        "distinct (kind, index-number, space) sequence resp. input text")
TRUSTED = [
    "translator harness/c01_translate.py (fail-closed ast -> Gallina for "
    "_contraction; assumes F and Fd are the only FermionicOperator classes)",
    "sympy's Mul/Add/expand, KroneckerDelta auto-evaluation and NO "
    "canonicalisation are observed (their effect is re-computed by the "
    "harness: delta_xx=1, delta_ov=0, delta**2=delta, merging of equal "
    "terms), not modelled in Coq",
    "harness-side determinant algebra (c01_util.vev_bits) is an independent "
    "oracle used for validation and failing-input search only",
]
ASSUMPTIONS = [
    "orbital assignments map every index into the range of its space "
    "(ADC.Models.Wick.env_ok)",
    "indices carry no spin (the library raises NotImplementedError otherwise)",
    "the new generic registry index created by a general-general contraction "
    "occurs only on its own delta, so summing it over its range acts on that "
    "factor alone (checked per result by the harness)",
    "normal-ordered groups are modelled in Coq for occupied/virtual indices "
    "only; groups with general indices are split by sympy "
    "(_to_adcgen_objects) and validated numerically end to end",
]

COQ_HEADER = """From Coq Require Import ZArith NArith QArith List String Bool.
From ADC Require Import Core.Scalar Core.Index Core.Expr Models.Fock Models.Wick.
Import ListNotations. Open Scope string_scope.
"""


def fn(name):
    return getattr(sys.modules["adcgen.func"], name)


# ---------------------------------------------------------------------------
def check_table(ctx):
    """tie T + direct calls of _contraction on the whole domain"""
    contraction = fn("_contraction")
    try:
        text, src = TR.translate(contraction)
    except TR.TranslateError as e:
        ctx.obligation("translate _contraction (fail-closed)", False, str(e))
        ctx.violation("C01:table:untranslatable",
                      "the source of _contraction no longer has the shape the "
                      "translator understands", {"error": str(e)}, False)
        text = None
    if text is not None:
        ctx.obligation("translate _contraction (fail-closed)", True)
        defs = text + (
            "Lemma gen_table_is_model : forall pf qf sp sq, "
            "gres_eqb (gen_table pf qf sp sq) (model_table pf qf sp sq) = "
            "true.\nProof. intros [] [] [] []; vm_compute; reflexivity. Qed.\n")
        vals, errs = ctx.coq_eval("table", ["tables_agree gen_table",
                                            "table_diff gen_table"],
                                  header=COQ_HEADER, defs=defs)
        ok = not errs and vals[0] == "true"
        if errs:
            # the lemma failed: evaluate the difference without it
            vals, errs2 = ctx.coq_eval("tablediff",
                                       ["tables_agree gen_table",
                                        "table_diff gen_table"],
                                       header=COQ_HEADER, defs=text)
        ctx.obligation("translated table = model table on all 36 cases "
                       "(Coq lemma by vm_compute)", ok,
                       f"differences: {vals[1] if vals else None}")
        if not ok:
            ctx.violation("C01:table:translated-differs",
                          "_contraction (translated from source) differs from "
                          "the Gallina table for which contraction_is_vev is "
                          "proved", {"translated": text,
                                     "differing_cases": vals[1] if vals
                                     else None}, False)
    # direct calls
    pool = U.index_pool()
    cases, info = [], []
    for cp, cq in itertools.product([False, True], repeat=2):
        for sp, sq in itertools.product(["occ", "virt", "general"], repeat=2):
            for same in ([False, True] if sp == sq else [False]):
                ip = pool[sp][0]
                iq = ip if same else pool[sq][1]
                ops = [(Fd if cp else F)(ip), (Fd if cq else F)(iq)]
                idmap, spaces, num = U.number_ops(ops)
                lit = U.coq_ops(num, spaces)
                cases.append(f"wterms_out (match {lit} with [a; b] => "
                             f"match contraction a b with CZero => [] | c => "
                             f"[(false, [c])] end | _ => [] end)")
                info.append((ops, idmap, spaces, num))
    vals, errs = ctx.coq_eval("pairs", cases, header=COQ_HEADER)
    model = U.OrbModel(1)
    for (ops, idmap, spaces, num), v in zip(info, vals):
        key = U.ops_key(num, spaces)
        ctx.case(key=("pair", key), nontrivial=True, kind="contraction-pair",
                 sample={"pair": str(ops)})
        try:
            got = U.canon_sympy(contraction(*ops), idmap)
        except Exception as ex:
            ctx.obligation(f"_contraction{ops}", False, repr(ex))
            ctx.violation(f"C01:contraction:exception:{ops}",
                          f"_contraction raised {ex!r}", {"ops": str(ops)},
                          True)
            continue
        want = U.canon_model(U.parse_wterms(v), spaces) if v is not None \
            else None
        ok = ctx.obligation(f"_contraction{tuple(ops)} = model", got == want,
                            f"library {got} model {want}")
        # value against determinant algebra for every orbital assignment
        bad = find_value_mismatch(model, got, num, spaces)
        okv = ctx.obligation(f"_contraction{tuple(ops)} = <Phi|pq|Phi>",
                             bad is None, str(bad))
        if not ok or not okv:
            ctx.violation(f"C01:contraction:{key}",
                          "contraction of two operators differs from the "
                          "model / from the expectation value of the pair",
                          {"ops": str(ops), "library": str(got),
                           "model": str(want), "assignment": bad},
                          bad is not None)


def find_value_mismatch(model, canon, num, spaces, limit=1024, rng=None):
    """compare the canonical delta polynomial with <Phi|ops|Phi> for every
    assignment of the indices (a random sample of `limit` assignments if
    there are more); returns a failing assignment or None"""
    ids = sorted(spaces)
    ranges = []
    total = 1
    for k in ids:
        sp = spaces[k]
        ranges.append([o for o in range(model.n)
                       if sp == "general" or
                       (sp == "occ") == bool(model.ref & (1 << o))])
        total *= len(ranges[-1])
    if total > limit and rng is not None:
        combos = (tuple(rng.choice(r) for r in ranges) for _ in range(limit))
    else:
        combos = itertools.product(*ranges)
    n = 0
    for combo in combos:
        env = dict(zip(ids, combo))
        lhs = U.value_of_canon(canon, spaces, env, model.ref)
        rhs = U.vev_bits([(c, env[k]) for c, k in num], model.ref)
        if lhs != rhs:
            return {"env": env, "library_value": lhs, "vev": rhs}
        n += 1
        if n >= limit:
            break
    return None


# ---------------------------------------------------------------------------
def captured_strings(ctx, quick):
    """operator strings passed to _contract_operator_string during real
    derivations"""
    import adcgen
    func = sys.modules["adcgen.func"]
    orig = func._contract_operator_string
    seen, out = set(), []

    def rec(op_string):
        ops = list(op_string)
        try:
            idmap, spaces, num = U.number_ops(ops)
            key = U.ops_key(num, spaces)
            if key not in seen and len(ops) <= (10 if quick else 14):
                seen.add(key)
                out.append(ops)
        except Exception:
            pass
        return orig(op_string)
    func._contract_operator_string = rec
    try:
        op = adcgen.Operators()
        gs = adcgen.GroundState(op)
        gs.energy(2)
        gs.amplitude(1, "pphh", "ijab")
        gs.amplitude(2, "ph", "ia")
        if not quick:
            gs.energy(3)
            gs.amplitude(2, "pphh", "ijab")
            isr = adcgen.IntermediateStates(gs, "pp")
            m = adcgen.SecularMatrix(isr)
            m.isr_matrix_block(1, "ph,ph", ("ia", "jb"))
            m.isr_matrix_block(1, "ph,pphh", ("ia", "jkbc"))
    except Exception:
        ctx.note("derivation for capturing strings failed: " +
                 traceback.format_exc()[-500:])
    finally:
        func._contract_operator_string = orig
    return out


def check_strings(ctx):
    quick = ctx.tier == "quick"
    rng = ctx.rng
    contract = fn("_contract_operator_string")
    has_fc = fn("_has_fully_contracted_contribution")
    pool = U.index_pool()
    strings = []
    max_len = 10 if quick else 14
    # fixed: the strings of tests/func_test.py and small edge cases
    i, j, a, b, p, q = (pool["occ"][0], pool["occ"][1], pool["virt"][0],
                        pool["virt"][1], pool["general"][0],
                        pool["general"][1])
    strings += [("fixed", s) for s in (
        [], [F(i)], [Fd(p)], [Fd(i), F(i)], [F(a), Fd(a)], [Fd(p), F(p)],
        [F(p), Fd(p)], [Fd(i), F(a), Fd(b), F(j)],
        [Fd(i), F(a), Fd(p), F(q), Fd(b), F(j)],
        [Fd(p), F(q), Fd(p), F(q)], [F(p), Fd(q), F(p), Fd(q)],
        [Fd(p), Fd(q), F(q), F(p)], [Fd(p), Fd(q), F(p), F(q)])]
    # exhaustive small: every string of length 2..3(4) over 6 operators
    small_ops = [c(x) for c in (F, Fd) for x in (i, a, p)]
    for n in (2, 3):
        for s in itertools.product(small_ops, repeat=n):
            strings.append(("exh", list(s)))
    if not quick:
        for s in itertools.product(small_ops, repeat=4):
            strings.append(("exh", list(s)))
    n_rand = 260 if quick else 3000
    for n in range(n_rand):
        length = rng.choice([2, 4, 4, 6, 6, 6, 8, 8, 10, 3, 5, 7] if quick else
                            [2, 4, 6, 6, 8, 8, 10, 10, 12, 3, 5, 9])
        strings.append(("rand", U.gen_string(rng, length, pool)))
    n_big = 0 if quick else 24
    for n in range(n_big):
        strings.append(("big", U.gen_string(
            rng, rng.choice([12, 14]), pool,
            style=rng.choice(["pairs", "shuffled", "allgen"]))))
    for s in captured_strings(ctx, quick):
        strings.append(("captured", s))

    seen, todo = set(), []
    for src, ops in strings:
        if len(ops) > max_len:
            continue
        idmap, spaces, num = U.number_ops(ops)
        key = U.ops_key(num, spaces)
        if key in seen:
            continue
        seen.add(key)
        todo.append((src, ops, idmap, spaces, num, key))
    cases = []
    for src, ops, idmap, spaces, num, key in todo:
        lit = U.coq_ops(num, spaces)
        cases.append(f"(prefilter {lit}, contract_out {lit})")
    t0 = time.time()
    vals, errs = ctx.coq_eval("strings", cases, header=COQ_HEADER, shard=60)
    ctx.extra["coq_strings_s"] = round(time.time() - t0, 1)
    model = U.OrbModel(2)
    n_caught = 0
    for (src, ops, idmap, spaces, num, key), v in zip(todo, vals):
        if v is None:
            ctx.obligation(f"model evaluates {key}", False)
            continue
        v = "".join(v.split())
        pf_model = v.startswith("(true")
        wt = U.parse_wterms(v[v.index(",") + 1:])
        want = U.canon_model(wt, spaces)
        ctx.case(key=key, nontrivial=len(wt) > 0,
                 sample={"source": src, "string": str(ops),
                         "model_terms": len(wt)},
                 kind=f"{src}:len{len(ops)}:" +
                 ("nonzero" if wt else "zero"))
        # prefilter
        try:
            pf_lib = bool(has_fc(ops))
        except Exception as ex:
            pf_lib = repr(ex)
        ok1 = ctx.obligation(f"prefilter {src} {key}", pf_lib == pf_model,
                             f"library {pf_lib} model {pf_model}")
        # recursion
        try:
            res = contract(ops)
            got = U.canon_sympy(res, idmap)
        except Exception as ex:
            got = "exception " + repr(ex)
        if len(ops) == 0:
            # never called by wicks with an empty string; the library returns
            # 0 there and so does the model (contract [] = [])
            pass
        ok2 = ctx.obligation(f"contract {src} {key}", got == want,
                             f"library {got} model {want}")
        bad = None
        if isinstance(got, dict) and len(ops) > 0:
            bad = find_value_mismatch(model, got, num, spaces, rng=rng)
            ctx.obligation(f"value {src} {key}", bad is None, str(bad))
        if not (ok1 and ok2) or bad is not None:
            n_caught += 1
            if n_caught <= 5:
                ctx.violation(
                    f"C01:string:{key}",
                    "_contract_operator_string / "
                    "_has_fully_contracted_contribution differs from the "
                    "model (for which contract_is_vev is proved)"
                    + (" and from <Phi|string|Phi>" if bad else ""),
                    {"string": str(ops), "source": src,
                     "library_prefilter": pf_lib, "model_prefilter": pf_model,
                     "library": str(got), "model": str(want),
                     "failing_assignment": bad,
                     "correspondence": "ADC.Models.Wick.contract / prefilter"},
                    bad is not None)


# ---------------------------------------------------------------------------
RULE_SETS = [
    None,
    {"V": ["oovv"]},
    {"V": ["ooov", "ovvv"], "f": ["ov"]},
    {"f": ["oo"], "d": ["ov", "vo"]},
    {"V": ["vvoo"]},          # never canonical for bra-ket symmetric V
    {"n": ["ov", "oov"], "x": ["o"]},
    {},
]


def coq_rules(r):
    if not r:
        return "[]"
    code = {"o": "Occ", "v": "Virt", "g": "Gen"}
    return "[" + "; ".join(
        f"({adcio.coq_str(k)}, [" + "; ".join(
            "[" + "; ".join(code[c] for c in b) + "]" for b in v) + "])"
        for k, v in r.items()) + "]"


def term_multiset(e):
    """terms as sorted (coefficient, sorted factor strings); new indices of
    different calls print alike, so results of two calls can be compared"""
    e = expand(e)
    if e == 0:
        return []
    out = []
    for t in Add.make_args(e):
        c, fs = S.One, []
        for f in Mul.make_args(t):
            if f.is_number:
                c *= f
            else:
                fs.append(str(f))
        out.append((str(c), tuple(sorted(fs))))
    return sorted(out)


def rules_from_result(rng, res):
    """forbid the (name, block) of a tensor that occurs in the result"""
    from adcgen.sympy_objects import SymbolicTensor
    from sympy import Pow
    occ = []
    for t in Add.make_args(expand(res)):
        for f in Mul.make_args(t):
            b = f.base if isinstance(f, Pow) else f
            if isinstance(b, SymbolicTensor):
                occ.append((b.name, "".join(x.space[0] for x in b.idx)))
    if not occ:
        return None
    r = {}
    for name, block in rng.sample(occ, min(len(occ), rng.choice([1, 1, 2]))):
        r.setdefault(name, [])
        if block not in r[name]:
            r[name].append(block)
    if rng.random() < 0.3:
        r.setdefault("V", []).append("oovv")
    return r


def same_value(model, case, contracted, free, e1, e2, rng, n_assign=4):
    """do two results for the same input have the same value for some
    assignments of the free indices (random tensor values)"""
    from adcgen.indices import Index
    ictx = adcio.IdxCtx()
    con = [ictx.conv(x) for x in contracted]
    free_py = []
    for x in list(free) + sorted(Mul(*case.tensors).atoms(Index), key=str):
        px = ictx.conv(x)
        if px not in con and px not in free_py:
            free_py.append(px)
    t1, t2 = adcio.conv_expr(e1, ictx), adcio.conv_expr(e2, ictx)
    allc = list(itertools.product(*[model.rng(x) for x in free_py]))
    if len(allc) > n_assign:
        allc = rng.sample(allc, n_assign)
    return all(model.tm.eval_expr(t1, dict(zip(free_py, c))) ==
               model.tm.eval_expr(t2, dict(zip(free_py, c))) for c in allc)


def eval_case(model, case, contracted, free, result, ictx, rng, max_assign=6):
    """compare the value of `result` with the determinant-space value of the
    input for assignments of the free indices; returns mismatch or None"""
    cterm = adcio.conv_term(Mul(case.coef, *case.tensors), ictx)
    groups = [(is_no, [(isinstance(o, Fd), ictx.conv(o.args[0])) for o in g])
              for is_no, g in case.groups]
    con = [ictx.conv(x) for x in contracted]
    # free indices: those of operators and of tensors that are not contracted
    free_py = []
    from adcgen.indices import Index
    tens_idx = sorted(Mul(*case.tensors).atoms(Index), key=str)
    for x in list(free) + tens_idx:
        px = ictx.conv(x)
        if px not in con and px not in free_py:
            free_py.append(px)
    terms = adcio.conv_expr(result, ictx)
    ranges = [model.rng(x) for x in free_py]
    allc = list(itertools.product(*ranges))
    if len(allc) > max_assign:
        allc = rng.sample(allc, max_assign)
    for combo in allc:
        tgenv = dict(zip(free_py, combo))
        ref = U.reference_value(model, cterm, groups, tgenv, con)
        got = model.tm.eval_expr(terms, tgenv)
        if ref != got:
            return {"targets": {repr(k): v for k, v in tgenv.items()},
                    "determinant_space_value": ref, "wicks_value": got,
                    "prime": numeric.P, "model_seed": model.tm.seed}
    return None


def check_wicks(ctx):
    quick = ctx.tier == "quick"
    rng = ctx.rng
    wicks = fn("wicks")
    from adcgen.rules import Rules
    pool = U.index_pool()
    model = U.OrbModel(rng.randrange(1 << 30))
    n_cases = 90 if quick else 900
    rule_cases, rule_info = [], []
    n_viol = 0
    for n in range(n_cases):
        n_ops = rng.choice([1, 2, 3, 4, 4, 6, 6, 6, 8] if quick else
                           [1, 2, 3, 4, 4, 5, 6, 6, 8, 8, 10])
        free_general = (n % 5 == 4)
        case, contracted, free = U.gen_wicks_case(
            rng, pool, n_ops, label=f"w{n}", free_general=free_general,
            no_general=(n % 3 == 1), avoid_power=(n % 7 != 3))
        has_free_gen = any(x.space == "general" for x in free)
        if len(contracted) > (7 if quick else 6):
            continue
        try:
            expr = case.expr()
        except Exception as ex:
            ctx.note(f"could not build {case.describe()}: {ex!r}")
            continue
        desc = case.describe()
        rules_d = rng.choice(RULE_SETS)
        results = {}
        for sd in (False, True):
            label = f"{'deltas' if sd else 'plain'}"
            ictx = adcio.IdxCtx()
            try:
                res = wicks(expr, simplify_kronecker_deltas=sd)
                results[sd] = res
            except Exception as ex:
                ctx.obligation(f"wicks runs {desc} {label}", False, repr(ex))
                n_viol += 1
                if n_viol <= 5:
                    ctx.violation(f"C01:wicks:exception:{desc}",
                                  f"wicks raised {ex!r}",
                                  {"input": desc, "deltas": sd}, True)
                continue
            try:
                bad = eval_case(model, case, contracted, free, res, ictx, rng)
            except adcio.Unsupported as ex:
                # fail closed: the result must be an operator-free expression
                # of tensors, deltas and numbers
                ctx.obligation(f"wicks result is operator-free {desc} "
                               f"{label}", False, str(ex))
                n_viol += 1
                if n_viol <= 5:
                    ctx.violation(
                        f"C01:wicks:not-operator-free:{label}:{desc}",
                        "wicks returned an expression that is not a sum of "
                        "products of numbers, tensors and deltas",
                        {"input": desc, "result": str(res)[:500],
                         "unsupported": str(ex)}, True)
                continue
            ctx.case(key=(desc, sd), nontrivial=(res != 0),
                     sample={"input": desc, "deltas": sd,
                             "result": str(res)[:300]},
                     kind=f"wicks:{label}:ops{n_ops}:" +
                     ("freegen:" if has_free_gen else "") +
                     ("NOgen:" if any(g[0] and any(
                         o.args[0].space == "general" for o in g[1])
                         for g in case.groups) else "") +
                     ("NO:" if any(g[0] for g in case.groups) else "") +
                     ("nonzero" if res != 0 else "zero"))
            ok = ctx.obligation(f"wicks value {desc} {label}", bad is None,
                                str(bad))
            if not ok:
                n_viol += 1
                if n_viol <= 5:
                    ctx.violation(
                        f"C01:wicks:value:{label}:{desc}",
                        "value of wicks(...) differs from the expectation "
                        "value computed by explicit determinant algebra",
                        {"input": desc, "simplify_kronecker_deltas": sd,
                         "result": str(res), "mismatch": bad,
                         "orbitals": "0,1 occupied; 2,3 virtual",
                         "contracted": [str(x) for x in contracted],
                         "free": [str(x) for x in free]}, True)
        # rules
        if results:
            sd = rng.choice(list(results))
            base = results[sd]
            if rng.random() < 0.7 and base != 0:
                rules_d = rules_from_result(rng, base) or rules_d
        if rules_d is not None and results:
            try:
                with_rules = wicks(expr, rules=Rules(rules_d),
                                   simplify_kronecker_deltas=sd)
            except Exception as ex:
                ctx.obligation(f"wicks with rules runs {desc}", False,
                               repr(ex))
                ctx.violation(f"C01:rules:exception:{desc}",
                              f"wicks with rules raised {ex!r}",
                              {"input": desc, "rules": rules_d}, True)
                continue
            terms = list(Add.make_args(expand(base))) if base != 0 else []
            try:
                pts = [adcio.conv_term(t, adcio.IdxCtx()) for t in terms]
            except adcio.Unsupported as ex:
                ctx.note(f"unsupported term for rules {desc}: {ex}")
                continue
            rule_cases.append(f"rules_keep {coq_rules(rules_d)} "
                              f"{adcio.coq_expr(pts)}")
            rule_info.append((desc, rules_d, sd, terms, with_rules,
                              (case, contracted, free)))
    # sums of fully contracted products: wicks distributes over Add
    for n in range(12 if quick else 60):
        parts = []
        for k in range(rng.choice([2, 2, 3])):
            case, contracted, free = U.gen_wicks_case(
                rng, pool, rng.choice([2, 4, 4, 6]), label=f"s{n}_{k}",
                p_contract=1.0)
            if not free and len(contracted) <= 6:
                parts.append((case, contracted))
        if len(parts) < 2:
            continue
        expr = Add(*[c.expr() for c, _ in parts])
        desc = " + ".join(c.describe() for c, _ in parts)
        for sd in (False, True):
            try:
                res = wicks(expr, simplify_kronecker_deltas=sd)
            except Exception as ex:
                ctx.obligation(f"wicks runs {desc}", False, repr(ex))
                ctx.violation(f"C01:wicks:exception:{desc}",
                              f"wicks raised {ex!r}", {"input": desc}, True)
                continue
            ictx = adcio.IdxCtx()
            ref = 0
            for case, contracted in parts:
                cterm = adcio.conv_term(Mul(case.coef, *case.tensors), ictx)
                groups = [(is_no, [(isinstance(o, Fd), ictx.conv(o.args[0]))
                                   for o in g]) for is_no, g in case.groups]
                ref = (ref + U.reference_value(
                    model, cterm, groups, {},
                    [ictx.conv(x) for x in contracted])) % numeric.P
            try:
                got = model.tm.eval_expr(adcio.conv_expr(res, ictx), {})
            except adcio.Unsupported as ex:
                got = f"unsupported: {ex}"
            ctx.case(key=("sum", desc, sd), nontrivial=(res != 0),
                     kind="wicks:sum:" + ("deltas" if sd else "plain"),
                     sample={"input": desc[:300], "result": str(res)[:200]})
            if not ctx.obligation(f"wicks value of a sum {desc} {sd}",
                                  got == ref, f"{got} vs {ref}"):
                ctx.violation(f"C01:wicks:sum:{sd}:{desc}",
                              "value of wicks(sum) differs from the sum of "
                              "the expectation values",
                              {"input": desc, "deltas": sd,
                               "result": str(res), "wicks_value": got,
                               "determinant_space_value": ref}, True)
    vals, errs = ctx.coq_eval("rules", rule_cases, header=COQ_HEADER,
                              shard=40)
    for (desc, rules_d, sd, terms, with_rules, cinfo), v in zip(rule_info,
                                                                vals):
        if v is None:
            ctx.obligation(f"rules model evaluates {desc}", False)
            continue
        keep = [x == "true" for x in
                v.strip("[]").replace(" ", "").split(";") if x]
        if len(keep) != len(terms):
            ctx.obligation(f"rules model output shape {desc}", False, v)
            continue
        want = Add(*[t for t, k in zip(terms, keep) if k])
        removed = [str(t) for t, k in zip(terms, keep) if not k]
        same = term_multiset(want) == term_multiset(with_rules)
        if not same:
            # the new indices of general-general contractions get different
            # registry names in the two calls: compare number of terms and
            # values instead
            n1 = 0 if want == 0 else len(Add.make_args(expand(want)))
            n2 = 0 if with_rules == 0 else \
                len(Add.make_args(expand(with_rules)))
            same = (n1 == n2) and same_value(model, *cinfo, want, with_rules,
                                             rng)
        ctx.case(key=("rules", desc, str(rules_d), sd),
                 nontrivial=bool(removed),
                 kind="rules:" + ("removing" if removed else "keeping-all"),
                 sample={"input": desc, "rules": str(rules_d),
                         "removed": removed[:3]})
        ok = ctx.obligation(f"rules remove exactly forbidden blocks {desc}",
                            same,
                            f"model keeps {want}, library {with_rules}")
        if not ok:
            ctx.violation(f"C01:rules:{rules_d}:{desc}",
                          "Rules.apply inside wicks does not remove exactly "
                          "the terms with a forbidden (name, block)",
                          {"input": desc, "rules": rules_d, "deltas": sd,
                           "without_rules": str(Add(*terms)),
                           "library_with_rules": str(with_rules),
                           "model_with_rules": str(want)}, True)


# ---------------------------------------------------------------------------
def check_special(ctx):
    """single operators / NO objects, indices with spin, NO groups with
    general indices"""
    wicks = fn("wicks")
    contraction = fn("_contraction")
    pool = U.index_pool()
    from adcgen.indices import get_symbols
    i, a, p, q = (pool["occ"][0], pool["virt"][0], pool["general"][0],
                  pool["general"][1])
    # normal-ordered string / single operator -> 0
    for e in (NO(Fd(a) * F(i)), F(i), Fd(p)):
        r = wicks(e)
        ctx.case(key=("special", str(e)), kind="special:zero",
                 nontrivial=True)
        if not ctx.obligation(f"wicks({e}) = 0", r == 0, str(r)):
            ctx.violation(f"C01:special:{e}", "expectation value of a "
                          "normal-ordered string / single operator is not 0",
                          {"input": str(e), "result": str(r)}, True)
    xi = U.NonSymmetricTensor("x", (i,))
    for e, want in ((xi * F(i), S.Zero), (2 * Fd(p), S.Zero), (xi, xi),
                    (S(3), S(3))):
        r = wicks(e)
        ctx.case(key=("special", str(e)), kind="special:few-operators",
                 nontrivial=True)
        if not ctx.obligation(f"wicks({e}) = {want}", r == want, str(r)):
            ctx.violation(f"C01:special:{e}", "wrong result for a product "
                          "with at most one operator",
                          {"input": str(e), "result": str(r),
                           "expected": str(want)}, True)
    # indices with spin are rejected (malformed stream)
    ia, ab = get_symbols("i", "a")[0], get_symbols("a", "b")[0]
    for ops in ((Fd(ia), F(ia)), (F(ab), Fd(a))):
        try:
            r = contraction(*ops)
            ok, det = False, f"returned {r}"
        except NotImplementedError:
            ok, det = True, ""
        except Exception as ex:
            ok, det = False, repr(ex)
        ctx.case(key=("spin", str(ops)), kind="malformed:spin",
                 nontrivial=True)
        if not ctx.obligation(f"_contraction rejects spin {ops}", ok, det):
            ctx.violation(f"C01:spin:{ops}", "indices with spin are not "
                          "rejected by _contraction", {"ops": str(ops),
                                                       "detail": det}, True)
    check_corpus(ctx)


def load_corpus():
    import json
    import os
    path = os.path.join(os.path.dirname(os.path.dirname(os.path.dirname(
        os.path.abspath(__file__)))), "corpus", "C01_regressions.json")
    return json.load(open(path))


def build_corpus_case(entry):
    from adcgen.indices import get_symbols

    def ix(name):
        return get_symbols([name])[0]
    tensors = [U.NonSymmetricTensor(n, tuple(ix(x) for x in idx))
               for n, idx in entry["tensors"]]
    groups = [(bool(is_no), [(Fd if c == "Fd" else F)(ix(x)) for c, x in g])
              for is_no, g in entry["groups"]]
    case = U.WicksCase(S.One, tensors, groups, "corpus")
    return (case, [ix(x) for x in entry["contracted"]],
            [ix(x) for x in entry["free"]])


def check_corpus(ctx):
    """inputs on which the library violated the property before it was
    repaired (corpus/C01_regressions.json): every one must now have the value
    given by determinant algebra, with and without delta evaluation; a
    regression is reported under the key of the original finding"""
    wicks = fn("wicks")
    model = U.OrbModel(7)
    for n, entry in enumerate(load_corpus()):
        case, contracted, free = build_corpus_case(entry)
        desc = case.describe()
        for sd in entry["deltas"]:
            ctx.case(key=("corpus", n, sd), kind="corpus:" +
                     entry["key"].split(":")[1], nontrivial=True,
                     sample={"input": desc, "deltas": sd,
                             "note": entry["note"]})
            try:
                res = wicks(case.expr(), simplify_kronecker_deltas=sd)
                bad = eval_case(model, case, contracted, free, res,
                                adcio.IdxCtx(), ctx.rng, 256)
                detail = {"input": desc, "simplify_kronecker_deltas": sd,
                          "result": str(res), "mismatch": bad,
                          "note": entry["note"]}
            except Exception as ex:
                bad = repr(ex)
                detail = {"input": desc, "simplify_kronecker_deltas": sd,
                          "exception": repr(ex), "note": entry["note"]}
            if not ctx.obligation(f"regression corpus {n} {desc} deltas={sd}",
                                  bad is None, str(bad)):
                ctx.violation(entry["key"],
                              "a repaired defect is back: " + entry["note"],
                              detail, True)


def perm_parity(src, dst):
    """parity of the permutation taking the list src (distinct items) to dst"""
    pos = {x: k for k, x in enumerate(src)}
    p = [pos[x] for x in dst]
    inv = sum(1 for a in range(len(p)) for b in range(a + 1, len(p))
              if p[a] > p[b])
    return inv & 1


def check_no(ctx):
    """sympy's expansion of NO(...) with occ/virt indices vs. flatten_NO:
    same operators, quasi-creators first, and signs related by the parity of
    the permutation inside the classes (C01_same_class_anticommute)"""
    import re
    rng = ctx.rng
    pool = U.index_pool()
    quick = ctx.tier == "quick"
    groups = []
    for n in range(60 if quick else 300):
        m = rng.choice([2, 2, 3, 4, 4, 5, 6])
        cand = [c(x) for c in (F, Fd)
                for x in pool["occ"][:4] + pool["virt"][:4]]
        groups.append(rng.sample(cand, m))
    cases, info = [], []
    for g in groups:
        idmap, spaces, num = U.number_ops(g)
        cases.append(f"flatten_out {U.coq_ops(num, spaces)}")
        info.append((g, idmap, spaces, num))
    vals, errs = ctx.coq_eval("no", cases, header=COQ_HEADER, shard=100)
    for (g, idmap, spaces, num), v in zip(info, vals):
        key = U.ops_key(num, spaces)
        if v is None:
            ctx.obligation(f"flatten_NO evaluates {key}", False)
            continue
        v = "".join(v.split())   # the pretty printer breaks lines anywhere
        msign = v.startswith("(true")
        mops = [(c == "true", int(k)) for c, k in
                re.findall(r"\((true|false),(\d+)%N\)", v[v.index(","):])]
        e = NO(Mul(*g)).doit(wicks=True)
        cpart, ncpart = e.args_cnc()
        ssign = Mul(*cpart)
        sops = [(isinstance(o, Fd), idmap[o.args[0]]) for o in ncpart]

        def qcre(o):
            return spaces[o[1]] == ("virt" if o[0] else "occ")
        ok = (sorted(sops) == sorted(mops) == sorted(num)
              and ssign in (1, -1)
              and all(qcre(sops[k]) or not qcre(sops[k + 1])
                      for k in range(len(sops) - 1)))
        if ok:
            par = perm_parity(mops, sops)
            ok = (ssign == -1) == (msign != bool(par))
        nt = any(qcre(num[b]) and not qcre(num[a_])
                 for a_ in range(len(num)) for b in range(a_ + 1, len(num)))
        ctx.case(key=("NO", key), nontrivial=nt, kind=f"NO-flatten:len{len(g)}",
                 sample={"group": str(g), "sympy": str(e)})
        if not ctx.obligation(f"NO expansion {key}", ok,
                              f"sympy {ssign} {sops} model {msign} {mops}"):
            ctx.violation(f"C01:NO-flatten:{key}",
                          "sympy's expansion of a normal-ordered group is not "
                          "the signed quasi-creators-first reordering of the "
                          "model", {"group": str(g), "sympy": str(e),
                                    "model_negative": msign,
                                    "model_ops": str(mops)}, False)


def run(ctx):
    times = {}
    for f in (check_no, check_table, check_strings, check_wicks,
              check_special):
        t0 = time.time()
        f(ctx)
        times[f.__name__] = round(time.time() - t0, 1)
    ctx.extra["phase_seconds"] = times


def replay(ctx, rep):
    """re-execute a recorded violation: operator strings are rebuilt from the
    key, the regression corpus is re-run for the repaired findings; all else
    re-runs the whole check with the recorded seed"""
    import ast
    import json
    key = rep.get("key", "")
    print(json.dumps(rep.get("replay"), indent=1, default=str)[:4000])
    if key.startswith("C01:string:") or key.startswith("C01:contraction:("):
        tup = ast.literal_eval(key.split(":", 2)[2])
        pool = U.index_pool()
        byid = {}
        ops = []
        for cre, k, space in tup:
            if k not in byid:
                byid[k] = pool[space][len([1 for v in byid.values()
                                           if v.space == space])]
            ops.append((Fd if cre else F)(byid[k]))
        idmap, spaces, num = U.number_ops(ops)
        lit = U.coq_ops(num, spaces)
        vals, errs = ctx.coq_eval("replay", [f"(prefilter {lit}, "
                                             f"contract_out {lit})"],
                                  header=COQ_HEADER)
        v = "".join(vals[0].split())
        want = U.canon_model(U.parse_wterms(v[v.index(",") + 1:]), spaces)
        got = U.canon_sympy(fn("_contract_operator_string")(ops), idmap)
        pf = bool(fn("_has_fully_contracted_contribution")(ops))
        bad = find_value_mismatch(U.OrbModel(2), got, num, spaces)
        print("string          :", ops)
        print("library         :", got, "prefilter", pf)
        print("model           :", want, "prefilter", v.startswith("(true"))
        print("value mismatch  :", bad)
        return 0 if (got == want and pf == v.startswith("(true")
                     and bad is None) else 1
    before = len(ctx.violations)
    if key.startswith(("C01:NO-general-index", "C01:operator-power",
                       "C01:delta-eval-free-general-index",
                       "C01:special", "C01:spin")):
        check_special(ctx)
    elif key.startswith("C01:table"):
        check_table(ctx)
    elif key.startswith("C01:NO-flatten"):
        check_no(ctx)
    else:
        import random
        ctx.rng = random.Random(rep.get("seed", ctx.seed))
        ctx.tier = rep.get("tier", ctx.tier)
        run(ctx)
    hit = [v for v in ctx.violations[before:] if v["key"] == key]
    for v in hit[:3]:
        print("REPRODUCED:", v["key"], "-", v["what"])
    return 1 if hit else 0
