"""C12 - registered intermediate definitions equal the quantities they name."""
import sys
import time
from fractions import Fraction
from sympy import Add, Mul, S, Rational
import adcgen
from adcgen.expr_container import Expr
from adcgen.indices import Index, get_symbols
from adcgen.intermediates import Intermediates
import adcio
import certfind
import equivcheck as EQ
import numeric

LEVEL = "proof"
RULE = ("every registered intermediate (enumerated from the running registry;"
        " a class without entry in the naming table is a failed obligation): "
        "(i) its once-expanded definition against the quantity derived by the "
        "library's own Wick/RSPT pipeline (MP amplitudes, RE residuals, "
        "ground-state density blocks via remove_tensor), (ii) fully vs once "
        "expanded form, (iii) every declared permutational symmetry, with "
        "default and with permuted / renamed index tuples, (iv) expansion "
        "with every letter of the index alphabets as requested target name "
        "(7 cyclic shifts of the name tuple, plus the default names in "
        "permuted order) against the default-name "
        "expansion with renamed targets; all decided by the"
        " Coq fraction validator.  Non-trivial: the definition has >= 2 "
        "terms or contracted indices; distinct by (intermediate, relation)")
TRUSTED = ["the derived quantities come from the library's derivation "
           "pipeline (properties C01/C02 tie that pipeline to RSPT)",
           "certificate finder (untrusted)"]
ASSUMPTIONS = [
    "real orbital basis (the intermediates are documented for real orbitals "
    "only): V and f carry bra-ket symmetry, complex-conjugate amplitudes are "
    "identified with the amplitudes",
    "field of characteristic 0, non-vanishing orbital-energy denominators",
    "vanishing spin blocks are covered by C15 (allowed_spin_blocks model and "
    "theorem C15_unreported_block_zero) and checked numerically there",
    "quick tier: intermediates of order <= 2 and the RE residuals; "
    "third-order amplitudes / densities in the thorough tier",
]

HEADER = adcio.COQ_HEADER3 + \
    "From ADC Require Import Core.SwapAny Models.Symmetry.\n"

# name -> how the named quantity is derived
AMPLITUDES = {
    "t2_1": (1, "pphh"), "t1_2": (2, "ph"), "t2_2": (2, "pphh"),
    "t3_2": (2, "ppphhh"), "t4_2": (2, "pppphhhh"),
    "t1_3": (3, "ph"), "t2_3": (3, "pphh"),
}
RESIDUALS = {
    "t2_1_re_residual": (1, "pphh"), "t1_2_re_residual": (2, "ph"),
    "t2_2_re_residual": (2, "pphh"),
}
DENSITIES = {
    "p0_2_oo": (2, "oo"), "p0_2_vv": (2, "vv"),
    "p0_3_oo": (3, "oo"), "p0_3_ov": (3, "ov"), "p0_3_vv": (3, "vv"),
}
DEFINITIONAL = {"t2eri_1", "t2eri_2", "t2eri_3", "t2eri_4", "t2eri_5",
                "t2eri_6", "t2eri_7", "t2eri_A", "t2eri_B", "t2sq"}
SLOW = {"t4_2"}


def real(e):
    return Expr(getattr(e, "sympy", e)).expand().make_real()


def mk_pair(label, e1, e2, tg, coq1=None):
    ictx = adcio.IdxCtx()
    p = EQ.Pair(None, None, [], label, frac="e",
                special={"e": numeric.orb_energy_special})
    p.p1 = adcio.conv_expr(e1, ictx)
    p.p2 = adcio.conv_expr(e2, ictx)
    p.tg = [ictx.conv(x) for x in tg]
    p.ictx = ictx
    return p


def run(ctx):
    quick = ctx.tier == "quick"
    itmds = Intermediates().available
    known = set(AMPLITUDES) | set(RESIDUALS) | set(DENSITIES) | DEFINITIONAL
    for name in itmds:
        ctx.obligation(f"registered intermediate {name} has a naming "
                       "relation in the check", name in known)
    gs = {"mp": adcgen.GroundState(adcgen.Operators()),
          "re": adcgen.GroundState(adcgen.Operators(variant="re"))}
    pairs, info = [], []
    rng = ctx.rng

    def add(label, e1, e2, tg, nontrivial=True):
        try:
            p = mk_pair(label, e1, e2, tg)
        except adcio.Unsupported as ex:
            ctx.obligation(f"{label}: inside the validator fragment", False,
                           str(ex))
            return
        pairs.append(p)
        ctx.case(key=label, nontrivial=nontrivial,
                 sample={"relation": label,
                         "lhs_terms": len(p.p1), "rhs_terms": len(p.p2)},
                 kind=label.split(":")[0])

    # ---- (i) definition = derived quantity ------------------------------
    for name, cls in itmds.items():
        if quick and name in SLOW:
            continue
        idx = "".join(cls.default_idx)
        # also an index tuple with other names / order of the same spaces
        alt = alt_indices(cls, rng)
        for tag, names in (("default", idx), ("renamed", alt)):
            syms = get_symbols(names)
            try:
                d_once = real(cls.expand_itmd(indices=names,
                                              fully_expand=False))
            except Exception as ex:
                ctx.violation(f"C12:expand-exception:{name}:{tag}",
                              f"expand_itmd raised {ex!r}",
                              {"intermediate": name, "indices": names}, False)
                continue
            t0 = time.time()
            if name in AMPLITUDES:
                order, space = AMPLITUDES[name]
                derived = real(gs["mp"].amplitude(order, space, names))
                if name == "t4_2":
                    # the definition is written with two first-order doubles
                    # amplitudes, the derived amplitude with one amplitude
                    # and the eight-index denominator: equal only after the
                    # first-order amplitudes are expanded on both sides
                    derived = real(Expr(derived.sympy, real=True)
                                   .expand_intermediates())
                    d_cmp = real(cls.expand_itmd(indices=names,
                                                 fully_expand=True))
                    add(f"amplitude:{name}:{tag}", derived, d_cmp, syms)
                else:
                    add(f"amplitude:{name}:{tag}", derived, d_once, syms)
            elif name in RESIDUALS:
                order, space = RESIDUALS[name]
                derived = real(gs["re"].amplitude_residual(order, space,
                                                           names))
                add(f"residual:{name}:{tag}", derived, d_once, syms)
            elif name in DENSITIES and tag == "default":
                order, block = DENSITIES[name]
                dens = density_block(gs["mp"], order, block, ctx)
                if dens is not None:
                    blk, free = dens
                    d_blk = real(cls.expand_itmd(
                        indices="".join(s.name for s in free),
                        fully_expand=False))
                    add(f"density:{name}", blk, d_blk, free)
            ctx.note(f"{name}:{tag} derivation {time.time() - t0:.1f}s")
            # ---- (ii) fully expanded = once expanded with lower
            #      intermediates replaced by their definitions ------------
            if (cls.order <= 2 or not quick or name.startswith("p0_3")) \
                    and cls.itmd_type != "re_residual":
                try:
                    d_full = real(cls.expand_itmd(indices=names,
                                                  fully_expand=True))
                    d_once_x = real(Expr(d_once.sympy, real=True)
                                    .expand_intermediates())
                    add(f"full_vs_once:{name}:{tag}", d_full, d_once_x, syms,
                        nontrivial=len(d_full) > 1)
                except Exception as ex:
                    ctx.note(f"{name}: full expansion not compared: {ex!r}")
    EQ.run_pairs(ctx, "defs", pairs, shard=4, header=HEADER)
    for p in pairs:
        if not ctx.obligation(p.label, bool(p.ok), p.err):
            ctx.violation(
                f"C12:{p.label}",
                "the registered definition is not proved equal to the "
                "quantity it names",
                {"relation": p.label, "difference": p.diff, "error": p.err,
                 "lhs": [repr(t)[:300] for t in p.p1[:6]],
                 "rhs": [repr(t)[:300] for t in p.p2[:6]]},
                p.diff is not None)

    # ---- (iii) declared symmetries ------------------------------------------
    spairs = []
    for name, cls in itmds.items():
        if quick and name in SLOW and name != "t4_2":
            continue
        try:
            sym = cls.tensor_symmetry
        except Exception as ex:
            ctx.violation(f"C12:symmetry-exception:{name}",
                          f"tensor_symmetry raised {ex!r}", {}, False)
            continue
        syms = get_symbols("".join(cls.default_idx))
        d = real(cls.expand_itmd(fully_expand=False))
        items = list(sym.items())
        if len(items) > 8:
            items = rng.sample(items, min(len(items), 8 if quick else 40))
        for perms, f in items:
            ictx = adcio.IdxCtx()
            try:
                p = adcio.conv_expr(d, ictx)
            except adcio.Unsupported as ex:
                ctx.obligation(f"symmetry:{name}: fragment", False, str(ex))
                break
            tgc = [ictx.conv(x) for x in syms]
            ps = [(ictx.conv(a), ictx.conv(b)) for a, b in perms]
            permuted = p
            for a, b in ps:
                m = {a: b, b: a}
                permuted = [adcio.rename_term(t, m) for t in permuted]
            scaled = [(Fraction(f) * c, fs) for c, fs in p]
            pr = EQ.Pair(None, None, [], f"symmetry:{name}:{perms}:{f}",
                         frac="e", special={"e": numeric.orb_energy_special})
            pr.p1, pr.p2, pr.tg = permuted, scaled, tgc
            pr.coq1 = (f"(permute_expr "
                       f"{adcio.coq_list('(' + a.coq() + ', ' + b.coq() + ')' for a, b in ps)} "
                       f"{adcio.coq_expr(p)})")
            spairs.append(pr)
            ctx.case(key=pr.label, nontrivial=True, kind="symmetry")
    EQ.run_pairs(ctx, "sym", spairs, shard=6, header=HEADER)
    for p in spairs:
        if not ctx.obligation(p.label, bool(p.ok), p.err):
            ctx.violation(
                f"C12:{p.label}",
                "a declared permutational symmetry of an intermediate is not "
                "proved for its definition",
                {"relation": p.label, "difference": p.diff, "error": p.err},
                p.diff is not None)

    # ---- (iv) requested index names that coincide with names used inside
    #      the definitions (index capture) ---------------------------------
    letters = {"occ": "ijklmno", "virt": "abcdefgh"}
    cpairs = []
    for name, cls in itmds.items():
        default = get_symbols("".join(cls.default_idx))
        if any(s.space not in letters or s.spin for s in default):
            continue
        for fully in (False, True):
            if fully and (cls.itmd_type == "re_residual" or
                          (quick and cls.order > 2)):
                continue
            try:
                ref = real(cls.expand_itmd(fully_expand=fully))
            except Exception as ex:
                ctx.note(f"{name}: expansion failed: {ex!r}")
                continue
            if quick and len(ref) > 40:
                continue
            requests = []
            for r in range(1, 8):
                names, cnt = [], {"occ": 0, "virt": 0}
                for s_ in default:
                    L = letters[s_.space]
                    names.append(L[(cnt[s_.space] + r) % len(L)])
                    cnt[s_.space] += 1
                requests.append("".join(names))
            # the default names themselves in another order (within each
            # space: first two exchanged, reversed, rotated)
            dn = [s_.name for s_ in default]
            for perm_kind in ("swap_o", "swap_v", "reverse", "rotate"):
                new_names = list(dn)
                for sp in ("occ", "virt"):
                    pos = [k_ for k_, s_ in enumerate(default)
                           if s_.space == sp]
                    vals = [dn[k_] for k_ in pos]
                    if len(vals) < 2:
                        continue
                    if perm_kind == "swap_o" and sp == "occ" or \
                            perm_kind == "swap_v" and sp == "virt":
                        vals[0], vals[1] = vals[1], vals[0]
                    elif perm_kind == "reverse":
                        vals = vals[::-1]
                    elif perm_kind == "rotate":
                        vals = vals[1:] + vals[:1]
                    for k_, v_ in zip(pos, vals):
                        new_names[k_] = v_
                if new_names != dn and "".join(new_names) not in requests:
                    requests.append("".join(new_names))
            # target names equal to the generic contracted names the
            # default expansion just used (a later call must not reuse them)
            gen_ = {"occ": [], "virt": []}
            for t_ in ref.terms:
                for s_ in t_.contracted:
                    if s_.space in gen_ and not s_.spin and \
                            s_.name not in gen_[s_.space]:
                        gen_[s_.space].append(s_.name)
            cnt_ = {"occ": 0, "virt": 0}
            gnames, okg = [], True
            for s_ in default:
                if cnt_[s_.space] >= len(gen_[s_.space]):
                    okg = False
                    break
                gnames.append(gen_[s_.space][cnt_[s_.space]])
                cnt_[s_.space] += 1
            if okg and gnames:
                requests.append("".join(gnames))
            for names in requests:
                try:
                    got = real(cls.expand_itmd(indices=names,
                                               fully_expand=fully))
                except Exception as ex:
                    ctx.violation(f"C12:expand-exception:{name}:{names}",
                                  f"expand_itmd raised {ex!r}",
                                  {"intermediate": name, "indices": names},
                                  False)
                    continue
                ictx = adcio.IdxCtx()
                try:
                    p_got = adcio.conv_expr(got, ictx)
                    p_ref = adcio.conv_expr(ref, ictx)
                except adcio.Unsupported as ex:
                    ctx.obligation(f"capture:{name}: fragment", False,
                                   str(ex))
                    break
                tg_def = [ictx.conv(x) for x in default]
                tg_new = [ictx.conv(x) for x in get_symbols(names)]
                renamed = []
                for t in p_ref:
                    m = {x: adcio.PyIdx(x.space, x.spin, x.letter,
                                        x.num + 700, x.uid)
                         for x in adcio.term_contracted(t, set(tg_def))}
                    m.update(dict(zip(tg_def, tg_new)))
                    renamed.append(adcio.rename_term(t, m))
                pr = EQ.Pair(None, None, [],
                             f"capture:{name}:{'full' if fully else 'once'}"
                             f":{names}", frac="e",
                             special={"e": numeric.orb_energy_special})
                pr.p1, pr.p2, pr.tg = p_got, renamed, tg_new
                cpairs.append(pr)
                ctx.case(key=pr.label, nontrivial=len(p_got) > 1 or any(
                    adcio.term_contracted(t, set(tg_new)) for t in p_got),
                    kind="capture")
    EQ.run_pairs(ctx, "capt", cpairs, shard=12, header=HEADER)
    for p in cpairs:
        if not ctx.obligation(p.label, bool(p.ok), p.err):
            ctx.violation(
                f"C12:{p.label}",
                "the definition expanded with these index names is not "
                "proved equal to the default-name expansion with the target "
                "indices renamed (a name used inside the definition captures "
                "a requested index)",
                {"relation": p.label, "difference": p.diff, "error": p.err,
                 "lhs": [repr(t)[:300] for t in p.p1[:6]],
                 "rhs": [repr(t)[:300] for t in p.p2[:6]]},
                p.diff is not None)


def alt_indices(cls, rng):
    """an index tuple of the right spaces with other names and order"""
    occ = list("klmnoij")
    virt = list("cdefgab")
    default = get_symbols("".join(cls.default_idx))
    used, out = set(), []
    for s in default:
        pool = occ if s.space == "occ" else virt
        cand = [x for x in pool if x not in used]
        ch = cand[rng.randrange(min(3, len(cand)))]
        used.add(ch)
        out.append(ch)
    return "".join(out)


def density_block(gs, order, block, ctx):
    """block expression of <d> at the given order via remove_tensor"""
    rt = sys.modules["adcgen.simplify"].remove_tensor
    try:
        ev = Expr(gs.expectation_value(order, 1)).expand().make_real()
        parts = rt(ev, "d")
    except Exception as ex:
        ctx.note(f"density block {block} order {order}: {ex!r}")
        return None
    key = (block,)
    if key not in parts:
        ctx.note(f"density block {block} not among {list(parts)}")
        return None
    B = parts[key]
    B = Expr(getattr(B, "sympy", B)).expand()
    # free indices: lowest names of the block
    names = {"oo": "ij", "ov": "ia", "vv": "ab", "vo": "ai"}[block]
    return B, get_symbols(names)


def replay(ctx, rep):
    print(rep)
    return 0
