"""C09 - Kronecker-delta evaluation preserves the value and keeps index
information (adcgen.func.evaluate_deltas, KroneckerDelta.eval /
preferred_and_killable / indices_contain_equal_information)."""
import itertools
import os
import re
import sys

from sympy import Add, Mul

import adcio
import coqrun
import numeric
import c09_translate
import c09_util as U

LEVEL = "proof"
RULE = ("(1) the three space/spin tables are translated from the current "
        "source with `ast` and proved equal to the model tables on the whole "
        "81-case domain; they are also compared exhaustively with the running "
        "methods; (2) products of 1-6 Kronecker deltas forming chains, stars "
        "and trees over occ/virt/general x spin ''/a/b indices with tensors "
        "(non-symmetric, antisymmetric, amplitudes, symmetric), F/Fd "
        "operators, squares, prefactors, unexpanded sum factors (a*b + c*d)^n "
        "with Kronecker deltas inside some summands (which evaluate_deltas must "
        "leave alone); explicit and counted target indices; "
        "a second stream in which contracted indices occur on deltas only "
        "(model agreement only); (3) every evaluate_deltas call made by "
        "wicks during real derivations.  Every recorded call of "
        "evaluate_deltas on a Mul (including the recursive ones) is one case "
        "(plus one terminal check, one hypothesis check per argument list and "
        "one kernel-evaluated value certificate per call tree); "
        "non-trivial = the call has at least one delta; distinct = distinct "
        "(argument list, targets) text")
TRUSTED = ["harness/c09_translate.py (fail-closed Python-ast -> Gallina "
           "translator of the three table-like methods, ~300 lines)",
           "harness/c09_util.py: recording wrapper and serialiser of Mul.args "
           "(F/Fd operators are serialised as one-index tensors 'a-'/'a+')",
           "numeric validation of values (harness/numeric.py) is sampling on "
           "small random models and is not part of the proof"]
ASSUMPTIONS = ["orbital model: rng Gen s = rng Occ s ++ rng Virt s, "
               "rng x NoSpin = rng x Alpha ++ rng x Beta (as permutations), "
               "no orbital listed twice (ADC.Models.DeltasProofs.orbital_model)",
               "target indices are assigned orbitals within their ranges",
               "the order of Mul.args and the rebuilding of the product by "
               "sympy between two passes are inputs of the model (theorem "
               "eval_deltas_sound holds for every value-preserving step "
               "between passes)",
               "value claim only for terms in which every contracted index "
               "occurs on at least one non-delta object (as in the property)",
               "per-call-tree value certificates (check_trace_sound) hold in "
               "tensor models that respect the symmetries declared by the "
               "tensor classes (ADC.Core.Canon.respects)"]

REPO = os.environ.get("VERIF_REPO", "/repo")
MAX_REPORT = 4


def known_keys():
    import json
    d = os.path.join(os.path.dirname(os.path.dirname(os.path.dirname(
        os.path.abspath(__file__)))), "known_findings.d", "C09.json")
    try:
        return {k["key"] for k in json.load(open(d))}
    except Exception:    # noqa
        return set()
HEADER = ("From Coq Require Import ZArith QArith List String.\n"
          "From ADC Require Import Core.Scalar Core.Index Core.Expr "
          "Models.Deltas.\n"
          "Import ListNotations. Open Scope string_scope.\n")


# --------------------------------------------------------------------------
# 1. tables
# --------------------------------------------------------------------------
class _FakeDelta:
    def __init__(self, i, j):
        self.args = (i, j)


def _sort_index(sort, tag):
    from adcgen.indices import Index
    space, spin = sort
    kw = {}
    if space == "occ":
        kw["below_fermi"] = True
    elif space == "virt":
        kw["above_fermi"] = True
    if spin == "a":
        kw["alpha"] = True
    elif spin == "b":
        kw["beta"] = True
    return Index(tag, **kw)


COQ_SORTS = [(sp, s) for sp in ("general", "occ", "virt")
             for s in ("", "a", "b")]          # order of Deltas.all_sorts


def check_tables(ctx):
    from adcgen.sympy_objects import KroneckerDelta
    from sympy import S
    # --- translation of the current source
    try:
        path, info, coq = c09_translate.write_gen(REPO, coqrun.GENDIR)
    except c09_translate.TranslateError as ex:
        ctx.obligation("translator accepts KroneckerDelta.eval / "
                       "preferred_and_killable / "
                       "indices_contain_equal_information", False, str(ex))
        ctx.violation("C09:translator-rejected",
                      "the source of the table-like methods of KroneckerDelta "
                      "is no longer in the shape the fail-closed translator "
                      "understands: " + str(ex),
                      {"error": str(ex)}, False)
        return False
    ctx.obligation("translator accepts KroneckerDelta.eval / "
                   "preferred_and_killable / "
                   "indices_contain_equal_information", True)
    ctx.extra["translated_tables"] = coq
    rc, out, err = coqrun._run_file(path, 300)
    vals = coqrun.parse_values(out)
    mism = vals[0] if vals else None
    ok_eq = rc == 0 and mism == "[]" and len(vals) >= 2 and \
        vals[1].startswith("81")
    ctx.obligation("translated tables = model tables on all 81 cases "
                   "(coqc gen/C09_tables.v: vm_compute over the domain, "
                   "theorems *_gen_eq, pref_kill_gen_info)", ok_eq,
                   f"rc={rc} mismatches={mism} {err[-1500:]}")
    ctx.obligation("gen/C09_tables.v: pref_kill_gen_info closed under the "
                   "global context",
                   rc == 0 and "Closed under the global context" in out,
                   out[-500:])
    # --- exhaustive comparison model table <-> running methods
    tvals, _ = ctx.coq_eval("tabledump", ["table_dump"], header=HEADER)
    rows = re.findall(r"\(\s*(\d+)%N,\s*(true|false),\s*(true|false)\)",
                      tvals[0] or "")
    ctx.obligation("model table dump has 81 rows", len(rows) == 81,
                   str(tvals[0])[:300])
    bad = []
    pkprop = KroneckerDelta.preferred_and_killable.fget
    eiprop = KroneckerDelta.indices_contain_equal_information.fget
    pairs = list(itertools.product(COQ_SORTS, COQ_SORTS))
    for (s1, s2), row in zip(pairs, rows):
        i, j = _sort_index(s1, "x"), _sort_index(s2, "y")
        fake = _FakeDelta(i, j)
        r = pkprop(fake)
        code = 2 if r is None else (0 if (r[0] is i and r[1] is j) else
                                    (1 if (r[0] is j and r[1] is i) else 9))
        ei = bool(eiprop(fake))
        d = KroneckerDelta(i, j)
        alive_ = d is not S.Zero and d != 0
        if alive_:
            # the constructed delta has sorted arguments; the property on the
            # real object must agree with the table at the sorted position
            a0, a1 = d.args
            r2 = d.preferred_and_killable
            r1 = pkprop(_FakeDelta(a0, a1))
            if (r1 is None) != (r2 is None) or (
                    r1 is not None and (r1[0] is not r2[0]
                                        or r1[1] is not r2[1])):
                bad.append((s1, s2, "property on real delta"))
        want = (int(row[0]), row[1] == "true", row[2] == "true")
        ctx.case(key=("table", s1, s2), nontrivial=True, kind="table-row")
        if (code, ei, alive_) != want:
            bad.append((s1, s2, (code, ei, alive_), want))
    ctx.obligation("running preferred_and_killable / "
                   "indices_contain_equal_information / KroneckerDelta(...) "
                   "agree with the model tables on all 81 sort pairs",
                   not bad, str(bad[:5]))
    if not ok_eq or bad:
        found, rep = table_failing_input(ctx, mism, bad)
        ctx.violation("C09:tables", "the space/spin tables of KroneckerDelta "
                      "differ from the verified model tables",
                      {"coq_mismatches": mism, "runtime_mismatches":
                       [str(b) for b in bad[:10]], "failing_input": rep,
                       "coqc_stderr": err[-800:]}, found)
    return ok_eq and not bad


def table_failing_input(ctx, mism, bad):
    """the tables changed: look for a delta expression whose evaluation
    changes the value (for every pair of sorts that can carry a delta)"""
    from adcgen.sympy_objects import NonSymmetricTensor, KroneckerDelta
    fn = sys.modules["adcgen.func"].evaluate_deltas
    for s1, s2 in itertools.product(U.SORTS, U.SORTS):
        if not U.alive(s1, s2):
            continue
        pool = U.IndexPool(ctx.rng)
        i, j = pool.fresh(s1), pool.fresh(s2)
        if i is j:
            continue
        for tgs in ([i], [j], []):
            k = pool.fresh(s1)
            expr = KroneckerDelta(i, j) * NonSymmetricTensor("f", (i, k)) * \
                NonSymmetricTensor("g", (j,)) * NonSymmetricTensor("h", (k,))
            try:
                out = fn(expr, list(tgs) if tgs else [k])
            except Exception as ex:    # noqa
                return True, {"input": str(expr), "exception": repr(ex)}
            tg = list(tgs) if tgs else [k]
            diff = value_difference(ctx, expr, out, tg)
            if diff is not None:
                return True, {"input": str(expr), "targets": str(tg),
                              "output": str(out), "difference": diff}
    return False, None


# --------------------------------------------------------------------------
# 2. numeric validation
# --------------------------------------------------------------------------
def value_difference(ctx, expr, out, tg_indices, budget=40000):
    """evaluate input and output on small random models for every target
    assignment; returns a replay dict on a difference, None if equal,
    'skipped' if the sum is too large"""
    allidx = U.expr_indices(expr) | set(tg_indices)
    c = U.HashCtx(allidx)
    st_in = U.conv_args(expr, c)
    terms_out = []
    for t in Add.make_args(out):
        s = U.conv_args(t, c)
        if s is not None:
            terms_out.append(U.to_pyterm(s))
    t_in = U.to_pyterm(st_in) if st_in is not None else None
    tg = [c.conv(x) for x in tg_indices]
    checked = 0
    for nocc, nvirt in (((1, 1), (1, 1)), ((2, 1), (1, 2))):
        model = numeric.Model(ctx.rng.randrange(1 << 30), nocc, nvirt)
        con = adcio.term_contracted(t_in, set(tg)) if t_in else []
        size = 1
        for i in con:
            size *= max(1, len(model.rng(i.space, i.spin)))
        tsize = 1
        for i in tg:
            tsize *= max(1, len(model.rng(i.space, i.spin)))
        if size > budget:
            continue
        limit = max(1, min(tsize, budget // max(size, 1)))
        for tgenv in numeric.target_assignments(model, tg, limit, ctx.rng):
            v1 = model.eval_term(t_in, tgenv) if t_in else 0
            v2 = model.eval_expr(terms_out, tgenv)
            checked += 1
            if v1 != v2:
                return {"model_seed": model.seed, "nocc": nocc,
                        "nvirt": nvirt,
                        "targets": {repr(k): v for k, v in tgenv.items()},
                        "value_in": v1, "value_out": v2, "prime": numeric.P}
    return None if checked else "skipped"


# --------------------------------------------------------------------------
# 3. correspondence per recorded call
# --------------------------------------------------------------------------
def targets_of(rec):
    from adcgen.indices import get_symbols
    tg = rec["tg"]
    if tg is None:
        return None
    return list(get_symbols(tg))


def unit_cases(root):
    """top-level Mul calls of a call tree (roots or children of an Add)"""
    if isinstance(root["expr"], Add):
        for c in root["children"]:
            yield from unit_cases(c)
    elif isinstance(root["expr"], Mul):
        yield root


def chain(unit):
    out = [unit]
    while out[-1]["children"]:
        out.append(out[-1]["children"][0])
    return out


def structural_checks(ctx, root, label):
    """Add: result is the Add of the results of the calls on its args;
    non-Mul non-Add: returned unchanged; Mul: at most one recursive call whose
    result is returned unchanged"""
    ok = True
    for rec in U.all_calls(root):
        e = rec["expr"]
        if isinstance(e, Add):
            ok &= len(rec["children"]) == len(e.args) and \
                rec["result"] == Add(*[c["result"] for c in rec["children"]])
        elif isinstance(e, Mul):
            ok &= len(rec["children"]) <= 1
            if rec["children"]:
                ok &= rec["result"] == rec["children"][0]["result"]
        else:
            ok &= rec["result"] == e and not rec["children"]
    return ok


def run(ctx):
    import time
    rng = ctx.rng
    quick = ctx.tier == "quick"
    t0 = time.time()
    timing = {}
    check_tables(ctx)
    timing["tables"] = round(time.time() - t0, 1)

    n_valid = 220 if quick else 1200
    n_naked = 80 if quick else 400
    n_wicks = 250 if quick else 1200
    units = []        # (label, stream, unit record, explicit?)
    with U.Recorder() as R:
        for stream, count, cover in (("valid", n_valid, True),
                                     ("delta-only", n_naked, False)):
            for n in range(count):
                expr, tg, info = U.gen_case(rng, cover=cover)
                if expr == 0:
                    continue
                label = f"{stream}{n}"
                arg = tg
                if tg is not None and tg and all(not x.spin for x in tg) \
                        and rng.random() < 0.5:
                    arg = "".join(x.name for x in tg)   # the documented str
                if tg is not None and not tg:
                    arg = []          # falsy -> get_symbols gives []
                try:
                    if arg is None:
                        R(expr)
                    else:
                        R(expr, arg)
                except Exception as ex:    # noqa
                    ctx.violation(f"C09:exception:{expr}|{tg}",
                                  f"evaluate_deltas raised {ex!r}",
                                  {"input": str(expr), "targets": str(tg)},
                                  True)
                    continue
                root = R.roots[-1]
                root["label"], root["stream"] = label, stream
                root["info"] = info
        n_gen_roots = len(R.roots)
        # real derivations
        try:
            import adcgen
            op = adcgen.Operators()
            gs = adcgen.GroundState(op)
            gs.energy(2)
            gs.amplitude(2, "ph", "ia")
            isr = adcgen.IntermediateStates(gs, "pp")
            isr.overlap_precursor(1, "ph,ph", ("ia", "jb"))
            sm = adcgen.SecularMatrix(isr)
            sm.isr_matrix_block(1, "ph,ph", ("ia", "jb"))
            if not quick:
                sm.isr_matrix_block(2, "ph,ph", ("ia", "jb"))
        except Exception as ex:    # noqa
            ctx.note(f"derivation capture failed: {ex!r}")
        for n, root in enumerate(R.roots[n_gen_roots:]):
            root["label"], root["stream"] = f"wicks{n}", "wicks"
            root["info"] = {}
        roots = list(R.roots)

    timing["record"] = round(time.time() - t0, 1)
    seen_w = set()
    n_struct_bad = 0
    for root in roots:
        if not structural_checks(ctx, root, root["label"]):
            n_struct_bad += 1
            ctx.violation(f"C09:structure:{root['expr']}",
                          "evaluate_deltas: Add/Mul/other dispatch does not "
                          "return the combination of the recursive results",
                          {"input": str(root["expr"])}, False)
        k = 0
        for u in unit_cases(root):
            if root["stream"] == "wicks":
                key = str(u["expr"])
                if key in seen_w or len(seen_w) >= n_wicks:
                    continue
                seen_w.add(key)
            units.append((f"{root['label']}.{k}", root["stream"], u))
            k += 1
    ctx.obligation("Add / non-Mul dispatch and propagation of the recursive "
                   "result (all recorded calls)", n_struct_bad == 0)

    # ---- build Coq cases
    cases, meta = [], []
    for label, stream, u in units:
        ch = chain(u)
        tg0 = targets_of(u)
        allidx = set()
        for rec in ch:
            allidx |= U.expr_indices(rec["expr"])
            t = targets_of(rec)
            if t:
                allidx |= set(t)
        allidx |= U.expr_indices(u["result"])
        try:
            c = U.HashCtx(allidx)
            states = [U.conv_args(rec["expr"], c) for rec in ch]
            final = None
            fin_terms = Add.make_args(u["result"])
            if len(fin_terms) != 1:
                raise adcio.Unsupported("result is a sum")
            final = U.conv_args(u["result"], c)
            tgs = []
            for rec in ch:
                t = targets_of(rec)
                tgs.append(None if t is None else [c.conv(x) for x in t])
        except adcio.Unsupported as ex:
            ctx.note(f"{label}: not serialisable: {ex}")
            ctx.case(kind=f"{stream}:unsupported", nontrivial=False)
            continue
        for k, rec in enumerate(ch):
            if not isinstance(rec["expr"], Mul):
                continue           # 0 / single object: returned as it is
            recursed = k + 1 < len(ch)
            nxt = states[k + 1] if recursed else final
            tg_next = tgs[k + 1] if recursed else None
            cases.append(
                f"check_step {U.coq_state_raw(states[k])} "
                f"{U.coq_opt_idx_list(tgs[k])} {U.coq_state(nxt)} "
                f"{'true' if recursed else 'false'} "
                f"{U.coq_opt_idx_list(tg_next)}")
            meta.append(("step", label, stream, u, k, rec))
        cases.append(f"check_terminal {U.coq_state_raw(states[0])} "
                     f"{U.coq_opt_idx_list(tgs[0])} {U.coq_state(final)}")
        meta.append(("terminal", label, stream, u, 0, u))
        # certificate for the whole call tree (theorem check_trace_sound)
        obs = [states[k] for k in range(1, len(ch))]
        if isinstance(ch[-1]["expr"], Mul):
            obs.append(final)
        cases.append(f"check_trace_top {U.coq_state_raw(states[0])} "
                     f"{U.coq_opt_idx_list(tgs[0])} "
                     + adcio.coq_list(U.coq_state(o) for o in obs))
        meta.append(("trace", label, stream, u, 0, u))
        # hypotheses of the theorems on every observed argument list
        sem = U.coq_opt_idx_list(tgs[0]) if tgs[0] is not None else \
            f"(Some (einstein_targets (sobjs {U.coq_state_raw(states[0])})))"
        for k, rec in enumerate(ch):
            if states[k] is None or not isinstance(rec["expr"], Mul):
                continue
            cases.append(f"check_hyps {U.coq_state_raw(states[k])} {sem}")
            meta.append(("hyps", label, stream, u, k, rec))
    timing["serialise"] = round(time.time() - t0, 1)
    vals, errs = ctx.coq_eval("steps", cases, header=HEADER, shard=150)
    timing["coq"] = round(time.time() - t0, 1)
    ctx.obligation("all model evaluations ran", not errs, "; ".join(errs)[:800])

    # ---- compare
    bad_units = {}
    hyp = {}
    term = {}
    trace = {}
    for v, (what, label, stream, u, k, rec) in zip(vals, meta):
        nd = sum(1 for a in rec["expr"].args
                 if type(a).__name__ == "KroneckerDelta") \
            if isinstance(rec["expr"], Mul) else 0
        if what == "step":
            ctx.case(key=(str(rec["expr"]), str(rec["tg"])),
                     nontrivial=nd >= 1,
                     sample={"label": label, "pass": k,
                             "args": str(rec["expr"].args)[:300],
                             "targets": str(rec["tg"]),
                             "result": str(rec["result"])[:200]},
                     kind=f"{stream}:deltas{min(nd, 7)}:"
                          f"{'counted' if u['tg'] is None else 'explicit'}"
                          + (":sum-factor" if any(
                              isinstance(a, Add) or (a.is_Pow and isinstance(
                                  a.base, Add)) for a in rec["expr"].args)
                             else ""))
            # the recursive call must be given the target list (the model
            # uses one target list for the whole recursion)
            fwd = not rec["children"] or rec["children"][0]["tg"] is not None
            ok = v == "(true, true, true)" and fwd
            if not fwd:
                v = f"{v}; recursive call without target_idx"
            ctx.obligation(f"pass model = implementation {label} pass {k}",
                           ok, f"{v} args={rec['expr'].args} tg={rec['tg']}")
            if not ok:
                bad_units.setdefault(label, (u, stream, []))[2].append(
                    {"pass": k, "coq": v, "args": str(rec["expr"].args),
                     "targets": str(rec["tg"]),
                     "observed_next": str(rec["children"][0]["expr"]
                                          if rec["children"]
                                          else rec["result"])})
        elif what == "hyps":
            hyp.setdefault(label, []).append(v)
        elif what == "trace":
            trace[label] = v
        else:
            # (every delta left is stuck, result is still a Mul): a lone
            # object is returned as it is by the recursive call
            term[label] = v
            ok = v in ("(true, true)", "(true, false)", "(false, false)")
            ctx.obligation(f"result is terminal {label}", ok,
                           f"{v} in={u['expr']} tg={u['tg']} "
                           f"out={u['result']}")
            if not ok:
                bad_units.setdefault(label, (u, stream, []))[2].append(
                    {"terminal": v, "input": str(u["expr"]),
                     "output": str(u["result"])})

    # ---- value validation (numeric; sampling, not the proof)
    n_val = n_skip = n_outside = n_hyp_ok = n_cert = 0
    uncert = []
    value_viol = []
    wf_viol = []
    for label, stream, u in units:
        if not isinstance(u["expr"], Mul):
            continue
        try:
            allidx = U.expr_indices(u["expr"])
            c = U.HashCtx(allidx | set(targets_of(u) or []))
            st = U.conv_args(u["expr"], c)
            if st is None:
                continue
            back = {c.conv(x): x for x in allidx}
            if u["tg"] is None:
                sem = [back[i] for i in U.einstein_targets(st)]
            else:
                sem = targets_of(u)
            inside = U.covered(st, [c.conv(x) for x in sem])
            hv = hyp.get(label)
            if hv:
                # the hypotheses as decided by Coq (wf_objsb, coveredb)
                wf_all = all(h is not None and h.startswith("(true")
                             for h in hv)
                cov0 = hv[0] is not None and hv[0].endswith("true)")
                cov_all = all(h is not None and h.endswith("true)")
                              for h in hv)
                if not ctx.obligation(f"observed argument lists are well "
                                      f"formed (wf_objsb) {label}", wf_all,
                                      str(hv)):
                    wf_viol.append((
                        len(u["expr"].args),
                        f"C09:wf:{u['expr']}|tg={u['tg']}",
                        "an argument list seen by evaluate_deltas violates "
                        "the well-formedness hypothesis of the theorems "
                        "(a delta that is not in the form KroneckerDelta.eval "
                        "is modelled to leave, or a zero exponent)",
                        {"input": str(u["expr"]), "targets": str(u["tg"]),
                         "check_hyps": hv}, False))
                ctx.obligation(f"python/Coq agree on the coverage "
                               f"hypothesis {label}", cov0 == inside, str(hv))
                if cov0:
                    ctx.obligation(f"coverage is kept by every observed "
                                   f"step (good_step) {label}", cov_all,
                                   str(hv))
                    # theorem eval_deltas_terminal_covered: no exception
                    if not ctx.obligation(
                            f"covered product: every delta left is stuck "
                            f"{label}", (term.get(label) or "").startswith(
                                "(true"), str(term.get(label))):
                        bad_units.setdefault(label, (u, stream, []))[2].append(
                            {"terminal_under_coverage": term.get(label),
                             "output": str(u["result"])})
                    n_hyp_ok += wf_all and cov_all
                    # kernel-evaluated certificate: result has the value of
                    # the input in every model (check_trace_sound)
                    cert = trace.get(label) == "true"
                    n_cert += cert
                    if not cert:
                        uncert.append(f"{label}: {u['expr']} tg={u['tg']} "
                                      f"-> {u['result']}")
                        # the only accepted reason: the implementation
                        # returned 0 because an antisymmetric tensor got a
                        # repeated index (not part of check_trace)
                        if not ctx.obligation(
                                f"covered product with non-zero result has a "
                                f"kernel-checked value certificate {label}",
                                u["result"] == 0, str(trace.get(label))):
                            bad_units.setdefault(
                                label, (u, stream, []))[2].append(
                                {"check_trace_top": trace.get(label),
                                 "output": str(u["result"])})
                inside = inside and cov0
            diff = value_difference(ctx, u["expr"], u["result"], sem,
                                    budget=5000 if quick else 10000)
        except adcio.Unsupported:
            continue
        if diff == "skipped":
            n_skip += 1
            continue
        if not inside:
            n_outside += 1
            ctx.dist["value:outside-precondition:" +
                     ("equal" if diff is None else "different")] = \
                ctx.dist.get("value:outside-precondition:" +
                             ("equal" if diff is None else "different"), 0) + 1
            continue
        n_val += 1
        if not ctx.obligation(f"value preserved (numeric) {label}",
                              diff is None, str(diff)):
            value_viol.append((
                len(u["expr"].args),
                f"C09:value:{u['expr']}|tg={u['tg']}",
                "evaluate_deltas changed the value of a term in which every "
                "contracted index occurs on a non-delta object",
                {"input": str(u["expr"]), "targets": str(u["tg"]),
                 "neutral": neutral(u),
                 "semantic_targets": str(sem), "output": str(u["result"]),
                 "model_disagreements": bad_units.get(
                     label, (None, None, []))[2],
                 "difference": diff}, True))
            bad_units.pop(label, None)
    timing["numeric"] = round(time.time() - t0, 1)
    ctx.extra["timing_cumulative_s"] = timing
    ctx.extra["units_satisfying_theorem_hypotheses"] = n_hyp_ok
    ctx.extra["units_with_kernel_checked_value_certificate"] = n_cert
    ctx.extra["covered_units_without_certificate"] = uncert[:20]
    ctx.extra["value_checked_units"] = n_val
    ctx.extra["value_skipped_too_large"] = n_skip
    ctx.extra["units_outside_precondition"] = n_outside
    ctx.extra["units"] = len(units)

    step_viol = []
    for label, (u, stream, details) in bad_units.items():
        # the model no longer describes the implementation on this input;
        # search for a value difference on it
        sem = None
        diff = None
        try:
            allidx = U.expr_indices(u["expr"])
            c = U.HashCtx(allidx | set(targets_of(u) or []))
            st = U.conv_args(u["expr"], c)
            back = {c.conv(x): x for x in allidx}
            sem = [back[i] for i in U.einstein_targets(st)] \
                if u["tg"] is None else targets_of(u)
            if U.covered(st, [c.conv(x) for x in sem]):
                diff = value_difference(ctx, u["expr"], u["result"], sem)
        except Exception as ex:     # noqa
            ctx.note(f"{label}: failing-input search failed: {ex!r}")
        step_viol.append((
            len(u["expr"].args),
            f"C09:step:{u['expr']}|tg={u['tg']}",
            "the verified pass model (Models/Deltas.v) does not reproduce "
            "evaluate_deltas on this input",
            {"input": str(u["expr"]), "targets": str(u["tg"]),
             "neutral": neutral(u),
             "output": str(u["result"]), "disagreements": details,
             "difference": diff if isinstance(diff, dict) else None},
            isinstance(diff, dict)))
    # report the smallest inputs of each kind (every one is counted in the
    # obligations and in the evidence; known findings are always reported)
    ctx.extra["value_violations_total"] = len(value_viol)
    ctx.extra["model_disagreement_units_total"] = len(step_viol)
    known = known_keys()
    ctx.extra["wf_violations_total"] = len(wf_viol)
    for lst in (value_viol, step_viol, wf_viol):
        lst.sort(key=lambda v: (not v[4], v[0], v[1]))
        shown = 0
        for size, key, what, rep, found in lst:
            if key in known or shown < MAX_REPORT:
                ctx.violation(key, what, rep, found)
                shown += key not in known


def neutral(u):
    """JSON description of a recorded top-level call, for --replay"""
    try:
        tg = targets_of(u)
        c = U.HashCtx(U.expr_indices(u["expr"]) | set(tg or []))
        st = U.conv_args(u["expr"], c)
        return {"product": U.state_to_json(st),
                "targets": None if tg is None else
                [[x.space, x.spin, x.name, 0] for x in tg]}
    except Exception as ex:      # noqa
        return {"error": repr(ex)}


def replay(ctx, rep):
    """re-execute a replay file: rebuild the product, run evaluate_deltas of
    the current tree on it, compare values numerically and re-run the Coq
    checks"""
    import json
    from adcgen.indices import get_symbols
    r = rep.get("replay", {})
    print(json.dumps({k: v for k, v in r.items() if k != "neutral"},
                     indent=1, default=str)[:4000])
    neu = r.get("neutral")
    if not neu or "product" not in neu:
        print("no reconstructible input in this replay file")
        return 0
    expr = U.json_to_expr(neu["product"])
    tg = None if neu["targets"] is None else [
        get_symbols(d[2], d[1] if d[1] else None)[0] for d in neu["targets"]]
    with U.Recorder() as R:
        out = R(expr) if tg is None else R(expr, tg)
    print("input   :", expr)
    print("targets :", tg)
    print("output  :", out)
    c = U.HashCtx(U.expr_indices(expr) | set(tg or []))
    st = U.conv_args(expr, c)
    back = {c.conv(x): x for x in U.expr_indices(expr)}
    sem = [back[i] for i in U.einstein_targets(st)] if tg is None else tg
    inside = U.covered(st, [c.conv(x) for x in sem])
    diff = value_difference(ctx, expr, out, sem)
    print("every contracted index on a non-delta object:", inside)
    print("numeric difference:", diff)
    u = R.roots[0]
    ch = chain(u)
    states = [U.conv_args(x["expr"], c) for x in ch]
    obs = states[1:] + ([U.conv_args(out, c)]
                        if isinstance(ch[-1]["expr"], Mul) else [])
    tgc = None if tg is None else [c.conv(x) for x in tg]
    vals, errs = ctx.coq_eval("replay", [
        f"check_trace_top {U.coq_state_raw(st)} {U.coq_opt_idx_list(tgc)} "
        + adcio.coq_list(U.coq_state(o) for o in obs)], header=HEADER)
    print("check_trace_top (kernel-checked value certificate):", vals, errs)
    return 1 if (isinstance(diff, dict) and inside) else 0
