"""C14 - removing / differentiating by a tensor undoes a contraction exactly."""
import itertools
import sys
from fractions import Fraction
from math import isqrt
from sympy import Add, Mul, S, Rational
from adcgen.expr_container import Expr
from adcgen.indices import Index, get_symbols
from adcgen.derivative import derivative
from adcgen.sympy_objects import AntiSymmetricTensor
import adcio
import certfind
import gen_terms as G
import equivcheck as EQ
import numeric

LEVEL = "proof"
RULE = ("random sums of tensor products containing the tensor to remove "
        "(antisymmetric / symmetric with bra-ket symmetry 0,+1,-1, ADC "
        "amplitude vectors X/Y, non-symmetric tensors with repeated indices, "
        "tensor carrying target indices, several terms with different "
        "blocks); remove_tensor output re-contracted with the documented "
        "weights and derivative output contracted with a variation tensor, "
        "both compared with the input / its first variation by the verified "
        "validator. Non-trivial: tensor present in >= 1 term; distinct by "
        "input text")
TRUSTED = ["recontraction and variation are assembled by this plug-in "
           "(Python) from the returned block expressions; the equality is "
           "decided by the Coq validator",
           "expected minimal index names are recomputed independently "
           "(lowest available names per space/spin, cf. C08)"]
ASSUMPTIONS = ["tensor models respect declared symmetries; sqrt(k)^2 = k",
               "terms in which the removed tensor occurs more than once with "
               "different blocks are excluded (block key does not record the "
               "order of removal) - stated bound",
               "tensor occurring with negative exponent or inside a "
               "denominator is rejected by the library (NotImplemented)"]

remove_tensor = None


def _rt():
    return sys.modules["adcgen.simplify"].remove_tensor


# ---- helpers on pyterms ------------------------------------------------
def normalize_sqrt(term):
    c, facs = term
    rad = 1
    rest = []
    for a, inv in facs:
        if a[0] == "R" and not inv:
            rad *= a[1]
        else:
            rest.append((a, inv))
    # extract squares
    out = 1
    k = 2
    while k * k <= rad:
        while rad % (k * k) == 0:
            rad //= k * k
            out *= k
        k += 1
    if rad > 1:
        rest.append((("R", rad), False))
    return (c * out, rest)


def slots_from_key(block):
    if "_" in block:
        sp, spin = block.split("_")
        spin = ["" if c == "n" else c for c in spin]
    else:
        sp, spin = block, [""] * len(block)
    space = {"o": "occ", "v": "virt", "g": "general"}
    return [(space[c], s) for c, s in zip(sp, spin)]


def group_order(atom):
    """number of sort-preserving permutations of the (distinct) indices of the
    tensor that map its canonical form onto itself (up to sign)"""
    idxs = list(dict.fromkeys(adcio.atom_indices(atom)))
    by = {}
    for i in idxs:
        by.setdefault(i.sort, []).append(i)
    ref = certfind.canon_tensor(atom)
    n = 0
    groups = list(by.values())
    for combo in itertools.product(*(itertools.permutations(g)
                                     for g in groups)):
        m = {}
        for g, perm in zip(groups, combo):
            m.update(dict(zip(g, perm)))
        if certfind.canon_tensor(adcio.rename_atom(atom, m)) == ref:
            n += 1
    return n


def build_tensor(proto, block, target_names):
    """tensor atom of the same kind/name/bks/ranks as proto carrying the
    lowest available indices (excluding target names) for the given block"""
    slots = slots_from_key(block)
    used = {}
    new = []
    for sort in slots:
        pool = certfind.pool_names(sort, set(), 40)
        pool = [p for p in pool if p.name not in target_names.get(sort, ())]
        k = used.get(sort, 0)
        new.append(pool[k])
        used[sort] = k + 1
    _, kind, name, bks, up, lo = proto
    if kind == "KAmp":      # Obj.idx = lower + upper
        n_l = len(lo)
        lower, upper = new[:n_l], new[n_l:]
    elif kind == "KNonSym":
        upper, lower = new, []
    else:
        n_u = len(up)
        upper, lower = new[:n_u], new[n_u:]
    return ("T", kind, name, bks, tuple(upper), tuple(lower)), new


def obj_idx(a):
    return (list(a[5]) + list(a[4])) if a[1] == "KAmp" else \
        (list(a[4]) + list(a[5]))


def minimal_tuple(a, target_names):
    """model of indices.minimize_tensor_indices on Obj.idx: target indices
    stay, every other distinct index gets the lowest available name of its
    space/spin (not a target name) in order of first appearance; returns the
    atom carrying the minimised indices"""
    idxs = obj_idx(a)
    n_unique = len(set(idxs))
    mapping, used = {}, {}
    for s in idxs:
        if s in mapping:
            continue
        if s.name in target_names.get(s.sort, ()):
            mapping[s] = s
            continue
        pool = [q for q in certfind.pool_names(s.sort, set(), 60)
                if q.name not in target_names.get(s.sort, ())]
        k = used.get(s.sort, 0)
        mapping[s] = pool[k]
        used[s.sort] = k + 1
    new = [mapping[s] for s in idxs]
    _, kind, name, bks, up, lo = a
    if kind == "KAmp":
        n_l = len(lo)
        lower, upper = new[:n_l], new[n_l:]
    elif kind == "KNonSym":
        upper, lower = new, []
    else:
        n_u = len(up)
        upper, lower = new[:n_u], new[n_u:]
    return ("T", kind, name, bks, tuple(upper), tuple(lower))


def block_of(a):
    idxs = obj_idx(certfind.canon_tensor(a))
    sp = "".join(i.space[0] for i in idxs)
    spin = "".join(i.spin if i.spin else "n" for i in idxs)
    return sp, spin


def find_proto(pterms, name, block):
    """an occurrence of the tensor whose canonical block (Obj.space/spin) is
    `block` - supplies kind, bra-ket symmetry and the upper/lower ranks"""
    n = len(slots_from_key(block))
    best = None
    for c, facs in pterms:
        for a, inv in facs:
            if a[0] == "T" and a[2] == name and len(a[4]) + len(a[5]) == n:
                idxs = (list(a[5]) + list(a[4])) if a[1] == "KAmp" \
                    else (list(a[4]) + list(a[5]))
                if [i.sort for i in idxs] == slots_from_key(block):
                    return a
                best = best or a
    return best


def is_adc_amp(name):
    return sys.modules["adcgen.tensor_names"].is_adc_amplitude(name)


# ---- generators --------------------------------------------------------
REMOVABLE = [
    ("d", "anti", [("o", "o"), ("v", "v"), ("o", "v"), ("oo", "vv"),
                   ("ov", "ov"), ("oo", "ov")], (0, 1)),
    ("f", "anti", [("o", "o"), ("v", "v"), ("o", "v")], (1,)),
    ("A", "anti", [("oo", "vv"), ("ov", "ov"), ("o", "v")], (0, 1, -1)),
    ("B", "sym", [("oo", "vv"), ("o", "v"), ("ov", "ov")], (0, 1)),
    ("X", "amp", [("v", "o"), ("vv", "oo"), ("v", "oo"), ("vv", "o")], (0,)),
    ("Y", "amp", [("v", "o"), ("vv", "oo"), ("v", "oo"), ("vv", "o"),
                  ("vv", "ooo"), ("", "o"), ("v", "")], (0,)),
    ("n", "nonsym", [("ov", ""), ("oov", ""), ("oo", ""), ("ovv", "")],
     (0,)),
]


def gen_expr(rng):
    occ, virt = G.pool("o", 7), G.pool("v", 7)
    ntg = rng.choice([(0, 0), (1, 1), (1, 0), (2, 2), (0, 0)])
    tg = occ[:ntg[0]] + virt[:ntg[1]]
    pools = {"o": occ[:ntg[0] + 3], "v": virt[:ntg[1] + 3]}
    spec = rng.choice(REMOVABLE)
    name, kind, blocks, bkss = spec
    bks = rng.choice(bkss)
    others = [v for v in G.VOCAB if v[0] not in (name, "D", "e")]
    terms = []
    for _ in range(rng.randint(1, 4)):
        up_sp, lo_sp = rng.choice(blocks)

        def draw(spaces, allow_repeat):
            out = []
            for sp in spaces:
                cand = [x for x in pools[sp] if allow_repeat or x not in out]
                out.append(rng.choice(cand))
            return out
        rep = (kind == "nonsym")
        t = G.make_tensor(name, kind, draw(up_sp, rep), draw(lo_sp, rep), bks)
        if rng.random() < 0.2:
            # a second occurrence of the tensor with other indices (only the
            # derivative is specified for such terms: product rule)
            up2, lo2 = rng.choice(blocks)
            t = t * G.make_tensor(name, kind, draw(up2, rep), draw(lo2, rep),
                                  bks)
        rest = G.random_term(rng, rng.randint(0, 2), pools, vocab=others)
        term = G.random_coef(rng, allow_sqrt=False) * t * rest
        if rng.random() < 0.15:
            # a term that does not contain the tensor
            term = G.random_coef(rng) * G.random_term(rng, 2, pools,
                                                      vocab=others)
        if term == 0:
            continue
        # a valid tensor equation: every term carries every target index
        missing = [x for x in tg if x not in term.atoms(Index)]
        if missing:
            term = term * G.NonSymmetricTensor("w", tuple(missing))
        terms.append(term)
    e = Add(*terms)
    return e, tg, name


def run(ctx):
    rng = ctx.rng
    quick = ctx.tier == "quick"
    n = 100 if quick else 500
    rt = _rt()
    cases, meta = [], []
    dcases, dmeta = [], []
    def do_derivative(E, e, p, tgc, tnames, name, ictx):
        # ------------------------------------------------ derivative
        try:
            der = derivative(E.copy(), name)
        except Exception as ex:
            ctx.violation(f"C14:derivative-exception:{name}:{str(e)[:100]}",
                          f"derivative raised {ex!r}",
                          {"expr": str(e), "tensor": name}, False)
            return
        dname = "dZ"
        # minimal index tuple of every occurrence, per canonical block
        tuples = {}
        for c, facs in p:
            for a, inv in facs:
                if a[0] == "T" and a[2] == name:
                    mt = certfind.canon_tensor(minimal_tuple(a, tnames))
                    tuples.setdefault(block_of(mt), set()).add(mt)
        if any(len(v) > 1 for v in tuples.values()):
            # occurrences in one block with different minimal index tuples
            # (target / repeated indices at different places): the block-wise
            # result has no single tensor to be contracted with - excluded
            ctx.dist["derivative:excluded-ambiguous-block"] = \
                ctx.dist.get("derivative:excluded-ambiguous-block", 0) + 1
            return
        variation = []
        for c, facs in p:
            for pos, (a, inv) in enumerate(facs):
                if a[0] == "T" and a[2] == name and not inv:
                    na = (a[0], a[1], dname) + a[3:]
                    nf = list(facs)
                    nf[pos] = (na, False)
                    variation.append((c, nf))
        contracted = []
        okd = True
        for (space, spin), D in der.items():
            try:
                pD = adcio.conv_expr(getattr(D, "sympy", D), ictx)
            except adcio.Unsupported as ex:
                okd = False
                break
            cand = tuples.get((space, spin))
            if not cand:
                okd = False
                ctx.note(f"derivative key {(space, spin)} not among the "
                         f"blocks of the occurrences {list(tuples)}")
                break
            atom = next(iter(cand))
            atom = (atom[0], atom[1], dname) + atom[3:]
            for c, facs in pD:
                contracted.append((c, list(facs) + [(atom, False)]))
        if not okd:
            return
        dirty = any(a[0] == "T" and a[2] == name and
                    any(i in tgc for i in adcio.atom_indices(a))
                    for c, facs in p for a, inv in facs)
        variation = [normalize_sqrt(t) for t in variation]
        contracted = [normalize_sqrt(t) for t in contracted]
        dcases.append(EQ.coq_case(contracted, variation, tgc, deltas=True))
        dmeta.append((E, name, der, contracted, variation, tgc, dirty))
        ctx.case(key=("derivative", str(e), name, repr(tgc)),
                 nontrivial=bool(der), kind=f"derivative:{name}")


    # terms that use (almost) the whole alphabet of a space: the lowest free
    # names for the fresh indices come from the second generation of names
    def big_terms():
        NST = G.NonSymmetricTensor
        out = []
        for sp in "ov":
            L = G.pool(sp, 8 if sp == "v" else 7)
            for n_used in (len(L) - 1, len(L)):
                xs = L[:n_used]
                # target xs[0] on the removed tensor d^{x0}_{x1}; the other
                # names sit on three further tensors
                rest = xs[1:]
                third = max(1, len(rest) // 3)
                A = NST("qa", tuple(rest[:third + 1]))
                B = NST("qb", tuple(rest[1:2 * third + 1]))
                C = NST("qc", tuple(rest[third:]))
                d1 = AntiSymmetricTensor("d", (xs[0],), (xs[1],), 0)
                out.append((d1 * A * B * C * NST("qd", tuple(rest)),
                            [xs[0]], "d"))
                d2 = AntiSymmetricTensor("d", (xs[0], xs[1]),
                                         (xs[2], xs[3]), 0)
                out.append((Rational(1, 2) * d2 * NST("qd", tuple(xs[2:])),
                            [xs[0], xs[1]], "d"))
        return out
    fixed = big_terms()
    for k in range(n + len(fixed)):
        e, tg, name = gen_expr(rng) if k < n else fixed[k - n]
        if e == 0:
            continue
        E = Expr(e, target_idx=tg)
        ictx = adcio.IdxCtx()
        try:
            p = adcio.conv_expr(E.expand(), ictx)
        except adcio.Unsupported:
            continue
        tgc = [ictx.conv(x) for x in tg]
        tnames = {}
        for x in tgc:
            tnames.setdefault(x.sort, set()).add(x.name)
        # stated bound: at most one occurrence per term
        multi = any(sum(1 for a, inv in facs if a[0] == "T" and a[2] == name)
                    > 1 for c, facs in p)
        if multi:
            # remove_tensor is specified for one occurrence per term; the
            # derivative (product rule over the occurrences) is checked
            do_derivative(E, e, p, tgc, tnames, name, ictx)
            continue
        # ------------------------------------------------ remove_tensor
        try:
            res = rt(E.copy(), name)
        except Exception as ex:
            ctx.violation(f"C14:remove-exception:{name}:{str(e)[:100]}",
                          f"remove_tensor raised {ex!r}",
                          {"expr": str(e), "tensor": name}, False)
            continue
        recon, ok_build, blocks_seen = [], True, []
        for key, B in res.items():
            Bs = getattr(B, "sympy", B)
            try:
                pB = adcio.conv_expr(Bs, ictx)
            except adcio.Unsupported as ex:
                ok_build = False
                ctx.note(f"unsupported block expr: {ex}")
                break
            if key == ("none",):
                recon += pB
                continue
            if len(key) != 1:
                ok_build = False
                break
            block = key[0]
            blocks_seen.append(block)
            proto = find_proto(p, name, block)
            atom, new = build_tensor(proto, block, tnames)
            # cross-check: the free indices of the block expression are the
            # expected minimal names
            free_expected = set(new)
            free_found = set()
            for t in pB:
                free_found |= {i for i in adcio.term_indices(t)
                               if i in free_expected}
            g = group_order(atom)
            bks = proto[3]
            if is_adc_amp(name):
                r = isqrt(g)
                if r * r == g:
                    w, extra = Fraction(1, r), []
                else:
                    w, extra = Fraction(1, g), [(("R", g), False)]
            else:
                w = Fraction(2 if bks in (1, -1) else 1, g)
                extra = []
            for c, facs in pB:
                recon.append(normalize_sqrt(
                    (c * w, list(facs) + [(atom, False)] + extra)))
        if not ok_build:
            continue
        p_in = [normalize_sqrt(t) for t in p]
        cases.append(EQ.coq_case(recon, p_in, tgc, deltas=True))
        meta.append((E, name, res, recon, p_in, tgc))
        ctx.case(key=("remove", str(e), name, repr(tgc)),
                 nontrivial=bool(blocks_seen),
                 sample={"expr": str(e)[:300], "remove": name,
                         "targets": repr(tgc),
                         "blocks": {str(k_): str(getattr(v, "sympy", v))[:160]
                                    for k_, v in res.items()}},
                 kind=f"remove:{name}:blocks{min(len(res), 4)}")
        do_derivative(E, e, p, tgc, tnames, name, ictx)

    vals, _ = ctx.coq_eval("remove", cases, header=adcio.COQ_HEADER2, shard=30)
    for v, (E, name, res, recon, p_in, tgc) in zip(vals, meta):
        ok = (v == "true")
        if not ctx.obligation(f"remove_tensor {name} recontracts to "
                              f"{str(E.sympy)[:60]}", ok, v):
            diff = None
            try:
                diff = numeric.find_difference(recon, p_in, tgc, ctx.rng)
            except Exception as ex:
                ctx.note(f"numeric search failed {ex!r}")
            ctx.violation(
                f"C14:remove:{name}:{str(E.sympy)[:160]}",
                "re-contracting the block expressions returned by "
                "remove_tensor with the documented normalisation is not "
                "proved equal to the input",
                {"expr": str(E.sympy), "tensor": name, "targets": repr(tgc),
                 "blocks": {str(k_): str(getattr(v_, "sympy", v_))
                            for k_, v_ in res.items()},
                 "difference": diff}, diff is not None)
    vals, _ = ctx.coq_eval("deriv", dcases, header=adcio.COQ_HEADER2, shard=30)
    for v, (E, name, der, contracted, variation, tgc, dirty) in zip(vals,
                                                                      dmeta):
        ok = (v == "true")
        if dirty and not ok:
            # known finding: derivative() applies the permutational symmetry
            # of the removed tensor also to target indices sitting on it
            # (remove_tensor first replaces them by fresh indices + deltas)
            diff = None
            try:
                diff = numeric.find_difference(contracted, variation, tgc,
                                               ctx.rng)
            except Exception as ex:
                ctx.note(f"numeric search failed {ex!r}")
            ctx.violation(
                "C14:derivative:tensor-carries-target-index",
                "derivative() w.r.t. a tensor occurrence that carries a "
                "target index symmetrises the remainder over permutations "
                "involving that target index (contribution lost or wrong)",
                {"expr": str(E.sympy), "tensor": name, "targets": repr(tgc),
                 "derivative": {str(k_): str(getattr(v_, "sympy", v_))
                                for k_, v_ in der.items()},
                 "difference": diff}, diff is not None)
            continue
        if not ctx.obligation(f"derivative wrt {name} contracted with a "
                              f"variation = first variation of "
                              f"{str(E.sympy)[:60]}", ok, v):
            diff = None
            try:
                diff = numeric.find_difference(contracted, variation, tgc,
                                               ctx.rng)
            except Exception as ex:
                ctx.note(f"numeric search failed {ex!r}")
            ctx.violation(
                f"C14:derivative:{name}:{str(E.sympy)[:160]}",
                "the block-wise derivative contracted with a variation of "
                "the tensor is not proved equal to the first-order change",
                {"expr": str(E.sympy), "tensor": name, "targets": repr(tgc),
                 "derivative": {str(k_): str(getattr(v_, "sympy", v_))
                                for k_, v_ in der.items()},
                 "difference": diff}, diff is not None)


def replay(ctx, rep):
    print(rep)
    return 0
