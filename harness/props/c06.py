"""C06 - tensor objects identify exactly the index tuples related by the
declared symmetry (constructors, substitution, Kronecker delta, assumptions).

Every construction is run in the implementation (/repo) and in the Gallina
model coq/Models/TensorObj.v (vm_compute, exact comparison inside Coq); the
property itself (same canonical object on an orbit with the prescribed sign,
zero iff forced, no identification of unrelated tuples) is additionally checked
directly on the implementation's results, independently of the model."""
import itertools
import re
import json
from fractions import Fraction

from sympy import Mul, Pow, S, Rational, Add, Symbol, sympify
from adcgen.sympy_objects import (AntiSymmetricTensor, SymmetricTensor,
                                  Amplitude, NonSymmetricTensor,
                                  KroneckerDelta)
from adcgen.indices import Index, get_symbols
from adcgen.expr_container import Expr
from adcgen.misc import Inputerror

import adcio
import numeric

LEVEL = "proof"
EXHAUSTIVE = True
RULE = ("exhaustive: every (upper, lower) index tuple incl. repeats over a pool "
        "of 10 (quick) / 12 (thorough) indices (occ/virt/general x spin ''/a/b, "
        "numbered names i3, j12, b2) for all rank pairs up to (2,2), classes "
        "AntiSymmetricTensor / SymmetricTensor / Amplitude, bra_ket_sym 0/1/-1 "
        "(+ invalid 2); all tuples WITH repeated indices over the 3-letter "
        "alphabets {i,j,i_a}, {i,a,p} for ranks 0..3 per group and over "
        "{i,j} for ranks 0..4 (every multiset inside and across the groups, "
        "both bra/ket orders, 3 classes x bks 0/+1/-1); thorough also ranks (3,3),(3,2),(2,3) over a 6-index "
        "sub-pool; sampled: ranks (3,3),(3,2),(2,3),(3,1),(4,4) with every "
        "permutation of upper and lower and the bra-ket swap; same-named "
        "dummies; KroneckerDelta on every ordered index pair of an 20-index "
        "pool and its powers; xreplace / subs (simultaneous and sequential) "
        "with maps that create repeats; Expr(.., real, sym_tensors, "
        "antisym_tensors) on random tensor products.  A case is non-trivial if "
        "the index tuple is not already canonical (or the result is zero / an "
        "exception); distinct = distinct (class, bks, upper, lower) input")
TRUSTED = ["index pool encoding (positions) shared by the Python encoder and "
           "the Coq decoder in this file; a wrong encoding shows up as a "
           "disagreement",
           "hash order of same-named dummies is passed to the model as uid "
           "order (observed on this run)"]
ASSUMPTIONS = ["tensor models respect the declared symmetries "
               "(TensorObjProofs.sym_respects = symmetry laws of "
               "Core.Canon.respects); 'zero' claims additionally assume that 2 "
               "is not a zero divisor (TensorObjProofs.two_regular)",
               "all tuple entries are adcgen Index objects (the isinstance "
               "guard for sympy's temporary Dummies in simultaneous subs is "
               "not modelled; subs results are compared after the fact)",
               "distinct Index objects have distinct hashes; names i and i0 / "
               "i3 and i03 are not used together",
               "bra-ket orbit theorem: no two different dummies share a name "
               "(exclusion exhibited by C06_braket_same_name_refuted)",
               "assumptions: a name is not declared symmetric and "
               "antisymmetric at once (the code raises on re-application)"]

KINDS = ["KAnti", "KSym", "KAmp"]
KCODE = {"KAnti": 0, "KSym": 1, "KAmp": 2, "KNonSym": 3}
KNAME = {v: k for k, v in KCODE.items()}
CLS = {"KAnti": AntiSymmetricTensor, "KSym": SymmetricTensor, "KAmp": Amplitude}

DIAG_KEY = ("C06:braket-antisym-diagonal:"
            "AntiSymmetricTensor('T',(i,j),(i,j),-1)")
IDEM_KEY = ("C06:assumptions-not-idempotent:"
            "Expr(Amplitude('t1cc',(a,),(i,)),real=True,sym_tensors=['t1'])")

HEADER = """From Coq Require Import ZArith NArith List String Bool.
From ADC Require Import Core.Scalar Core.Index Core.Expr Core.Canon Models.TensorObj.
Import ListNotations. Open Scope string_scope. Open Scope Z_scope.
"""


# ------------------------------------------------------------------ pools ---
class Pool:
    def __init__(self, idx, uids=None):
        self.idx = list(idx)
        self.pos = {x: n for n, x in enumerate(self.idx)}
        self.uids = uids or {}

    def coq_idx(self, x):
        name = x.name
        num = int(name[1:]) if name[1:] else 0
        return (f"(Idx {adcio.SPACE[x.space]} {adcio.SPIN[x.spin]} "
                f"{ord(name[0])}%N {num}%N {self.uids.get(x, 0)}%N)")

    def coq_defs(self):
        return ("Definition P : list index := [" +
                "; ".join(self.coq_idx(x) for x in self.idx) + "].\n" + DEFS)

    def __len__(self):
        return len(self.idx)


DEFS = """
Definition dflt := Idx Gen NoSpin 0%N 0%N 99%N.
Definition ix1 (z : Z) : index := nth (Z.to_nat z) P dflt.
Definition ix (l : list Z) : list index := map ix1 l.
Fixpoint pos_in (x : index) (l : list index) (n : Z) : Z :=
  match l with [] => -1 | y :: r => if index_eqb x y then n else pos_in x r (n + 1) end.
Definition kcode k := match k with KAnti => 0 | KSym => 1 | KAmp => 2 | KNonSym => 3 end.
Definition kof z := if z =? 0 then KAnti else if z =? 1 then KSym else if z =? 2 then KAmp else KNonSym.
Definition enc (x : tres) : string * list Z :=
  match x with
  | TZero => ("", [0]) | TErr => ("", [2])
  | TOk s t => (tname t, 1 :: (if s then 1 else 0) :: kcode (tkind t) :: tbks t ::
                 Z.of_nat (List.length (tupper t)) ::
                 map (fun i => pos_in i P 0) (tupper t ++ tlower t))
  end.
Fixpoint zl_eqb (a b : list Z) : bool :=
  match a, b with [] , [] => true | x :: a', y :: b' => (x =? y) && zl_eqb a' b' | _, _ => false end.
Definition enc_eqb (a b : string * list Z) := String.eqb (fst a) (fst b) && zl_eqb (snd a) (snd b).
(* returns (number of cases, [(case number, model result)] for disagreements) *)
Fixpoint chk_all {A} (f : A -> string * list Z) (cs : list (A * (string * list Z))) (n : Z)
  : Z * list (Z * (string * list Z)) :=
  match cs with
  | [] => (n, [])
  | (c, e) :: r => let '(m, bad) := chk_all f r (n + 1) in
                   let g := f c in if enc_eqb g e then (m, bad) else (m, (n, g) :: bad)
  end.
Definition run (c : Z * Z * list Z * list Z) :=
  let '(k, b, u, l) := c in enc (mk_tensor (kof k) "T" b (ix u) (ix l)).
Definition amap (m : list (Z * Z)) (x : index) : index :=
  let p := pos_in x P 0 in
  match find (fun pr => fst pr =? p) m with Some pr => ix1 (snd pr) | None => x end.
Definition mkt (c : Z * Z * list Z * list Z) : tens :=
  let '(k, b, u, l) := c in Tens (kof k) "T" b (ix u) (ix l).
(* simultaneous substitution *)
Definition run_sub (c : (Z * Z * list Z * list Z) * list (Z * Z)) :=
  enc (subst_tensor (amap (snd c)) (mkt (fst c))).
(* sequential substitution: the constructor runs after every pair *)
Definition run_seq (c : (Z * Z * list Z * list Z) * list (Z * Z)) :=
  enc (fold_left (fun acc pr => tres_bind acc (subst_tensor (amap [pr]))) (snd c)
                 (TOk false (mkt (fst c)))).
Definition denc (d : dres) : string * list Z :=
  match d with DOne => ("", [1]) | DZero => ("", [0])
  | DDelta a b => ("", [2; pos_in a P 0; pos_in b P 0]) end.
Definition run_delta (c : Z * Z) := denc (delta_eval (ix1 (fst c)) (ix1 (snd c))).
Definition run_dsub (c : (Z * Z) * list (Z * Z)) :=
  denc (delta_eval (amap (snd c) (ix1 (fst (fst c)))) (amap (snd c) (ix1 (snd (fst c))))).
Definition run_assume (c : bool * list string * list string * (Z * string * Z * list Z * list Z)) :=
  let '(real, syms, antis, (k, nm, b, u, l)) := c in
  enc (assume_obj real syms antis (Tens (kof k) nm b (ix u) (ix l))).
"""


def zl(xs):
    return "[" + "; ".join(str(int(x)) if x >= 0 else f"({int(x)})"
                           for x in xs) + "]"


def coq_case(k, b, u, l):
    bb = str(b) if b >= 0 else f"({b})"
    return f"({KCODE[k]}, {bb}, {zl(u)}, {zl(l)})"


def coq_enc(e):
    name, lst = e
    return f'("{name}", {zl(lst)})'


def coq_pairs(m):
    return "[" + "; ".join(f"({a}, {b})" for a, b in m) + "]"


# --------------------------------------------------- implementation side ---
_EXC_COUNT = {}


class Unencodable(Exception):
    pass


def enc_obj(res, pool):
    """encoding of a constructor / substitution result (sympy object)"""
    res = sympify(res)
    if res == 0 or res.is_zero:
        return ("", [0])
    neg = 0
    coeff, rest = res.as_coeff_Mul()
    if coeff == 0:
        return ("", [0])
    if coeff == -1:
        neg, res = 1, rest
    elif coeff != 1:
        raise Unencodable(f"unexpected prefactor in {res!r}")
    if not isinstance(res, AntiSymmetricTensor):
        raise Unencodable(f"not a tensor: {res!r}")
    kind = adcio.tens_kind(res)
    try:
        pos = [pool.pos[x] for x in res.upper] + [pool.pos[x] for x in res.lower]
    except KeyError as ex:
        raise Unencodable(f"foreign index {ex} in {res!r}")
    return (res.name, [1, neg, KCODE[kind], int(res.bra_ket_sym),
                       len(res.upper)] + pos)


def guarded(ctx, what, descr, fn, default=None):
    """run fn(); an unexpected exception inside one case becomes a violation
    of that case (the run goes on)"""
    try:
        return fn()
    except Exception as ex:   # noqa
        import traceback
        ctx.obligation(f"{what}: no unexpected exception [{descr}]", False,
                       repr(ex))
        _EXC_COUNT[what] = _EXC_COUNT.get(what, 0) + 1
        if _EXC_COUNT[what] > 8:
            return default
        ctx.violation(f"C06:exception:{what}:{descr}"[:300],
                      f"{what} raised / returned an unexpected object: "
                      f"{ex!r}",
                      {"case": descr, "exception": repr(ex),
                       "traceback": traceback.format_exc()[-1500:]}, True)
        return default


def construct(kind, b, u, l, pool):
    try:
        res = CLS[kind]("T", tuple(pool.idx[n] for n in u),
                        tuple(pool.idx[n] for n in l), b)
    except (Inputerror, NotImplementedError):
        return ("", [2])
    return enc_obj(res, pool)


def parity(seq):
    seq, p = list(seq), 0
    for i in range(len(seq)):
        for j in range(len(seq) - 1 - i):
            if seq[j] > seq[j + 1]:
                seq[j], seq[j + 1] = seq[j + 1], seq[j]
                p ^= 1
    return p


def show(kind, b, u, l, pool):
    cls = CLS[kind].__name__
    return (f"{cls}('T',({','.join(str(pool.idx[n]) for n in u)}),"
            f"({','.join(str(pool.idx[n]) for n in l)}),{b})")


_PAIR = re.compile(r'\((\d+), \("([^"]*)", \[([^\]]*)\]\)\)')


def parse_chk(val):
    """'(n, [(k, ("T", [..])); ...])' -> (n, {k: (name, list)})"""
    if val is None:
        return None, {}
    m = re.match(r"\((\d+), \[(.*)\]\)$", val.strip(), re.S)
    if not m:
        return None, {}
    bad = {}
    for mm in _PAIR.finditer(m.group(2)):
        lst = [int(x) for x in mm.group(3).replace(" ", "").split(";") if x]
        bad[int(mm.group(1))] = (mm.group(2), lst)
    return int(m.group(1)), bad


def parse_enc(val):
    m = re.match(r'\("([^"]*)", \[([^\]]*)\]\)$', val.strip())
    if not m:
        return None
    return (m.group(1),
            [int(x) for x in m.group(2).replace(" ", "").split(";") if x])


class Batch:
    """collects (coq case text, expected encoding, description) and checks
    them in Coq, 400 per Eval"""

    def __init__(self, ctx, tag, fn, pool):
        self.ctx, self.tag, self.fn, self.pool = ctx, tag, fn, pool
        self.items = []

    def add(self, case_txt, expected, descr):
        self.items.append((case_txt, expected, descr))

    def run(self, per_eval=400, per_file=25):
        ctx = self.ctx
        evals = []
        for k in range(0, len(self.items), per_eval):
            chunk = self.items[k:k + per_eval]
            body = "; ".join(f"({c}, {coq_enc(e)})" for c, e, _ in chunk)
            evals.append(f"chk_all {self.fn} [{body}] 0")
        vals, errs = ctx.coq_eval(self.tag, evals, header=HEADER,
                                  defs=self.pool.coq_defs(), shard=per_file)
        ctx.obligation(f"coq evaluation of {self.tag} ({len(evals)} batches)",
                       not errs, "; ".join(errs)[:1500])
        mismatches = []
        checked = 0
        for k, v in enumerate(vals):
            chunk = self.items[k * per_eval:(k + 1) * per_eval]
            n, bad = parse_chk(v)
            if n is None or n != len(chunk):
                ctx.obligation(f"{self.tag} batch {k} evaluated", False,
                               str(v)[:300])
                continue
            checked += n
            for pos, got in bad.items():
                c, e, d = chunk[pos]
                mismatches.append((d, e, got))
        ctx.obligation(f"{self.tag}: model = implementation on {checked} "
                       f"cases", not mismatches and checked == len(self.items),
                       f"{len(mismatches)} disagreements, first: "
                       f"{mismatches[:3]}")
        return mismatches, checked


# ---------------------------------------------------------------- streams ---
def make_pool(tier):
    names = ["i", "j", "i3", "j12", "i", "i", "a", "a", "p", "p"]
    spins = ["", "", "", "", "a", "b", "", "a", "", "b"]
    if tier != "quick":
        names += ["b2", "q"]
        spins += ["b", "a"]
    return Pool(get_symbols(names, spins))


RANKS22 = [(0, 0), (1, 0), (0, 1), (1, 1), (2, 0), (0, 2), (2, 1), (1, 2),
           (2, 2)]


def stream_exhaustive(ctx, pool):
    n = len(pool)
    small = list(range(n)) if ctx.tier != "quick" else [0, 1, 2, 4, 6, 8]
    for kind in KINDS:
        dom = list(range(n)) if kind != "KAmp" else small
        for (nu, nl) in RANKS22:
            for u in itertools.product(dom, repeat=nu):
                for l in itertools.product(dom, repeat=nl):
                    for b in (0, 1, -1):
                        yield kind, b, u, l
    if ctx.tier != "quick":
        # rank 3 exhaustively over a 6-index sub-pool
        sub = [0, 1, 2, 4, 6, 8]
        for kind in ("KAnti", "KSym"):
            for (nu, nl) in ((3, 3), (3, 2), (2, 3)):
                for u in itertools.product(sub, repeat=nu):
                    for l in itertools.product(sub, repeat=nl):
                        for b in (0, 1, -1):
                            yield kind, b, u, l


def stream_small_alphabet(ctx, pool):
    """all (upper, lower) tuples WITH repetition over small alphabets, ranks
    0..3 per group (0..4 over two letters): every multiset of indices inside
    and across the groups, in both bra/ket orders, for the three classes and
    bks 0/+1/-1 (SymmetricTensor keeps repeated indices, so e.g. upper
    (i,i,j) / lower (i,j,j) - same set, different multiplicities - occurs)"""
    names = {str(x): n for n, x in enumerate(pool.idx)}
    alphabets = [([names["i"], names["j"], names["i_a"]], 3),
                 ([names["i"], names["a"], names["p"]], 3),
                 ([names["i"], names["j"]], 4),
                 ([names["j12"], names["p_b"]], 4 if ctx.tier != "quick" else 3)]
    for alpha, rmax in alphabets:
        for kind in KINDS:
            for nu in range(rmax + 1):
                for nl in range(rmax + 1):
                    for u in itertools.product(alpha, repeat=nu):
                        for l in itertools.product(alpha, repeat=nl):
                            for b in (0, 1, -1):
                                yield kind, b, u, l


def stream_sampled(ctx, pool):
    rng = ctx.rng
    n = len(pool)
    nbase = 14 if ctx.tier == "quick" else 60
    shapes = [(3, 3), (3, 2), (2, 3), (3, 1), (3, 3)]
    for kind in KINDS:
        for s in range(nbase):
            nu, nl = shapes[s % len(shapes)]
            # mostly repeat-free inside a group, sometimes with a repeat
            if rng.random() < 0.8:
                u = rng.sample(range(n), nu)
                l = rng.sample(range(n), nl) if rng.random() < 0.7 else \
                    (rng.sample(u, min(nl, nu)) + rng.sample(range(n), nl))[:nl]
            else:
                u = [rng.randrange(n) for _ in range(nu)]
                l = [rng.randrange(n) for _ in range(nl)]
            for pu in itertools.permutations(u):
                for pl in itertools.permutations(l):
                    for b in (0, 1, -1):
                        yield kind, b, pu, pl
                        if nu == nl:
                            yield kind, b, pl, pu
        # rank (4,4): one base, all 576 orderings, bks = +-1
        for s in range(1 if ctx.tier == "quick" else 4):
            u = rng.sample(range(n), 4)
            l = rng.sample(range(n), 4)
            for pu in itertools.permutations(u):
                for pl in itertools.permutations(l):
                    b = rng.choice((1, -1, 0))
                    yield kind, b, pu, pl
                    yield kind, b, pl, pu


def check_property(ctx, results, pool):
    """direct check of the property on the implementation's results
    (independent of the Coq model).  results: list of
    (kind, b, u, l, (name, enc))"""
    orbits, objmap = {}, {}
    diag, other = [], []
    for kind, b, u, l, (_, e) in results:
        if e[0] == 2:
            # exceptions: only for invalid bks / unequal ranks with bks != 0
            if not (b not in (0, 1, -1) or (b != 0 and len(u) != len(l))):
                other.append(("unexpected-exception", kind, b, u, l, e))
            continue
        su, sl = tuple(sorted(u)), tuple(sorted(l))
        anti = kind in ("KAnti", "KAmp")
        dup = anti and (len(set(u)) < len(u) or len(set(l)) < len(l))
        # the Pauli zero comes before the argument checks in the code
        if b not in (0, 1, -1) or (b != 0 and len(u) != len(l)):
            if not (dup and e[0] == 0):
                other.append(("missing-exception", kind, b, u, l, e))
            continue
        forced = dup or (b == -1 and su == sl)
        if e[0] == 0:
            if not forced:
                other.append(("zero-not-forced", kind, b, u, l, e))
            continue
        if forced:
            if dup:
                other.append(("pauli-zero-missing", kind, b, u, l, e))
            else:
                diag.append((kind, b, u, l, e))
            # still take part in the orbit comparison
        if b != 0:
            okey = (kind, b, frozenset([(su, sl), (sl, su)]))
            orient = 0 if (su, sl) <= (sl, su) else 1
        else:
            okey = (kind, b, (su, sl))
            orient = 0
        par = (parity(u) ^ parity(l)) if anti else 0
        ns = e[1] ^ par ^ (1 if (orient and b == -1) else 0)
        obj = tuple(e[2:])
        first = orbits.setdefault(okey, (obj, ns, (kind, b, u, l)))
        if first[0] != obj:
            other.append(("orbit-different-objects", kind, b, u, l, e,
                          first[2]))
        elif first[1] != ns and not (b == -1 and su == sl):
            other.append(("orbit-wrong-sign", kind, b, u, l, e, first[2]))
        k0 = objmap.setdefault(obj, okey)
        if k0 != okey:
            other.append(("unrelated-tuples-identified", kind, b, u, l, e,
                          str(k0)))
    return diag, other, len(orbits)


def run_constructors(ctx, pool):
    batch = Batch(ctx, "ctor", "run", pool)
    results = []
    seen = set()
    nsmp = 0
    for stream, label in ((stream_exhaustive, "exh"),
                          (stream_small_alphabet, "rep"),
                          (stream_sampled, "smp")):
        for kind, b, u, l in stream(ctx, pool):
            key = (kind, b, tuple(u), tuple(l))
            if key in seen:
                continue
            seen.add(key)
            e = guarded(ctx, "constructor", show(kind, b, u, l, pool),
                        lambda: construct(kind, b, u, l, pool))
            if e is None:
                continue
            results.append((kind, b, tuple(u), tuple(l), e))
            batch.add(coq_case(kind, b, u, l), e, key)
            canonical = (e[1][0] == 1 and e[1][1] == 0 and
                         tuple(e[1][5:]) == tuple(u) + tuple(l))
            smp = None
            if nsmp < 6 and e[1][0] == 1 and e[1][1] == 1 and b != 0 \
                    and len(u) + len(l) >= 4 and len(seen) % 997 == 0:
                nsmp += 1
                smp = {"call": show(kind, b, u, l, pool),
                       "result": ("-" if e[1][1] else "+") + show(
                           KNAME[e[1][2]], e[1][3], e[1][5:5 + e[1][4]],
                           e[1][5 + e[1][4]:], pool)}
            ctx.case(key=key, nontrivial=not canonical, sample=smp,
                     kind=f"{label}:{kind}:{len(u)},{len(l)}:bks{b}")
    # invalid bra_ket_sym
    for kind in KINDS:
        for u, l in (((0,), (6,)), ((0, 1), (6, 6)), ((0, 0), (6, 1)), ((), ())):
            e = guarded(ctx, "constructor", show(kind, 2, u, l, pool),
                        lambda: construct(kind, 2, u, l, pool))
            if e is None:
                continue
            results.append((kind, 2, u, l, e))
            batch.add(coq_case(kind, 2, u, l), e, (kind, 2, u, l))
            ctx.case(key=(kind, 2, u, l), kind=f"badbks:{kind}")
    mism, checked = batch.run()
    for d, e, got in mism[:5]:
        kind, b, u, l = d
        ctx.violation(f"C06:ctor-model:{show(kind, b, u, l, pool)}",
                      "constructor result differs from the Coq model "
                      "(mk_tensor)",
                      {"call": show(kind, b, u, l, pool), "kind": kind,
                       "bks": b, "upper": list(u), "lower": list(l),
                       "pool": [str(x) for x in pool.idx],
                       "implementation": e, "model": got,
                       "encoding": "[1,neg,kind,bks,len(upper),positions..] "
                                   "| [0]=zero | [2]=exception"},
                      True)

    diag, other, norb = check_property(ctx, results, pool)
    ctx.extra["constructions"] = len(results)
    ctx.extra["orbits"] = norb
    ok = ctx.obligation(
        f"orbit / zero / separation property on {len(results)} constructions "
        f"({norb} orbits)", not other, str(other[:3]))
    for o in other[:5]:
        what, kind, b, u, l, e = o[:6]
        ctx.violation(f"C06:{what}:{show(kind, b, u, l, pool)}",
                      f"property check failed: {what}",
                      {"call": show(kind, b, u, l, pool), "result": e,
                       "related": str(o[6:])}, True)
    # corpus probe of the defect repaired by 2521687: bra-ket antisymmetric,
    # bra and ket the same index set
    i, j = get_symbols("ij")
    probe = AntiSymmetricTensor("T", (i, j), (i, j), -1)
    ctx.obligation("bra-ket antisymmetric tensor with identical bra and ket "
                   "is zero", probe == 0 and not diag,
                   f"probe={probe}, {len(diag)} constructions of this shape "
                   "are non-zero")
    if probe != 0:
        ex = [show(*d[:4], pool) + " -> " + str(d[4]) for d in diag[:6]]
        ctx.violation(
            DIAG_KEY,
            "AntiSymmetricTensor('T',(i,j),(i,j),-1) is returned as "
            "+T^{ij}_{ij}; bra-ket antisymmetry forces T^{ij}_{ij} = "
            "-T^{ij}_{ij} = 0 (defect repaired by 2521687 has returned)",
            {"call": "AntiSymmetricTensor('T',(i,j),(i,j),-1)",
             "result": str(probe), "expected": "0",
             "instances_this_run": len(diag), "examples": ex,
             "theorem": "C06_mk_tensor_braket_diag_zero"}, True)
    elif diag:
        for d in diag[:3]:
            ctx.violation(f"C06:braket-antisym-diagonal:{show(*d[:4], pool)}",
                          "bra-ket antisymmetric tensor with identical bra "
                          "and ket is not zero",
                          {"call": show(*d[:4], pool), "result": d[4]}, True)
    return results


def run_same_name(ctx):
    """two different dummies with the same name: only the hash orders them"""
    raw = [Index("i", below_fermi=True), Index("i", below_fermi=True),
           Index("a", above_fermi=True), Index("a", above_fermi=True)]
    reg = list(get_symbols("ia"))
    allidx = raw + reg
    uids = {}
    for nm in ("i", "a"):
        grp = sorted([x for x in allidx if x.name == nm], key=hash)
        for k, x in enumerate(grp):
            uids[x] = k + 1
    pool = Pool(allidx, uids)
    batch = Batch(ctx, "dummies", "run", pool)
    n = len(pool)
    for kind in ("KAnti", "KSym"):
        for (nu, nl) in ((1, 1), (2, 2), (2, 0), (1, 2)):
            for u in itertools.product(range(n), repeat=nu):
                for l in itertools.product(range(n), repeat=nl):
                    if nu == 2 and nl == 2 and (u[0] + l[1]) % 2:
                        continue
                    for b in (0, 1, -1):
                        e = guarded(ctx, "constructor (same-named dummies)",
                                    show(kind, b, u, l, pool),
                                    lambda: construct(kind, b, u, l, pool))
                        if e is None:
                            continue
                        batch.add(coq_case(kind, b, u, l), e,
                                  (kind, b, u, l))
                        ctx.case(key=("dummy", kind, b, u, l),
                                 kind=f"same-name:{kind}")
    mism, _ = batch.run()
    for d, e, got in mism[:3]:
        ctx.violation(f"C06:ctor-model-dummies:{show(*d, pool)}",
                      "constructor result on same-named dummies differs from "
                      "the Coq model", {"call": show(*d, pool),
                                        "implementation": e, "model": got},
                      True)
    # observation (outside the property's quantifier, see design notes)
    x = AntiSymmetricTensor("d", (raw[0],), (raw[1],), 1)
    y = AntiSymmetricTensor("d", (raw[1],), (raw[0],), 1)
    if x != y:
        ctx.note("observation: d^{i#1}_{i#2} and d^{i#2}_{i#1} (two dummies "
                 "named i, bra_ket_sym=1) stay different objects: "
                 "_need_bra_ket_swap ignores the hash "
                 "(C06_braket_same_name_refuted)")


def delta_pool():
    names, spins = [], []
    for sp_names in (("i", "j3"), ("a", "b12"), ("p", "q2")):
        for s in ("", "a", "b"):
            for nm in sp_names:
                names.append(nm)
                spins.append(s)
    idx = list(get_symbols(names, spins))
    raw = [Index("i", below_fermi=True), Index("i", below_fermi=True)]
    allidx = idx + raw
    uids = {}
    grp = sorted([x for x in allidx if x.name == "i" and x.spin == ""
                  and x.space == "occ"], key=hash)
    for k, x in enumerate(grp):
        uids[x] = k + 1
    return Pool(allidx, uids)


def enc_delta(res, pool):
    if res == 1:
        return ("", [1])
    if res == 0:
        return ("", [0])
    if isinstance(res, KroneckerDelta):
        return ("", [2, pool.pos[res.args[0]], pool.pos[res.args[1]]])
    raise ValueError(res)


def run_deltas(ctx):
    pool = delta_pool()
    n = len(pool)
    batch = Batch(ctx, "delta", "run_delta", pool)
    survivors = []
    for a in range(n):
        for b in range(n):
            got = guarded(
                ctx, "KroneckerDelta", f"{pool.idx[a]!r},{pool.idx[b]!r}",
                lambda: (lambda r_: (r_, enc_delta(r_, pool)))(
                    KroneckerDelta(pool.idx[a], pool.idx[b])))
            if got is None:
                continue
            res, e = got
            batch.add(f"({a}, {b})", e, (a, b))
            ctx.case(key=("delta", a, b), nontrivial=(e[1] != [2, a, b]),
                     kind=f"delta:{['zero', 'one', 'kept'][e[1][0]]}")
            # direct check of the property
            x, y = pool.idx[a], pool.idx[b]
            clash = ({x.space, y.space} == {"occ", "virt"}
                     or {x.spin, y.spin} == {"a", "b"})
            want = 1 if a == b else (0 if clash else 2)
            if not ctx.obligation(f"delta({x},{y}) zero/one iff forced",
                                  e[1][0] == want):
                ctx.violation(f"C06:delta:{x!r},{y!r}",
                              "KroneckerDelta evaluates to 0/1 although not "
                              "forced, or fails to",
                              {"i": repr(x), "j": repr(y), "result": str(res)},
                              True)
            if e[1][0] == 2:
                survivors.append(res)
                back = KroneckerDelta(pool.idx[b], pool.idx[a])
                ctx.obligation("delta symmetric", back == res)
    mism, _ = batch.run()
    for d, e, got in mism[:3]:
        a, b = d
        ctx.violation(f"C06:delta-model:{pool.idx[a]!r},{pool.idx[b]!r}",
                      "KroneckerDelta.eval differs from the Coq model",
                      {"i": repr(pool.idx[a]), "j": repr(pool.idx[b]),
                       "implementation": e, "model": got}, True)
    # powers: d**e -> d**delta_pow(e)
    exps = [-3, -2, -1, 1, 2, 3, 5]
    vals, errs = ctx.coq_eval("dpow", [f"map delta_pow {zl(exps)}"],
                              header=HEADER, defs=pool.coq_defs())
    model = None
    if vals and vals[0]:
        model = [int(x) for x in
                 vals[0].strip("[]").replace(" ", "").split(";")]
    ctx.obligation("coq evaluation of delta_pow", model is not None
                   and len(model) == len(exps), str(vals)[:200])
    bad = []
    for d in survivors[::7]:
        for ex, m in zip(exps, model or []):
            got = d ** ex
            want = d if m == 1 else Pow(d, -1, evaluate=False)
            ctx.case(key=("dpow", str(d), ex), kind="delta:pow")
            if got != want:
                bad.append((str(d), ex, str(got)))
        if d ** Rational(1, 2) != d or d ** 0 != 1:
            bad.append((str(d), "1/2 or 0", ""))
    if not ctx.obligation(f"delta powers follow delta_pow", not bad,
                          str(bad[:3])):
        ctx.violation(f"C06:delta-pow:{bad[0][0]}**{bad[0][1]}",
                      "power of a KroneckerDelta differs from the model",
                      {"cases": bad[:5]}, True)
    return pool


def run_subs(ctx, pool, results):
    """substitution re-canonicalises: xreplace / subs(simultaneous) against
    subst_tensor, sequential subs against the fold of subst_tensor"""
    rng = ctx.rng
    n = len(pool)
    canon = [r for r in results if r[4][1][0] == 1 and len(r[2]) + len(r[3]) >= 2
             and r[1] in (0, 1, -1)]
    nsub = 1500 if ctx.tier == "quick" else 8000
    b_sim = Batch(ctx, "subs_sim", "run_sub", pool)
    b_seq = Batch(ctx, "subs_seq", "run_seq", pool)
    b_sim2 = Batch(ctx, "subs_sim2", "run_sub", pool)
    bad_sim = []
    nsmp = 0
    for _ in range(nsub):
        kind, b, u, l, (_, e) = rng.choice(canon)
        nu = e[4]
        cu, cl = e[5:5 + nu], e[5 + nu:]
        t = CLS[kind]("T", tuple(pool.idx[x] for x in cu),
                      tuple(pool.idx[x] for x in cl), b)
        if isinstance(t, Mul) or t == 0:
            ctx.obligation("re-construction of a canonical tensor is "
                           "positive", False, str(t))
            continue
        present = list(dict.fromkeys(cu + cl))
        k = rng.randint(1, min(3, len(present)))
        src = rng.sample(present, k)
        style = rng.random()
        if style < 0.4:      # permutation of present indices
            dst = src[:]
            rng.shuffle(dst)
        elif style < 0.7:    # onto present indices (creates repeats)
            dst = [rng.choice(present) for _ in src]
        else:                # arbitrary targets
            dst = [rng.randrange(n) for _ in src]
        pairs = list(zip(src, dst))
        case = f"({coq_case(kind, b, cu, cl)}, {coq_pairs(pairs)})"
        mp = {pool.idx[a]: pool.idx[c] for a, c in pairs}
        descr = f"{show(kind, b, cu, cl, pool)} with {mp}"

        def enc_call(f):
            try:
                return enc_obj(f(), pool)
            except (Inputerror, NotImplementedError):
                return ("", [2])
        r1 = guarded(ctx, "xreplace", descr,
                     lambda: enc_call(lambda: t.xreplace(mp)))
        r2 = guarded(ctx, "subs(simultaneous=True)", descr,
                     lambda: enc_call(lambda: t.subs(mp, simultaneous=True)))
        r3 = guarded(ctx, "subs(list)", descr,
                     lambda: enc_call(lambda: t.subs(
                         [(pool.idx[a], pool.idx[c]) for a, c in pairs])))
        dkey = (kind, b, tuple(cu), tuple(cl), tuple(pairs))
        if r1 is not None and r2 is not None and r1 != r2:
            bad_sim.append((show(kind, b, cu, cl, pool), str(mp), r1, r2))
        if r1 is not None:
            b_sim.add(case, r1, dkey)
        if r2 is not None:
            b_sim2.add(case, r2, dkey)
        if r3 is not None:
            b_seq.add(case, r3, dkey)
        if r1 is None or r3 is None:
            continue
        smp = None
        if nsmp < 3 and r1 != r3 and r1[1][0] == 1:
            nsmp += 1
            smp = {"tensor": show(kind, b, cu, cl, pool), "map": str(mp),
                   "xreplace": str(r1), "sequential subs": str(r3)}
        ctx.case(key=("subs", kind, b, tuple(cu), tuple(cl), tuple(pairs)),
                 nontrivial=True, kind=f"subs:{kind}", sample=smp)
    if not ctx.obligation("xreplace = subs(simultaneous=True)", not bad_sim,
                          str(bad_sim[:2])):
        ctx.violation(f"C06:subs-sim-vs-xreplace:{bad_sim[0][0]}",
                      "xreplace and simultaneous subs disagree",
                      {"cases": bad_sim[:3]}, True)
    for bt, what in ((b_sim, "simultaneous substitution (xreplace)"),
                     (b_sim2, "subs(simultaneous=True)"),
                     (b_seq, "sequential substitution (subs(list))")):
        mism, _ = bt.run()
        for d, e, got in mism[:3]:
            kind, b, cu, cl, pairs = d
            ctx.violation(
                f"C06:subs-model:{show(kind, b, cu, cl, pool)}:{pairs}",
                f"{what} differs from the Coq model (subst_tensor)",
                {"tensor": show(kind, b, cu, cl, pool),
                 "map": [(str(pool.idx[a]), str(pool.idx[c]))
                         for a, c in pairs],
                 "implementation": e, "model": got}, True)


def run_subs_group(ctx, pool):
    """simultaneous substitution with maps that exchange / cycle >= 2 indices
    inside one (anti)symmetric group, across the groups, or onto each other:
    tensor.subs(d, simultaneous=True), Expr(tensor).subs(d, simultaneous=True)
    and xreplace(d) against the model (rename, then canonicalise) and against
    the value semantics value(result)(r) = value(tensor)(r o d) on numeric
    models with exactly the declared symmetry"""
    rng = ctx.rng
    n = len(pool)
    nbase = 2 if ctx.tier == "quick" else 8
    shapes = [(2, 2), (3, 3), (2, 0), (3, 2), (0, 3), (2, 3)]
    bats = {w: Batch(ctx, f"gsub_{w}", "run_sub", pool)
            for w in ("xreplace", "subs", "Expr")}
    ictx = adcio.IdxCtx()
    pyi = [ictx.conv(x) for x in pool.idx]
    nval = 0
    nbad = {}
    for kind in KINDS:
        for b in (0, 1, -1):
            for (nu, nl) in shapes:
                if b != 0 and nu != nl:
                    continue
                for _ in range(nbase):
                    u = rng.sample(range(n), nu)
                    l = rng.sample([x for x in range(n) if x not in u], nl) \
                        if rng.random() < 0.7 else rng.sample(range(n), nl)
                    t = CLS[kind]("T", tuple(pool.idx[x] for x in u),
                                  tuple(pool.idx[x] for x in l), b)
                    if t == 0:
                        continue
                    if isinstance(t, Mul):
                        t = -t
                    cu = [pool.pos[x] for x in t.upper]
                    cl = [pool.pos[x] for x in t.lower]
                    maps = []
                    for grp in (cu, cl):
                        for perm in itertools.permutations(grp):
                            if list(perm) != list(grp):
                                maps.append([(a_, c_) for a_, c_ in
                                             zip(grp, perm) if a_ != c_])
                    if cu and cl:
                        pu = list(cu)
                        rng.shuffle(pu)
                        pl = list(cl)
                        rng.shuffle(pl)
                        maps.append([(a_, c_) for a_, c_ in
                                     zip(cu + cl, pu + pl) if a_ != c_])
                        a_, c_ = rng.choice(cu), rng.choice(cl)
                        if a_ != c_:
                            maps.append([(a_, c_), (c_, a_)])      # across
                        both = list(dict.fromkeys(cu + cl))
                        sh_ = both[:]
                        rng.shuffle(sh_)
                        maps.append([(x, y) for x, y in zip(both, sh_)
                                     if x != y])                   # any cycle
                    if len(cu) >= 2:                               # merge
                        maps.append([(cu[0], cu[1]), (cu[1], cu[0]),
                                     ] + ([(cl[0], cu[0])] if cl and
                                          cl[0] not in cu else []))
                    seen = set()
                    for pairs in maps:
                        # a map: one image per source index
                        pairs = list({x: y for x, y in pairs}.items())
                        if not pairs or tuple(pairs) in seen:
                            continue
                        seen.add(tuple(pairs))
                        mp = {pool.idx[x]: pool.idx[y] for x, y in pairs}
                        descr = f"{show(kind, b, cu, cl, pool)} with {mp}"
                        case = (f"({coq_case(kind, b, cu, cl)}, "
                                f"{coq_pairs(pairs)})")
                        dkey = (kind, b, tuple(cu), tuple(cl), tuple(pairs))
                        calls = {
                            "xreplace": lambda: t.xreplace(mp),
                            "subs": lambda: t.subs(mp, simultaneous=True),
                            "Expr": lambda: Expr(t).subs(
                                mp, simultaneous=True).sympy}
                        for w, f in calls.items():
                            def one():
                                try:
                                    res = f()
                                except (Inputerror, NotImplementedError):
                                    return None, ("", [2])
                                return res, enc_obj(res, pool)
                            got = guarded(ctx, f"{w}(simultaneous)", descr,
                                          one)
                            ctx.case(key=("gsub", w) + dkey, nontrivial=True,
                                     kind=f"gsub:{w}:{kind}")
                            if got is None:
                                continue
                            res, enc = got
                            bats[w].add(case, enc, dkey + (w,))
                            if res is None:
                                continue
                            # value semantics (independent of the Coq model)
                            nval += 1
                            bad = guarded(
                                ctx, f"value of {w}(simultaneous)", descr,
                                lambda: subs_value_diff(ctx, t, res, pairs,
                                                        pyi))
                            if not ctx.obligation(
                                    f"{w}(simultaneous) renames: {descr}",
                                    not bad, str(bad)):
                                nbad[w] = nbad.get(w, 0) + 1
                                if bad and nbad[w] <= 6:
                                    ctx.violation(
                                        f"C06:subs-value:{w}:{descr}"[:300],
                                        f"{w} with a simultaneous index map "
                                        "does not have the value of the "
                                        "renamed tensor",
                                        dict(bad, tensor=show(kind, b, cu, cl,
                                                              pool),
                                             map=str(mp), result=str(res)),
                                        True)
    for w, bt in bats.items():
        mism, _ = bt.run()
        for d, e, got in mism[:4]:
            kind, b, cu, cl, pairs, w_ = d
            ctx.violation(
                f"C06:subs-model:{w_}:{show(kind, b, cu, cl, pool)}:{pairs}",
                f"{w_} with a simultaneous map differs from the Coq model "
                "(subst_tensor: rename, then canonicalise)",
                {"tensor": show(kind, b, cu, cl, pool),
                 "map": [(str(pool.idx[x]), str(pool.idx[y]))
                         for x, y in pairs],
                 "implementation": e, "model": got}, True)
    ctx.extra["group_subs_value_checks"] = nval
    if nbad:
        ctx.note(f"group substitution: value check failed {nbad} times "
                 "(first 6 per call style reported as violations)")


def subs_value_diff(ctx, t, res, pairs, pyi):
    """None if value(res)(r) == value(t)(r o d) on random symmetric models,
    else a replay dict"""
    rng = ctx.rng
    terms_in = adcio.conv_expr(t)
    terms_out = adcio.conv_expr(res)
    d = {pyi[x]: pyi[y] for x, y in pairs}
    idxs = sorted({i_ for tm in terms_in for i_ in adcio.term_indices(tm)}
                  | set(d.values()))
    for trial in range(2):
        model = numeric.Model(rng.randrange(1 << 30), (2, 1), (1, 2))
        norb = len(model.orbs)
        for _ in range(3):
            env = {x: rng.randrange(norb) for x in idxs}
            env_in = {x: env[d.get(x, x)] for x in idxs}
            v_want = model.eval_expr(terms_in, env_in)
            v_got = model.eval_expr(terms_out, env)
            if v_want != v_got:
                return {"model_seed": model.seed,
                        "assignment": {repr(k): v for k, v in env.items()},
                        "value_of_renamed_tensor": v_want,
                        "value_of_result": v_got, "prime": numeric.P}
    return None


def run_delta_subs(ctx, dpool):
    rng = ctx.rng
    n = len(dpool)
    batch = Batch(ctx, "delta_subs", "run_dsub", dpool)
    for _ in range(300 if ctx.tier == "quick" else 2000):
        a, b = rng.randrange(n), rng.randrange(n)
        d = KroneckerDelta(dpool.idx[a], dpool.idx[b])
        if not isinstance(d, KroneckerDelta):
            continue
        a, b = dpool.pos[d.args[0]], dpool.pos[d.args[1]]
        src = rng.sample([a, b], rng.randint(1, 2))
        dst = [rng.choice([a, b, rng.randrange(n)]) for _ in src]
        pairs = list(zip(src, dst))
        mp = {dpool.idx[x]: dpool.idx[y] for x, y in pairs}
        e = guarded(ctx, "KroneckerDelta.xreplace", f"{d}: {mp}",
                    lambda: enc_delta(d.xreplace(mp), dpool))
        if e is None:
            continue
        batch.add(f"(({a}, {b}), {coq_pairs(pairs)})", e, (a, b, tuple(pairs)))
        ctx.case(key=("dsub", a, b, tuple(pairs)), kind="delta:subs")
    mism, _ = batch.run()
    for d, e, got in mism[:3]:
        ctx.violation(f"C06:delta-subs-model:{d}",
                      "substitution into a KroneckerDelta differs from the "
                      "Coq model", {"case": str(d), "implementation": e,
                                    "model": got}, True)


# ------------------------------------------------------------ assumptions ---
VOC = [("V", "KAnti", (0, 1)), ("f", "KAnti", (0, 1)), ("d", "KAnti", (0,)),
       ("A", "KAnti", (0, 0, -1)), ("B", "KSym", (0, 0, 1)),
       ("D", "KSym", (0, -1)), ("t1", "KAmp", (0,)), ("t1cc", "KAmp", (0,)),
       ("t2", "KAmp", (0,)), ("t2cc", "KAmp", (0,)), ("X", "KAmp", (0,)),
       ("n", "KNonSym", (0,))]
DECL = ["V", "f", "d", "A", "B", "D", "t1", "t2cc", "X", "Q"]


def is_t_amp(name):
    if not name.startswith("t"):
        return False
    ext = name[1:].replace("c", "")
    return ext == "" or ext.isdigit()


def real_name(name):
    return name[0] + name[1:].replace("c", "") if name else name


def rand_tensor(rng, pool):
    name, kind, bkss = rng.choice(VOC)
    n = len(pool)
    if kind == "KNonSym":
        k = rng.randint(1, 3)
        return NonSymmetricTensor(name, tuple(pool.idx[rng.randrange(n)]
                                              for _ in range(k)))
    b = rng.choice(bkss)
    r = rng.choice([1, 1, 2, 2, 3])
    nu, nl = (r, r) if (b != 0 or rng.random() < 0.8) else (r, max(r - 1, 0))
    if rng.random() < 0.12:      # bra = ket as index sets
        u = rng.sample(range(n), nu)
        l = u[:]
        rng.shuffle(l)
        l = l[:nl]
    else:
        u = rng.sample(range(n), nu)
        l = rng.sample(range(n), nl)
    return CLS[kind](name, tuple(pool.idx[x] for x in u),
                     tuple(pool.idx[x] for x in l), b)


def rand_expr(rng, pool):
    terms = []
    for _ in range(rng.randint(1, 3)):
        fs = []
        for _ in range(rng.randint(1, 3)):
            t = rand_tensor(rng, pool)
            if rng.random() < 0.1:
                t = t ** 2
            fs.append(t)
        if rng.random() < 0.15:
            fs.append(Symbol("c"))
        c = Rational(rng.choice([1, -1, 2, 3, -5]), rng.choice([1, 2, 3]))
        terms.append(c * Mul(*fs))
    return Add(*terms)


def norm_terms(terms):
    """pyterms -> canonical dict {sorted factor tuple: coefficient}"""
    acc = {}
    for c, facs in terms:
        key = tuple(sorted((repr(a), inv) for a, inv in facs))
        acc[key] = acc.get(key, 0) + Fraction(c)
    return {k: v for k, v in acc.items() if v != 0}


def py_atom_of_enc(name, lst, pool):
    k = KNAME[lst[2]]
    nu = lst[4]
    ictx = adcio.IdxCtx()
    up = tuple(ictx.conv(pool.idx[x]) for x in lst[5:5 + nu])
    lo = tuple(ictx.conv(pool.idx[x]) for x in lst[5 + nu:])
    return ("T", k, name, lst[3], up, lo)


def assumption_model(name, decl, real, syms, antis):
    """numeric.Model special: the tensor named `name` has the values of the
    tensor carrying the declared symmetry (the model satisfies the
    assumption)"""
    def f(model, kind, bks, up, lo):
        nm, kd, b = name, kind, bks
        if kind != "KNonSym":
            nm2 = real_name(nm) if (real and is_t_amp(nm)) else nm
            if nm in syms or nm2 in syms:
                b = 1 if bks != -1 else bks
            elif nm in antis or nm2 in antis:
                b = -1 if bks != 1 else bks
            if nm2 != nm:
                nm, kd = nm2, "KAmp"
        return numeric.Model.tv(model.base, kd, nm, b, up, lo)
    return f


def run_assumptions(ctx, pool):
    rng = ctx.rng
    ncase = 250 if ctx.tier == "quick" else 1500
    cases = []
    # the fixed probe of the second finding first
    i, a = get_symbols("ia")
    probe_e = Amplitude("t1cc", (a,), (i,))
    cases.append((probe_e, True, ["t1"], [], "probe-idem"))
    # powers of tensors whose declared bra-ket symmetry needs the swap
    # (the sign belongs inside the power)
    i_, j_, a_ = get_symbols("ija")
    b_ = get_symbols(["a"], ["a"])[0]          # a_alpha (in the pool)
    for cls_ in (AntiSymmetricTensor, SymmetricTensor, Amplitude):
        for tn, (up, lo) in enumerate((((a_,), (i_,)), ((a_, b_), (i_, j_)),
                                       ((b_, a_), (i_, j_)))):
            for ex_ in (2, 3):
                base_ = cls_("X", up, lo)
                for real_ in (False, True):
                    cases.append((base_ ** ex_, real_, [], ["X"],
                                  f"pow-anti-{cls_.__name__}-{tn}-{ex_}-{real_}"))
                cases.append((2 * base_ ** ex_ * cls_("B", up, lo), False,
                              ["B"], ["X"],
                              f"pow-mixed-{cls_.__name__}-{tn}-{ex_}"))
    for k in range(ncase):
        e = rand_expr(rng, pool)
        if e == 0:
            continue
        real = rng.random() < 0.4
        syms = rng.sample(DECL, rng.randint(0, 3))
        antis = [x for x in rng.sample(DECL, rng.randint(0, 2))
                 if x not in syms or rng.random() < 0.1]
        cases.append((e, real, syms, antis, f"gen{k}"))

    # run the implementation
    obs = []
    tens_cases, tens_index = [], {}
    for e, real, syms, antis, label in cases:
        def impl():
            try:
                E_ = Expr(e, real=real, sym_tensors=list(syms),
                          antisym_tensors=list(antis))
                return E_, E_.sympy, None, adcio.conv_expr(e)
            except (Inputerror, NotImplementedError) as ex:
                return None, None, type(ex).__name__, adcio.conv_expr(e)
        got = guarded(ctx, "Expr(.., assumptions)", f"{label}: {e}", impl)
        if got is None:
            continue
        E, out, exc, terms_in = got
        obs.append((e, real, syms, antis, label, E, out, exc, terms_in))
        for c, facs in terms_in:
            for atom, inv in facs:
                if atom[0] != "T" or atom[1] == "KNonSym":
                    continue
                key = (real, tuple(syms), tuple(antis), atom)
                if key not in tens_index:
                    tens_index[key] = len(tens_cases)
                    ictx = adcio.IdxCtx()
                    rev = {ictx.conv(x): n for n, x in enumerate(pool.idx)}
                    u = [rev[x] for x in atom[4]]
                    l = [rev[x] for x in atom[5]]
                    sy = "[" + "; ".join(f'"{s}"' for s in syms) + "]"
                    an = "[" + "; ".join(f'"{s}"' for s in antis) + "]"
                    bb = str(atom[3]) if atom[3] >= 0 else f"({atom[3]})"
                    tens_cases.append(
                        f"run_assume ({'true' if real else 'false'}, {sy}, "
                        f"{an}, ({KCODE[atom[1]]}, \"{atom[2]}\", {bb}, "
                        f"{zl(u)}, {zl(l)}))")
                    # first phase only (declared symmetry incl. f, V when
                    # real, before the cc-renaming)
                    sy1 = "[" + "; ".join(
                        f'"{s_}"' for s_ in
                        ((["f", "V"] if real else []) + list(syms))) + "]"
                    tens_cases.append(
                        f"run_assume (false, {sy1}, "
                        f"{an}, ({KCODE[atom[1]]}, \"{atom[2]}\", {bb}, "
                        f"{zl(u)}, {zl(l)}))")
    vals, errs = ctx.coq_eval("assume", tens_cases, header=HEADER,
                              defs=pool.coq_defs(), shard=150)
    ctx.obligation(f"coq evaluation of assume_obj on {len(tens_cases)} "
                   "tensors", not errs, "; ".join(errs)[:1000])
    model = [parse_enc(v) if v else None for v in vals]

    def one_case(e, real, syms, antis, label, E, out, exc, terms_in):
        syms_eff = set(syms) | ({"f", "V"} if real else set())
        ctx.case(key=("assume", str(e), real, tuple(syms), tuple(antis)),
                 nontrivial=True, kind=f"assume:real={real}",
                 sample={"expr": str(e)[:200], "real": real, "sym": syms,
                         "antisym": antis, "out": str(out)[:200]})
        # ---- model prediction, reassembled term by term ----
        # All objects of a phase are evaluated (an exception anywhere wins);
        # a term with a factor that vanishes in the first phase is gone
        # before the later phases (renaming, second symmetry pass) run.
        pred, err, incomplete = [], False, False

        def look(atom, phase1):
            k_ = tens_index[(real, tuple(syms), tuple(antis), atom)]
            return model[k_ + (1 if phase1 else 0)]
        tens_of = [[(atom, inv) for atom, inv in facs
                    if atom[0] == "T" and atom[1] != "KNonSym"]
                   for c, facs in terms_in]
        p1 = [[look(a_, True) for a_, _ in ts] for ts in tens_of]
        fl = [[look(a_, False) for a_, _ in ts] for ts in tens_of]
        if any(m is None for ms in p1 + fl for m in ms):
            incomplete = True
        elif any(m[1][0] == 2 for ms in p1 for m in ms):
            err = True
        else:
            alive = [n_ for n_, ms in enumerate(p1)
                     if not any(m[1][0] == 0 for m in ms)]
            if any(m[1][0] == 2 for n_ in alive for m in fl[n_]):
                err = True
            else:
                for n_ in alive:
                    c, facs = terms_in[n_]
                    coef, nf, zero = Fraction(c), [], False
                    for atom, inv in facs:
                        if atom[0] == "T" and atom[1] != "KNonSym":
                            name, lst = look(atom, False)
                            if lst[0] == 0:
                                zero = True
                                break
                            if lst[1]:
                                coef = -coef
                            nf.append((py_atom_of_enc(name, lst, pool), inv))
                        else:
                            nf.append((atom, inv))
                    if not zero:
                        pred.append((coef, nf))
        if incomplete:
            ctx.obligation(f"assume {label}: model evaluated", False)
            return  
        if err != (exc is not None):
            ctx.obligation(f"assume {label}: exception iff model error", False,
                           f"exc={exc}")
            ctx.violation(f"C06:assume-exception:{label}",
                          "Expr(..) raises / does not raise unlike the model",
                          {"expr": str(e), "real": real, "sym": syms,
                           "antisym": antis, "exception": exc}, True)
            return  
        if err:
            ctx.obligation(f"assume {label}: exception as in the model", True)
            return  
        terms_out = adcio.conv_expr(out)
        same = norm_terms(pred) == norm_terms(terms_out)
        if not ctx.obligation(f"assume {label}: Expr(..) = model "
                              "(only declared tensors re-canonicalised)",
                              same):
            ctx.violation(f"C06:assume-model:{label}:{e}",
                          "Expr(e, real, sym_tensors, antisym_tensors) "
                          "differs from the per-tensor model assume_obj",
                          {"expr": str(e), "real": real, "sym": syms,
                           "antisym": antis, "implementation": str(out),
                           "model_terms": str(norm_terms(pred))[:1500]}, True)
        # ---- untouched tensors (direct) ----
        def untouched(terms):
            out_ = []
            for c, facs in terms:
                for atom, inv in facs:
                    if atom[0] == "T" and atom[2] not in syms_eff and \
                            atom[2] not in antis and \
                            not (real and is_t_amp(atom[2])):
                        out_.append(repr(atom))
            return sorted(set(out_))
        tin, tout = untouched(terms_in), untouched(terms_out)
        ctx.obligation(f"assume {label}: undeclared tensors untouched",
                       set(tout) <= set(tin), str((tin, tout))[:300])
        def final_names(nm):
            return {nm, real_name(nm)} if (real and is_t_amp(nm)) else {nm}
        both = any(atom[0] == "T" and any(m in syms_eff and m in antis
                                          for m in final_names(atom[2]))
                   for c, facs in terms_in for atom, inv in facs)
        if both:
            return     # declared symmetric and antisymmetric: raises later
        # ---- idempotence ----
        second = None
        try:
            E2 = Expr(out, real=real, sym_tensors=list(syms),
                      antisym_tensors=list(antis))
            second = E2.sympy
            idem = (second == out)
            E3 = Expr(out, real=real, sym_tensors=list(syms),
                      antisym_tensors=list(antis))
            E3.set_sym_tensors(list(syms))
            E3.set_antisym_tensors(list(antis))
            if real:
                E3.make_real()
            idem = idem and E3.sympy == out
        except (Inputerror, NotImplementedError) as ex:
            idem, second = False, f"raises {type(ex).__name__}"
        if not ctx.obligation(f"assume {label}: applying the assumptions "
                              "twice = once", idem,
                              f"{out} -> {second}"):
            if label == "probe-idem":
                ctx.violation(
                    IDEM_KEY,
                    "Expr(t1cc^a_i, real=True, sym_tensors=['t1']) is not "
                    "stable under re-application of the same assumptions "
                    "(the declared symmetry must also reach the renamed "
                    "cc-amplitude; defect repaired by ca056bd has returned)",
                    {"expr": str(e), "first": str(out),
                     "second": str(second),
                     "theorem": "C06_assumptions_cc_example / "
                                "C06_assumptions_idempotent"}, True)
            else:
                ctx.violation(f"C06:assume-idempotent:{label}:{e}",
                              "applying the assumptions twice differs from "
                              "applying them once",
                              {"expr": str(e), "real": real, "sym": syms,
                               "antisym": antis, "first": str(out),
                               "second": str(second)}, True)
        # ---- alternative path: setters ----
        if not (syms_eff & set(antis)):
            try:
                E4 = Expr(e)
                E4.set_sym_tensors(list(syms))
                E4.set_antisym_tensors(list(antis))
                if real:
                    E4.make_real()
                ctx.obligation(f"assume {label}: setters = constructor",
                               E4.sympy == out, f"{E4.sympy} vs {out}")
            except (Inputerror, NotImplementedError):
                ctx.obligation(f"assume {label}: setters raise unlike the "
                               "constructor", False)
        # ---- value in models that satisfy the assumptions ----
        names = {atom[2] for c, facs in terms_in for atom, inv in facs
                 if atom[0] == "T"}
        names |= {real_name(nm) for nm in names if is_t_amp(nm)}
        special = {nm: assumption_model(nm, None, real, syms_eff, set(antis))
                   for nm in names}
        allidx = sorted({i_ for t in terms_in for i_ in adcio.term_indices(t)})
        bad = None
        for trial in range(3):
            model_n = numeric.Model(rng.randrange(1 << 30), (2, 1), (1, 2),
                                    special)
            model_n.base = numeric.Model(model_n.seed, (2, 1), (1, 2))
            for _ in range(4):
                env = {}
                for x in allidx:
                    r_ = model_n.rng(x.space, x.spin)
                    env[x] = rng.choice(r_)
                try:
                    v1 = model_n.eval_expr(terms_in, env)
                    v2 = model_n.eval_expr(terms_out, env)
                except ZeroDivisionError:
                    continue
                if v1 != v2:
                    bad = (model_n.seed, {repr(k_): v for k_, v in env.items()},
                           v1, v2)
                    break
            if bad:
                break
        if not ctx.obligation(f"assume {label}: value unchanged in models "
                              "satisfying the assumptions", bad is None,
                              str(bad)):
            ctx.violation(f"C06:assume-value:{label}:{e}",
                          "declaring assumptions changed the value in a model "
                          "that satisfies them",
                          {"expr": str(e), "real": real, "sym": syms,
                           "antisym": antis, "out": str(out),
                           "model_seed": bad[0], "assignment": bad[1],
                           "value_in": bad[2], "value_out": bad[3],
                           "prime": numeric.P}, True)

    for item in obs:
        guarded(ctx, "Expr(.., assumptions) check", f"{item[4]}: {item[0]}",
                lambda: one_case(*item))


def stream_guard(ctx, name, fn, default=None):
    """a crash outside the per-case guards: reported, the other streams run"""
    try:
        return fn()
    except Exception as ex:   # noqa
        import traceback
        tb = traceback.format_exc()
        ctx.note(tb)
        ctx.obligation(f"stream {name} completed", False, repr(ex))
        ctx.violation(f"C06:stream-exception:{name}",
                      f"the {name} stream of the harness raised {ex!r}",
                      {"traceback": tb[-2500:]}, False)
        return default


def run(ctx):
    pool = make_pool(ctx.tier)
    results = stream_guard(ctx, "constructors",
                           lambda: run_constructors(ctx, pool), [])
    stream_guard(ctx, "same-named dummies", lambda: run_same_name(ctx))
    dpool = stream_guard(ctx, "deltas", lambda: run_deltas(ctx))
    stream_guard(ctx, "substitution", lambda: run_subs(ctx, pool, results))
    stream_guard(ctx, "group substitution",
                 lambda: run_subs_group(ctx, pool))
    if dpool is not None:
        stream_guard(ctx, "delta substitution",
                     lambda: run_delta_subs(ctx, dpool))
    stream_guard(ctx, "assumptions", lambda: run_assumptions(ctx, pool))


def replay(ctx, rep):
    r = rep.get("replay", rep)
    print(json.dumps(r, indent=1, default=str))
    if "upper" in r and "pool" in r:
        pool = make_pool(rep.get("tier", "quick"))
        e = construct(r["kind"], r["bks"], r["upper"], r["lower"], pool)
        print("implementation now:", e, " model then:", r.get("model"))
        return 0 if list(e) == list(r.get("model", e)) else 1
    return 0
