"""C04 - intermediate states are orthonormal order by order."""
import itertools
import time
from sympy import Add, Mul, S
import adcgen
from adcgen.expr_container import Expr
from adcgen.indices import get_symbols
from adcgen.sympy_objects import KroneckerDelta
import adcio
import equivcheck as EQ
import detspace
import isr_explicit
from numeric import P

LEVEL = "proof"
RULE = ("for variants pp/ip/ea/dip/dea: lowest diagonal block orders 0..2 (3 "
        "thorough), couplings of neighbouring classes orders 0..2 (third "
        "class - triples - thorough only; dip/dea quick: couplings only), "
        "first satellite diagonal order 0 (1 thorough): the derived overlap of intermediate states is compared by "
        "the Coq validator - for arbitrary ground-state amplitude tensors - "
        "with the antisymmetrised product of Kronecker deltas (order 0, equal "
        "classes) resp. with 0; the precursor overlap is compared with its "
        "transpose; additionally the explicitly constructed intermediate "
        "states (determinant space, harness/isr_explicit.py) are checked to "
        "be orthonormal.  Non-trivial: order >= 1 or different classes; "
        "distinct by (variant, block, order, mp/re, singles)")
TRUSTED = ["certificate finder (untrusted)"]
ASSUMPTIONS = ["tensor models respect declared symmetries; amplitudes are "
               "arbitrary tensors with the symmetry of their class",
               "orders and classes as listed; the statement for all orders "
               "is not a Coq theorem (partial)"]

def _names(space):
    """(bra names, ket names) of an excitation class: disjoint letters"""
    no, nv = space.count("h"), space.count("p")
    return ("ijk"[:no] + "abc"[:nv], "lmn"[:no] + "def"[:nv])


NAMES = {sp: _names(sp) for sp in (
    "ph", "pphh", "ppphhh", "h", "hhp", "hhhpp", "p", "pph", "ppphh", "hh",
    "hhhp", "pp", "ppph")}
CLASSES = {"pp": ["ph", "pphh", "ppphhh"], "ip": ["h", "hhp", "hhhpp"],
           "ea": ["p", "pph", "ppphh"], "dip": ["hh", "hhhp"],
           "dea": ["pp", "ppph"]}


def block_plan(variant, quick, only_prec):
    """[(bra class, ket class, max order)] - lowest diagonal block through
    order 2 (3 thorough), couplings of neighbouring classes through order 2
    (dip/dea in the quick tier: couplings only; third class only in the
    thorough tier), first satellite diagonal order 0 (1 thorough)"""
    c = CLASSES[variant]
    if only_prec:
        return [(c[0], c[0], 3)]
    plan = []
    if not (quick and variant in ("dip", "dea")):
        # dip in the thorough tier through fourth order: the x*x term of the
        # Taylor series of S^(-1/2) first contributes there (classes with two
        # indices of one kind; defect fixed in /repo, see findings)
        plan.append((c[0], c[0], (4 if variant == "ip" else 2) if quick
                     else (4 if variant in ("dip", "ip") else 3)))
        plan.append((c[1], c[1], 0 if quick else 1))
    plan += [(c[0], c[1], 2), (c[1], c[0], 2)]
    if not quick and len(c) > 2:
        plan += [(c[1], c[2], 2), (c[2], c[1], 2), (c[0], c[2], 1)]
    return plan


def antisym_delta(bra, ket):
    """antisymmetrised product of deltas between two index tuples of one
    space"""
    from sympy.combinatorics.permutations import Permutation
    res = 0
    for perm in itertools.permutations(range(len(ket))):
        sign = Permutation(list(perm)).signature()
        res += sign * Mul(*[KroneckerDelta(b, ket[p])
                            for b, p in zip(bra, perm)])
    return res


def expected_overlap(bs, ks):
    if bs != ks:
        return S.Zero
    b = get_symbols(NAMES[bs][0])
    k = get_symbols(NAMES[ks][1])
    bo = [s for s in b if s.space == "occ"]
    bv = [s for s in b if s.space == "virt"]
    ko = [s for s in k if s.space == "occ"]
    kv = [s for s in k if s.space == "virt"]
    return (antisym_delta(bo, ko) * antisym_delta(bv, kv)).expand()


def run(ctx):
    quick = ctx.tier == "quick"
    rng = ctx.rng
    variants = ["pp", "ip", "ea", "dip", "dea"]
    configs = [("mp", False), ("mp", True)] + ([] if quick
                                               else [("re", False)])
    pairs = []
    # ---- two instances on different ground states in one process: results
    #      of one must not leak into the other (bra side requested on the
    #      plain ground state first, then the overlap with first-order
    #      singles) - runs first, before anything else fills the caches
    ib, ik = NAMES["ph"]
    tg = get_symbols(ib + ik)
    try:
        isr_p = adcgen.IntermediateStates(
            adcgen.GroundState(adcgen.Operators()), "pp")
        isr_p.intermediate_state(1, "ph", "bra", ib)
        isr_p.precursor(1, "ph", "bra", ib)
        isr_s = adcgen.IntermediateStates(
            adcgen.GroundState(adcgen.Operators(), first_order_singles=True),
            "pp")
        for order in (1, 2):
            ov = isr_s.overlap_isr(order, "ph,ph", f"{ib},{ik}")
            label = f"overlap_isr:two-instances:mp+s:pp:ph,ph:{order}"
            pairs.append(EQ.Pair(Expr(ov, target_idx=tg).expand(),
                                 Expr(S.Zero, target_idx=tg), tg, label,
                                 deltas=True))
            ctx.case(key=label, nontrivial=True, kind="two-instances")
        s1 = isr_s.overlap_precursor(2, "ph,ph", f"{ib},{ik}")
        s2 = isr_s.overlap_precursor(2, "ph,ph", f"{ik},{ib}")
        label = "precursor_symmetric:two-instances:mp+s:pp:ph,ph:2"
        pairs.append(EQ.Pair(Expr(s1, target_idx=tg, real=True).expand(),
                             Expr(s2, target_idx=tg, real=True).expand(), tg,
                             label, deltas=True))
        ctx.case(key=label, nontrivial=True, kind="two-instances")
    except Exception as ex:
        ctx.violation("C04:two-instances-exception",
                      f"derivation raised {ex!r}", {}, False)
    for part, singles in configs:
        # quick tier with first-order singles: only the symmetry of the
        # lowest-class pp precursor overlap through third order
        only_prec = quick and singles
        gs = adcgen.GroundState(adcgen.Operators(variant=part),
                                first_order_singles=singles)
        for variant in (["pp", "ip"] if only_prec else variants):
            isr = adcgen.IntermediateStates(gs, variant)
            if only_prec and variant == "ip":
                # with first-order singles the norm-factor / projector
                # splitting of the lower-class projection matters at third
                # order already: coupling block of ip
                for order in range(4):
                    for bs, ks in (("h", "hhp"), ("hhp", "h")):
                        ib, ik = NAMES[bs][0], NAMES[ks][1]
                        tg = get_symbols(ib + ik)
                        label = (f"overlap_isr:{part}+s:{variant}:{bs},{ks}:"
                                 f"{order}")
                        try:
                            ov = isr.overlap_isr(order, f"{bs},{ks}",
                                                 f"{ib},{ik}")
                        except Exception as ex:
                            ctx.violation(
                                f"C04:overlap-exception:{variant}:{bs},{ks}:"
                                f"{order}", f"overlap_isr raised {ex!r}", {},
                                False)
                            continue
                        pairs.append(EQ.Pair(
                            Expr(ov, target_idx=tg).expand(),
                            Expr(S.Zero, target_idx=tg), tg, label,
                            deltas=True))
                        ctx.case(key=label, nontrivial=True,
                                 kind=f"overlap_isr:{variant}")
                continue
            for bs, ks, max_order in block_plan(variant, quick, only_prec):
                for order in range(max_order + 1):
                    ib, ik = NAMES[bs][0], NAMES[ks][1]
                    tg = get_symbols(ib + ik)
                    t0 = time.time()
                    label = (f"overlap_isr:{part}{'+s' if singles else ''}:"
                             f"{variant}:{bs},{ks}:{order}")
                    if not only_prec:
                        try:
                            ov = isr.overlap_isr(order, f"{bs},{ks}",
                                                 f"{ib},{ik}")
                        except Exception as ex:
                            ctx.violation(
                                f"C04:overlap-exception:{variant}:{bs},{ks}:"
                                f"{order}", f"overlap_isr raised {ex!r}", {},
                                False)
                            continue
                        want = expected_overlap(bs, ks) if order == 0 \
                            else S.Zero
                        pairs.append(EQ.Pair(
                            Expr(ov, target_idx=tg).expand(),
                            Expr(want, target_idx=tg), tg, label,
                            deltas=True))
                        ctx.case(key=label, nontrivial=order >= 1 or bs != ks,
                                 sample={"relation": label, "terms": len(
                                     Add.make_args(Expr(ov).expand().sympy)),
                                     "derive_s": round(time.time() - t0, 1)},
                                 kind=f"overlap_isr:{variant}")
                    # precursor overlap symmetric
                    if bs == ks and order <= (2 if quick and not only_prec
                                              else 3) and order <= 3:
                        try:
                            s1 = isr.overlap_precursor(order, f"{bs},{ks}",
                                                       f"{ib},{ik}")
                            s2 = isr.overlap_precursor(order, f"{ks},{bs}",
                                                       f"{ik},{ib}")
                        except Exception as ex:
                            ctx.violation(
                                f"C04:precursor-exception:{variant}:{bs}:"
                                f"{order}",
                                f"overlap_precursor raised {ex!r}", {}, False)
                            continue
                        lab2 = label.replace("overlap_isr",
                                             "precursor_symmetric")
                        pairs.append(EQ.Pair(
                            Expr(s1, target_idx=tg, real=True).expand(),
                            Expr(s2, target_idx=tg, real=True).expand(), tg,
                            lab2, deltas=True))
                        ctx.case(key=lab2, nontrivial=order >= 1,
                                 kind=f"precursor:{variant}")
    EQ.run_pairs(ctx, "ov", pairs, shard=4)
    for p in pairs:
        if p.ok is None:
            ctx.obligation(f"{p.label}: inside the validator fragment", False,
                           p.err)
            continue
        if not ctx.obligation(p.label, p.ok, p.err):
            ctx.violation(
                f"C04:{p.label}",
                "overlap of intermediate states not proved to be the "
                "antisymmetrised delta / zero, or precursor overlap not "
                "proved symmetric",
                {"relation": p.label, "difference": p.diff, "error": p.err,
                 "case": EQ.describe(p, 1200)}, p.diff is not None)

    # explicit construction is orthonormal (sanity of the independent engine
    # used by C03/C05 and a second, semantic confirmation)
    order = 2 if quick else 3
    space = detspace.Space(3, 3, rng.randrange(1 << 30), canonical=True)
    E, psi = space.rspt("mp", order)
    detspace.certify(ctx, "C04", [("mp", space.seed)], order)
    for variant in variants:
        X = isr_explicit.ISR(space, psi, E, variant, order, n_classes=2)
        ok = True
        names = list(X.classes)
        for a, b in itertools.product(names, names):
            for I in range(len(X.classes[a])):
                for J in range(len(X.classes[b])):
                    ser = X.overlap(a, I, b, J)
                    want = [1 if (a == b and I == J) else 0] + [0] * order
                    if ser != want:
                        ok = False
        ctx.case(key=("explicit-orthonormal", variant, space.seed),
                 kind="explicit")
        if not ctx.obligation(f"explicit {variant} intermediate states "
                              "orthonormal through order "
                              f"{order}", ok):
            ctx.violation(f"C04:explicit-engine:{variant}",
                          "the explicit determinant-space construction is "
                          "not orthonormal (harness engine defect)",
                          {"variant": variant, "seed": space.seed}, False)
    isr_explicit.certify_ortho(ctx, "C04", space, psi, E, variants, order)


def replay(ctx, rep):
    print(rep)
    return 0
