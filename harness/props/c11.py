"""C11 - expanding, factoring and reducing intermediates are consistent."""
import sys
import time
from fractions import Fraction
from sympy import Add, Mul, S, Rational, Pow
import adcgen
from adcgen.expr_container import Expr
from adcgen.indices import Index, get_symbols
from adcgen.intermediates import Intermediates
from adcgen.sympy_objects import (NonSymmetricTensor, AntiSymmetricTensor,
                                  Amplitude)
import adcio
import certfind
import gen_terms as G
import equivcheck as EQ
import numeric

LEVEL = "proof"
RULE = ("real-basis expressions built from intermediate tensors (every "
        "registered intermediate, exponents 1-2, products of two "
        "intermediates), integrals, denominators and free tensors (X, Y, d);"
        " operations: expand_intermediates (fully / once) against the "
        "definition inserted by the harness, factor_intermediates (single "
        "names, types, subsets, orders, max_order) followed by expansion, "
        "reduce_expr; each compared with the input's expansion by the Coq "
        "fraction validator.  Non-trivial: an intermediate is present / was "
        "factored; distinct by (operation, settings, input)")
TRUSTED = ["the expected expansion is assembled by the harness as the sympy "
           "product of the remaining factors with expand_itmd(indices) of "
           "each occurrence (fresh contracted indices per occurrence); C12 "
           "ties expand_itmd to the named quantities",
           "certificate finder (untrusted)"]
ASSUMPTIONS = [
    "every intermediate tensor takes the value of its registered definition "
    "(defs_hold): the comparison is made after expansion, where this "
    "hypothesis is what identifies the tensor with the inserted definition",
    "real orbitals, field of characteristic 0, non-vanishing denominators",
    "factored RE residuals replaced by 0 are only valid for converged RE "
    "amplitudes: 're_residual' factoring is compared with the residual "
    "re-inserted (the library returns a zero placeholder)",
]

HEADER = adcio.COQ_HEADER3 + \
    "From ADC Require Import Core.Unfold Models.Itmd.\n"
SPECIAL = {"e": numeric.orb_energy_special}


def real(e):
    return Expr(getattr(e, "sympy", e), real=True).expand()


def wellformed(E, tg):
    """every index occurs at most twice in a term (exponents counted), a
    target index exactly once"""
    for t in E.terms:
        cnt = {}
        for o in t.objects:
            for i in o.idx:
                cnt[i] = cnt.get(i, 0) + int(o.exponent)
        if any(n > 2 for n in cnt.values()) or \
                any(cnt.get(x, 0) != 1 for x in tg):
            return False
    return True


def itmd_tensor(cls, rng, pools):
    """tensor of an intermediate with indices drawn from the pools"""
    default = get_symbols("".join(cls.default_idx))
    used, idx = [], []
    for s in default:
        pool = pools["o" if s.space == "occ" else "v"]
        cand = [x for x in pool if x not in used]
        x = rng.choice(cand)
        used.append(x)
        idx.append(x)
    return cls.tensor(indices=idx, return_sympy=True), idx


def expected_expansion(term, itmds, fully):
    """own expansion of one product: replace every intermediate tensor
    (with multiplicity) by a fresh copy of its definition"""
    from adcgen.expr_container import Expr as E_
    res = 1
    found = False
    for f in Mul.make_args(term):
        base, ex = (f.args if isinstance(f, Pow) else (f, 1))
        name = None
        if isinstance(base, (AntiSymmetricTensor, NonSymmetricTensor)):
            obj = E_(base, real=True).terms[0].objects[0]
            name = obj.longname(True)
        if name in itmds and ex.__class__.__name__ != "NegativeOne" \
                and int(ex) > 0:
            found = True
            obj = E_(base, real=True).terms[0].objects[0]
            for _ in range(int(ex)):
                res = res * itmds[name].expand_itmd(
                    indices=obj.idx, return_sympy=True, fully_expand=fully)
        else:
            res = res * f
    return res, found


def itmd_name_of(atom):
    """longname (default names) of a tensor atom, via the library's Obj"""
    from adcgen.expr_container import Expr as E_
    if atom[0] != "T":
        return None
    _, kind, name, bks, up, lo = atom
    import re
    if kind == "KAmp" and re.fullmatch(r"t\d+(cc)?", name):
        return f"t{len(up)}_{name[1:].replace('cc', '')}"
    if name.startswith("p") and re.fullmatch(r"p\d+", name):
        sp = "".join(i.space[0] for i in list(up) + list(lo))
        return f"p0_{name[1:]}_{sp}"
    if name.startswith("t2eri"):
        return f"t2eri_{name[5:]}"
    if name == "t2sq":
        return "t2sq"
    return None


def sym_indices(atom):
    """sympy indices of the tensor in Obj.idx order"""
    _, kind, name, bks, up, lo = atom
    idx = (list(lo) + list(up)) if kind == "KAmp" else (list(up) + list(lo))
    return get_symbols([i.name for i in idx])


def coq_unfolding(E, itmds, fully, ictx):
    """steps for ADC.Models.Itmd.unfold_expr mirroring it on pyterms; returns
    (coq text of the steps, resulting pyterms)"""
    cur = adcio.conv_expr(Expr(E.sympy, real=True).expand().make_real(), ictx)
    flags = [[itmd_name_of(a) if not inv else None for a, inv in t[1]]
             for t in cur]
    steps = []
    i = 0
    while i < len(cur):
        pos = next((k for k, nm in enumerate(flags[i])
                    if nm is not None and nm in itmds), None)
        if pos is None:
            i += 1
            continue
        c, facs = cur[i]
        atom = facs[pos][0]
        body_e = itmds[flags[i][pos]].expand_itmd(
            indices=sym_indices(atom), fully_expand=fully)
        body = adcio.conv_expr(Expr(body_e.sympy, real=True).expand()
                               .make_real(), ictx)
        rest = facs[:pos] + facs[pos + 1:]
        rflags = flags[i][:pos] + flags[i][pos + 1:]
        new = [(c * cb, list(fb) + rest) for cb, fb in body]
        newflags = [[None] * len(fb) + rflags for cb, fb in body]
        cur[i:i + 1] = new
        flags[i:i + 1] = newflags
        steps.append((i, pos, body))
    txt = adcio.coq_list(f"({i}%nat, {p_}%nat, {adcio.coq_expr(b)})"
                         for i, p_, b in steps)
    return txt, cur, len(steps)


def run(ctx):
    rng = ctx.rng
    quick = ctx.tier == "quick"
    itmds = Intermediates().available
    names_low = [n for n, c in itmds.items() if c.order <= 2
                 and n not in ("t4_2",)]
    pairs = []

    def add(label, e1, e2, tg, nontrivial=True, sample=None):
        a, b = real(e1).make_real(), real(e2).make_real()
        if max(len(a), len(b)) > (250 if quick else 1200):
            ctx.dist["skipped-large"] = ctx.dist.get("skipped-large", 0) + 1
            return
        p = EQ.Pair(a, b, tg, label, special=SPECIAL, frac="e")
        pairs.append(p)
        ctx.case(key=(label, str(getattr(e1, "sympy", e1))[:400]),
                 nontrivial=nontrivial, sample=sample,
                 kind=label.split(":")[0])

    # ---- (a) expand_intermediates ---------------------------------------
    n_exp = 100 if quick else 300
    # systematic stream: every intermediate once (and, order <= 2, fully)
    # expanded inside a product that carries EVERY other letter of the index
    # alphabets as target index - a name leaking out of a definition is
    # captured by one of them
    systematic = []
    for nm_, cls_ in itmds.items():
        if nm_ == "t4_2":
            continue
        occ, virt = G.pool("o", 7), G.pool("v", 8)
        dflt = get_symbols("".join(cls_.default_idx))
        if any(s_.space not in ("occ", "virt") for s_ in dflt):
            continue
        io, iv = iter(occ), iter(virt)
        idx_ = [next(io) if s_.space == "occ" else next(iv) for s_ in dflt]
        t_ = cls_.tensor(indices=idx_, return_sympy=True)
        ro = tuple(x for x in occ if x not in idx_)
        rv = tuple(x for x in virt if x not in idx_)
        e_ = t_ * NonSymmetricTensor("wo", ro) * NonSymmetricTensor("wv", rv)
        tg_ = list(idx_) + list(ro) + list(rv)
        systematic.append((e_, tg_, nm_, False))
        if cls_.order <= 2 and cls_.itmd_type != "re_residual":
            systematic.append((e_, tg_, nm_, True))
        if nm_ in ("t1_2", "p0_2_oo", "p0_2_vv", "t2eri_3", "t2sq"):
            # powers: every factor of the power needs its own contracted
            # indices
            e2_ = t_ ** 2 * NonSymmetricTensor("wo", ro) * \
                NonSymmetricTensor("wv", rv)
            tg2_ = list(ro) + list(rv)    # the tensor's indices occur twice
            systematic.append((e2_, tg2_, nm_, False))
            systematic.append((e2_, tg2_, nm_, True))
    for k in range(n_exp + len(systematic)):
        occ, virt = G.pool("o", 8), G.pool("v", 8)
        ntg = rng.choice([(0, 0), (1, 1), (2, 2)])
        tg = occ[:ntg[0]] + virt[:ntg[1]]
        pools = {"o": occ[:ntg[0] + 4], "v": virt[:ntg[1] + 4]}
        name = rng.choice(names_low if rng.random() < 0.6
                          else [n for n in itmds if n != "t4_2"])
        t, _ = itmd_tensor(itmds[name], rng, pools)
        term = t ** (2 if rng.random() < 0.15 else 1)
        if rng.random() < 0.3:
            name2 = rng.choice(names_low)
            t2_, _ = itmd_tensor(itmds[name2], rng, pools)
            term = term * t2_
        rest = G.random_term(rng, rng.randint(0, 2), pools,
                             names=["V", "f", "X", "Y", "d"])
        term = G.random_coef(rng) * term * rest
        if term == 0:
            continue
        missing = [x for x in tg if x not in term.atoms(Index)]
        if missing:
            term = term * NonSymmetricTensor("w", tuple(missing))
        extra = G.random_coef(rng) * G.random_term(
            rng, 2, pools, names=["V", "X", "d"])
        miss2 = [x for x in tg if x not in extra.atoms(Index)]
        if miss2:
            extra = extra * NonSymmetricTensor("w", tuple(miss2))
        e = term + (extra if rng.random() < 0.4 else 0)
        fully = rng.random() < 0.6
        if quick and itmds[name].order > 2:
            fully = False      # third order: once expanded only (size)
        if k >= n_exp:
            e, tg, name, fully = systematic[k - n_exp]
        E = Expr(e, real=True, target_idx=tg)
        if not wellformed(E, tg):
            continue
        try:
            got = E.copy().expand_intermediates(fully_expand=fully)
        except Exception as ex:
            ctx.violation(f"C11:expand-exception:{str(e)[:120]}",
                          f"expand_intermediates raised {ex!r}",
                          {"expr": str(e), "fully": fully}, False)
            continue
        ictx = adcio.IdxCtx()
        try:
            steps_txt, unfolded, nsteps = coq_unfolding(E, itmds, fully, ictx)
            p_in = adcio.conv_expr(Expr(E.sympy, real=True).expand()
                                   .make_real(), ictx)
            p_lib = adcio.conv_expr(Expr(got.sympy, real=True).expand()
                                    .make_real(), ictx)
        except adcio.Unsupported as ex:
            ctx.note(f"expand case outside the fragment: {ex}")
            continue
        n_tens = max((sum(1 for a, inv in fs if a[0] == "T"
                          and a[2] not in ("e", "w", "wo", "wv"))
                      for c, fs in p_lib), default=0)
        if n_tens > (5 if quick else 6):
            # products of several expanded intermediates: the certificate
            # search needs large automorphism averages; left to smaller
            # instances (counted)
            ctx.dist["expand:skipped-many-tensors"] = \
                ctx.dist.get("expand:skipped-many-tensors", 0) + 1
            continue
        if len(p_lib) > (250 if quick else 1200):
            # keep the kernel evaluation small: huge expansions (powers of
            # long intermediates) are left to smaller instances
            ctx.dist["expand:skipped-large"] = \
                ctx.dist.get("expand:skipped-large", 0) + 1
            continue
        tgc = [ictx.conv(x) for x in tg]
        pr = EQ.Pair(None, None, [], f"expand:{'full' if fully else 'once'}:"
                     f"{name}", special=SPECIAL, frac="e")
        pr.p1, pr.p2, pr.tg = unfolded, p_lib, tgc
        tgl = adcio.coq_list(x.coq() for x in tgc)
        pr.coq1 = (f"(match unfold_expr {tgl} {steps_txt} "
                   f"{adcio.coq_expr(p_in)} with Some (e', _) => e' "
                   f"| None => [Term (1#1)%Q [(ASymb \"unfold_failed\", "
                   f"false)]] end)")
        pr.e1, pr.e2 = E, got
        pairs.append(pr)
        ctx.case(key=(pr.label, str(e)[:400]), nontrivial=nsteps > 0,
                 sample={"expr": str(e)[:200], "fully": fully,
                         "unfold_steps": nsteps}, kind="expand")

    # ---- (b) factor_intermediates, (c) reduce_expr --------------------------
    fact = sys.modules["adcgen.factor_intermediates"].factor_intermediates
    simplify = sys.modules["adcgen.simplify"].simplify
    reduce_expr = sys.modules["adcgen.reduce_expr"].reduce_expr
    n_fac = 10 if quick else 25
    fnames = ["t2_1", "t1_2", "t2_2", "p0_2_oo", "p0_2_vv", "t2eri_3",
              "t2eri_4", "t2eri_5", "t2sq"]
    if not quick:
        fnames += ["t3_2", "t2eri_1", "t2eri_2", "t2eri_A", "t2eri_B"]
    for k in range(n_fac):
        occ, virt = G.pool("o", 8), G.pool("v", 8)
        pools = {"o": occ[:5], "v": virt[:5]}
        name = rng.choice(fnames)
        t, idx = itmd_tensor(itmds[name], rng, pools)
        # targets: a random subset of the intermediate's indices stays open
        rest = G.random_term(rng, 1, pools, names=["X", "Y", "d"])
        mode = rng.choice(["complete", "complete", "scaled_term", "dropped",
                           "merged_scaled", "sign_flipped"])
        if k == 0:
            mode, name = "merged_scaled", "t2_2"
            t, idx = itmd_tensor(itmds[name], rng, pools)
        if k == 1:
            # a long intermediate with one term of opposite sign and equal
            # magnitude must not be taken for a complete variant
            mode, name = "sign_flipped", rng.choice(["t2_2", "t1_2"])
            t, idx = itmd_tensor(itmds[name], rng, pools)
        if mode == "merged_scaled":
            # remainder antisymmetric in two indices of the intermediate:
            # the expansion merges symmetry partners of the definition, a
            # term with deviating prefactor then covers several of its terms
            io = [x for x in idx if x.space == "occ"]
            iv = [x for x in idx if x.space == "virt"]
            fo = [x for x in occ[5:8]]
            fv = [x for x in virt[5:8]]
            if len(io) >= 2 and (len(iv) < 2 or rng.random() < 0.5):
                rest = AntiSymmetricTensor("V", (fv[0], fv[1]),
                                           (io[0], io[1]))
            elif len(iv) >= 2:
                rest = AntiSymmetricTensor("V", (iv[0], iv[1]),
                                           (fo[0], fo[1]))
            else:
                mode = "scaled_term"
        base = G.random_coef(rng) * t * rest
        tg = sorted([s for s in base.atoms(Index)
                     if list(Mul.make_args(base)).count(s) == 0
                     and _count(base, s) == 1], key=lambda s: s.name)
        E0 = Expr(base, real=True, target_idx=tg)
        inp = E0.copy().expand_intermediates().expand()
        # drop / perturb a term sometimes: "mixed prefactor" and
        # "not factorable" branches
        if mode == "merged_scaled":
            # merge the symmetry partners (fraction-aware simplification)
            try:
                with EQ.time_limit(120 if quick else 150):
                    inp = reduce_expr(E0.copy())
            except EQ.TimeLimit:
                ctx.dist["reduce:time-limit"] = \
                    ctx.dist.get("reduce:time-limit", 0) + 1
                continue
        tl = list(Add.make_args(inp.sympy))
        if mode == "merged_scaled" and len(tl) > 1:
            # scale a term with the largest prefactor (a merged one)
            big = max(abs(Expr(x).terms[0].prefactor) for x in tl)
            cand = [j for j, x in enumerate(tl)
                    if abs(Expr(x).terms[0].prefactor) == big]
            j = rng.choice(cand)
            tl[j] = tl[j] * Rational(3, 2)
        elif mode == "sign_flipped" and len(tl) > 1:
            j = rng.randrange(len(tl))
            tl[j] = -tl[j]
        elif mode == "scaled_term" and len(tl) > 1:
            j = rng.randrange(len(tl))
            tl[j] = tl[j] * rng.choice([2, Rational(1, 2), -1])
        elif mode == "dropped" and len(tl) > 1:
            tl.pop(rng.randrange(len(tl)))
        inp = Expr(Add(*tl), real=True, target_idx=tg)
        sel = rng.choice([name, [name], ["t2_1", name],
                          itmds[name].itmd_type, None])
        if quick and sel is None:
            sel = [name]
        if k in (0, 1):
            sel = [name]     # the fixed cases: cheap and load independent
        max_order = rng.choice([None, None, 2, 3])
        t0 = time.time()
        try:
            with EQ.time_limit(120 if quick else 150):
                got = fact(inp.copy(), types_or_names=sel,
                           max_order=max_order)
        except EQ.TimeLimit:
            # run time is not part of the property: counted, not a violation
            ctx.dist["factor:time-limit"] = \
                ctx.dist.get("factor:time-limit", 0) + 1
            continue
        except RuntimeError as ex:
            if "Invalid contracted itmd indices" in str(ex):
                # explicit refusal of the library (its own consistency
                # check), no result is returned: counted
                ctx.dist["factor:refused-contracted-indices"] = \
                    ctx.dist.get("factor:refused-contracted-indices", 0) + 1
                continue
            ctx.violation(f"C11:factor-exception:{name}:{mode}",
                          f"factor_intermediates raised {ex!r}",
                          {"expr": str(inp.sympy)[:500], "select": repr(sel),
                           "max_order": max_order}, False)
            continue
        except Exception as ex:
            ctx.violation(f"C11:factor-exception:{name}:{mode}",
                          f"factor_intermediates raised {ex!r}",
                          {"expr": str(inp.sympy)[:500], "select": repr(sel),
                           "max_order": max_order}, False)
            continue
        ctx.note(f"factor {name} {mode} {sel!r}: {time.time() - t0:.1f}s, "
                 f"{len(inp)} -> {len(got)} terms")
        try:
            back = got.copy().expand_intermediates()
        except Exception as ex:
            ctx.violation(f"C11:expand-after-factor-exception:{name}",
                          f"expand_intermediates raised {ex!r}",
                          {"expr": str(got.sympy)[:500]}, False)
            continue
        add(f"factor:{name}:{mode}", back, inp, tg,
            nontrivial=str(got.sympy) != str(inp.sympy),
            sample={"input": str(inp.sympy)[:200],
                    "factored": str(got.sympy)[:200], "select": repr(sel),
                    "max_order": max_order})
        if k < (4 if quick else 16):
            # reduce_expr on a term with an explicit orbital-energy fraction
            # whose numerator is a weighted sum of denominator brackets (one
            # of them the denominator of the first-order doubles)
            try:
                from adcgen.sympy_objects import NonSymmetricTensor as NST
                i_, j_, k_ = occ[5], occ[6], occ[7]
                a_, b_, c_ = virt[5], virt[6], virt[7]

                def e__(x):
                    return NST("e", (x,))
                B1 = e__(i_) + e__(j_) - e__(a_) - e__(b_)
                B2 = e__(i_) + e__(k_) - e__(a_) - e__(c_)
                w1, w2 = rng.choice([(2, 1), (3, 1), (1, 2), (3, 2)])
                t21 = itmds["t2_1"].tensor(indices=[i_, j_, a_, b_],
                                           return_sympy=True)
                fr = (G.random_coef(rng) * t21 * NST("W", (k_, c_))
                      * NST("w", (j_, b_)) * (w1 * B1 + w2 * B2) / B2)
                tgf = []
                Ef = Expr(fr, real=True, target_idx=tgf)
                redf = reduce_expr(Ef.copy())
                add("reduce:frac:t2_1", redf,
                    Ef.copy().expand_intermediates(), tgf,
                    sample={"expr": str(Ef.sympy)[:200]})
            except Exception as ex:
                ctx.violation("C11:reduce-exception:frac:t2_1",
                              f"reduce_expr raised {ex!r}",
                              {"expr": "t2_1 * W * w * (w1 B1 + w2 B2)/B2"},
                              False)
            if k == 0:
                try:
                    i_, j_ = occ[5], occ[6]
                    a_, b_ = virt[5], virt[6]
                    t21 = itmds["t2_1"].tensor(indices=[i_, j_, a_, b_],
                                               return_sympy=True)
                    for pw_ in (2, 3):
                        Ep = Expr(G.random_coef(rng) * t21 ** pw_
                                  * NonSymmetricTensor("w", (i_, j_, a_, b_)),
                                  real=True, target_idx=[])
                        add(f"reduce:pow{pw_}:t2_1", reduce_expr(Ep.copy()),
                            Ep.copy().expand_intermediates(), [],
                            sample={"expr": str(Ep.sympy)[:200]})
                except Exception as ex:
                    ctx.violation("C11:reduce-exception:pow:t2_1",
                                  f"reduce_expr raised {ex!r}", {}, False)
            try:
                with EQ.time_limit(120 if quick else 150):
                    red = reduce_expr(E0.copy())
                add(f"reduce:{name}", red, E0.copy().expand_intermediates(),
                    tg, sample={"expr": str(E0.sympy)[:200]})
            except EQ.TimeLimit:
                ctx.dist["reduce:time-limit"] = \
                    ctx.dist.get("reduce:time-limit", 0) + 1
            except Exception as ex:
                ctx.violation(f"C11:reduce-exception:{name}",
                              f"reduce_expr raised {ex!r}",
                              {"expr": str(E0.sympy)[:300]}, False)

    # ---- regression probe (no RNG): 2 * t2eri_A, expanded, is factored
    # again.  The definition carried the float 0.5, the expansion of
    # 2 * t2eri_A then the numerator 1.0 which factor_intermediates refuses
    # (repaired in /repo, findings/C11_t2eri_A_float_prefactor.md)
    try:
        t_ = itmds["t2eri_A"].tensor(indices="ijka", return_sympy=True)
        E_ = Expr(2 * t_, real=True, target_idx="ijka")
        inp_ = E_.copy().expand_intermediates().expand()
        ctx.case(key=("probe", "t2eri_A", 2), nontrivial=True,
                 kind="factor:probe",
                 sample={"expr": "2*t2eri_A^{ij}_{ka}", "terms": len(inp_)})
        try:
            with EQ.time_limit(120):
                got_ = fact(inp_.copy(), types_or_names=["t2_1", "t2eri_A"])
            ok_, err_ = True, None
        except EQ.TimeLimit:
            ok_, err_ = None, "time limit"
        except Exception as ex:
            ok_, err_ = False, repr(ex)
        if ok_ is not None:
            if not ctx.obligation("factor(expand(2*t2eri_A)) returns", ok_,
                                  err_):
                ctx.violation("C11:factor-exception:t2eri_A:probe",
                              f"factor_intermediates raised {err_} on the "
                              "expansion of 2*t2eri_A^{ij}_{ka}",
                              {"expr": str(inp_.sympy)[:600],
                               "select": "['t2_1', 't2eri_A']"}, True)
            else:
                add("factor:t2eri_A:probe", inp_,
                    got_.copy().expand_intermediates(),
                    list(get_symbols("ijka")),
                    sample={"input": "expansion of 2*t2eri_A^{ij}_{ka}",
                            "factored": str(got_.sympy)[:200]})
    except adcio.Unsupported as ex:
        ctx.note(f"t2eri_A probe outside the fragment: {ex}")

    EQ.run_pairs(ctx, "itmd", pairs, shard=6, header=HEADER)
    for p in pairs:
        if p.ok is None:
            ctx.obligation(f"{p.label}: inside the validator fragment", False,
                           p.err)
            continue
        if not p.ok and getattr(p, "timed_out", False) and p.diff is None:
            # kernel evaluation hit its time limit and the numeric search
            # found no difference: undecided, counted, not an alarm
            ctx.dist["validator-time-limit"] = \
                ctx.dist.get("validator-time-limit", 0) + 1
            ctx.note(f"{p.label}: validator time limit, undecided")
            continue
        e2s = str(getattr(p.e2, "sympy", p.e2))
        if not ctx.obligation(f"{p.label}: {e2s[:60]}", p.ok, p.err):
            ctx.violation(
                (f"C11:{p.label}" if p.label.startswith("factor:")
                 else f"C11:{p.label}:{e2s[:140]}"),
                f"{p.label.split(':')[0]}: result not proved equal in value "
                "to the expected expansion",
                {"relation": p.label, "case": EQ.describe(p, 1500),
                 "difference": p.diff, "error": p.err}, p.diff is not None)


def _count(expr, s):
    n = 0
    for f in Mul.make_args(expr):
        base, ex = (f.args if isinstance(f, Pow) else (f, 1))
        if hasattr(base, "idx"):
            n += list(base.idx).count(s) * abs(int(ex))
    return n


def replay(ctx, rep):
    print(rep)
    return 0
