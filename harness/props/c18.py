"""C18 - printing an expression and importing the text restores the expression."""
import sys
from fractions import Fraction

from sympy import Add, Mul, Pow, S, Rational, Symbol, sqrt, latex
from sympy.physics.secondquant import F, Fd, NO

from adcgen.expr_container import Expr
from adcgen.indices import get_symbols
from adcgen.sympy_objects import (AntiSymmetricTensor, SymmetricTensor,
                                  Amplitude, NonSymmetricTensor,
                                  KroneckerDelta)
from adcgen.tensor_names import tensor_names, TensorNames

import c18_util as U
import equivcheck as EQ

LEVEL = "proof"
RULE = ("strings: corpus/C18.json (inputs of repaired defects) first, then str(Expr) of real derivations (ground-state energies / "
        "amplitudes / wave function, ph,ph secular matrix and precursor "
        "states, after expand(), with use_symbolic_denominators, after "
        "transform_to_spatial_orbitals) and of generated expressions (every "
        "tensor class, spin labels, numbered indices, orbital-energy "
        "fractions, negative / rational / sqrt prefactors, powers, symbols, "
        "tensors with an empty upper or lower index group, "
        "deltas, F/Fd, NO groups) plus a malformed stream (character-level "
        "mutations of valid strings); a case is non-trivial if the string "
        "has at least two objects; distinct = distinct string")
TRUSTED = ["harness/c18_util.py: layout() re-computes the structure sympy's "
           "LaTeX printer gives an expression (its ordering of terms/factors "
           "is input) and build() replays the sympy constructor calls of the "
           "importer for a tree returned by the Gallina model; an error in "
           "either shows up as a correspondence failure",
           "sympy's LaTeX printer outside adcgen's _latex methods is observed: "
           "print_model is compared with str(expr) on every in-fragment case"]
ASSUMPTIONS = ["theorems are about the modelled fragment (Latex.wf_expr): "
               "names over letters/digits, tensor names different from 'a', "
               "symbols over letters, fractions not nested, a sum as "
               "numerator/denominator only inside \\frac",
               "input strings are printable ASCII (Python's str.isnumeric / "
               "int / strip are modelled for ASCII only)",
               "sympy evaluation of the constructed objects (canonical index "
               "order, Mul/Add flattening) is not part of the model; it is "
               "replayed with the real classes by c18_util.build"]

FINDING_D = "C18:kind:symbolic-denominator-D"


FINDING_NAMES = "C18:same-name-indices"


def name_collisions(E):
    """printed names shared by distinct Index objects of the expression"""
    Index = sys.modules["adcgen.indices"].Index
    seen = {}
    for i in S(E.sympy).atoms(Index):
        seen.setdefault((i.name, i.spin), set()).add(i)
    return sorted(f"{n}_{sp}" if sp else n
                  for (n, sp), v in seen.items() if len(v) > 1)


ROOT_TARGETS = {"t2_1": "ijab", "t1_2": "ia", "t2_2": "ijab",
                "M0_ph_ph": "iajb", "M1_ph_ph": "iajb", "M2_ph_ph": "iajb",
                "M1_ph_pphh": "iajkbc", "E0": "", "E1": "", "E2": "", "E3": ""}


def targets_of(E, label=""):
    root = label.split(":")[0]
    if root in ROOT_TARGETS and "spatial" not in label:
        return get_symbols(ROOT_TARGETS[root])
    tg = E.provided_target_idx
    if tg is None:
        try:
            tg = E.terms[0].target
        except Exception:
            tg = ()
    return tg


def clause_problems(E, R, s):
    out = []
    if str(R) != s:
        out.append("re-printed text differs")
    if U.kinds_of(E) != U.kinds_of(R):
        out.append("tensor classes / bra-ket symmetries differ")
    return out


def repair_D(e):
    """the imported expression with AntiSymmetricTensor D replaced by the
    SymmetricTensor the library uses (what the proposed patch does)"""
    name = tensor_names.sym_orb_denom
    sub = {}
    for t in S(e).atoms(AntiSymmetricTensor):
        if t.name == name and type(t) is AntiSymmetricTensor:
            sub[t] = SymmetricTensor(name, t.upper, t.lower, t.bra_ket_sym)
    return S(e).xreplace(sub) if sub else S(e)



CONFIGS = {
    "A": {"eri": "W", "coulomb": "w", "fock": "g", "operator": "u",
          "gs_amplitude": "am", "gs_density": "rho",
          "left_adc_amplitude": "L", "right_adc_amplitude": "R",
          "orb_energy": "eps", "sym_orb_denom": "Dn"},
    # default names re-used for other roles
    "B": {"eri": "v", "coulomb": "V", "gs_amplitude": "X",
          "left_adc_amplitude": "t", "right_adc_amplitude": "p",
          "gs_density": "Y"},
}


class override_names:
    def __init__(self, over):
        self.over = over

    def __enter__(self):
        self.old = {k: getattr(tensor_names, k) for k in self.over}
        for k, v in self.over.items():
            object.__setattr__(tensor_names, k, v)

    def __exit__(self, *a):
        for k, v in self.old.items():
            object.__setattr__(tensor_names, k, v)


def importer():
    return sys.modules["adcgen.func"].import_from_sympy_latex


# ---------------------------------------------------------------------------
# inputs
def corpus_exprs(ctx):
    """inputs of repaired defects (corpus/C18.json), run first"""
    import json
    import os
    import adcgen
    path = os.path.join(os.path.dirname(os.path.dirname(os.path.dirname(
        os.path.abspath(__file__)))), "corpus", "C18.json")
    out = []
    if not os.path.exists(path):
        ctx.obligation("corpus/C18.json present", False, path)
        return out
    gs = None
    for item in json.load(open(path)):
        lab = item["label"]
        if "latex" in item:
            E = Expr(importer()(item["latex"]).sympy,
                     real=item.get("real", False))
            if item.get("symden"):
                E = E.expand().use_symbolic_denominators()
            out.append((lab, E))
        elif "tensors" in item:
            prod = S(item.get("coef", 1))
            for kind, name, up, lo in item["tensors"]:
                up = get_symbols(up) if up else []
                lo = get_symbols(lo) if lo else []
                if kind == "nonsym":
                    prod *= NonSymmetricTensor(name, up)
                else:
                    prod *= U.CLASS[kind](name, up, lo)
            out.append((lab, Expr(prod)))
        elif item["derive"][0] in ("mvp", "trans_moment_space"):
            kind, var, order, space, idx = item["derive"]
            gs = gs or adcgen.GroundState(adcgen.Operators())
            isr = adcgen.IntermediateStates(gs, variant=var)
            if kind == "mvp":
                E = Expr(adcgen.SecularMatrix(isr).mvp(
                    adc_order=order, space=space, indices=idx), real=True)
                E.substitute_contracted()
            else:
                E = Expr(adcgen.Properties(isr).trans_moment_space(
                    order, space), real=True)
            ROOT_TARGETS[lab] = idx
            out.append((lab, E))
        else:
            kind, order, space, idx = item["derive"]
            gs = gs or adcgen.GroundState(adcgen.Operators())
            E = Expr(getattr(gs, kind)(order, space, idx), real=True).expand()
            ROOT_TARGETS[lab] = idx
            out.append((lab, E))
            try:
                out.append((lab + ":symden",
                            E.copy().use_symbolic_denominators()))
            except Exception as ex:
                ctx.note(f"{lab}: use_symbolic_denominators raised {ex!r}")
    return out


def derivation_exprs(ctx, quick):
    import adcgen
    out = []
    op = adcgen.Operators()
    gs = adcgen.GroundState(op)

    def add(label, e, real=True, variants=True, spatial=None):
        E = Expr(e, real=real)
        out.append((label, E))
        if not variants:
            return
        X = E.copy().expand()
        out.append((label + ":expand", X))
        try:
            out.append((label + ":symden",
                        E.copy().expand().use_symbolic_denominators()))
        except Exception as ex:  # not a property of C18
            ctx.note(f"{label}: use_symbolic_denominators raised {ex!r}")
        if spatial is not None:
            tg, spins = spatial
            for restricted in (False, True):
                try:
                    src = E.copy().expand()
                    if tg:      # denominators defeat the Einstein convention
                        src.set_target_idx(tg)
                    sp = adcgen.transform_to_spatial_orbitals(
                        src, tg, spins[restricted], restricted=restricted)
                    out.append((f"{label}:spatial{int(restricted)}", sp))
                    out.append((f"{label}:spatial{int(restricted)}:symden",
                                sp.copy().use_symbolic_denominators()))
                except Exception as ex:
                    ctx.note(f"{label}: spatial transformation raised {ex!r}")

    add("E0", gs.energy(0), spatial=("", ("", "")))
    add("E1", gs.energy(1), spatial=("", ("", "")))
    add("E2", gs.energy(2), spatial=("", ("", "")))
    add("t2_1", gs.amplitude(1, "pphh", "ijab"),
        spatial=("ijab", ("abab", "abab")))
    add("t1_2", gs.amplitude(2, "ph", "ia"), spatial=("ia", ("aa", "aa")))
    add("psi1", gs.psi(1, "ket"), variants=False)
    add("psi1", gs.psi(1, "ket"), real=False, variants=False)
    isr = adcgen.IntermediateStates(gs, "pp")
    m = adcgen.SecularMatrix(isr)
    add("prec1_ph", isr.precursor(1, "ph", "ket", "ia"), variants=False)
    for order in (0, 1):
        add(f"M{order}_ph_ph",
            m.isr_matrix_block(order, "ph,ph", ("ia", "jb")),
            spatial=("iajb", ("aaaa", "aaaa")))
    add("t2_2", gs.amplitude(2, "pphh", "ijab"),
        spatial=("ijab", ("abab", "abab")))
    # IP / EA: amplitude vectors and operator matrices with an empty upper or
    # lower index group (Y^{}_{j}, Y^{a}_{}, d^{}_{q}, d^{p}_{})
    for var, sp, ix in (("ip", "h", "i"), ("ea", "p", "a")):
        isr_v = adcgen.IntermediateStates(gs, variant=var)
        m_v = adcgen.SecularMatrix(isr_v)
        prop = adcgen.Properties(isr_v)
        for order in ((0, 1) if quick else (0, 1, 2)):
            lab = f"mvp{order}_{var}_{sp}"
            ROOT_TARGETS[lab] = ix
            E = Expr(m_v.mvp(adc_order=order, space=sp, indices=ix), real=True)
            E.substitute_contracted()
            add(lab, E.sympy)
        for order in (0, 2):
            lab = f"tm{order}_{var}_{sp}"
            ROOT_TARGETS[lab] = ""
            add(lab, prop.trans_moment_space(order, sp))
    if not quick:
        add("E3", gs.energy(3), spatial=("", ("", "")))
        add("M2_ph_ph", m.isr_matrix_block(2, "ph,ph", ("ia", "jb")),
            spatial=("iajb", ("abab", "aaaa")))
        add("M1_ph_pphh", m.isr_matrix_block(1, "ph,pphh", ("ia", "jkbc")))
        add("prec2_ph", isr.precursor(2, "ph", "ket", "ia"), variants=False)
    return out


LET = {"o": "ijklmno", "v": "abcdefgh", "g": "pqrstuvw"}


def rnd_index(rng, space=None, spin=None):
    space = space or rng.choice("oovvg")
    name = rng.choice(LET[space])
    r = rng.random()
    if r < 0.25:
        name += str(rng.randint(1, 14))
    elif r < 0.30:
        name += str(rng.randint(15, 250))
    if spin is None:
        spin = rng.choice(["", "", "", "a", "b"])
    return get_symbols(name, spin or None)[0]


def rnd_indices(rng, n, spin=None):
    out = []
    while len(out) < n:
        i = rnd_index(rng, spin=spin)
        if i not in out:
            out.append(i)
    return out


def rnd_tensor(rng, lib_only=True):
    tn = tensor_names
    spin = rng.choice([None, None, "", "a"])
    k = rng.random()
    if k < 0.2:      # amplitudes
        name = rng.choice([tn.gs_amplitude + x for x in
                           ("1", "2", "3", "1cc", "2cc", "", "cc", "12")] +
                          [tn.left_adc_amplitude, tn.right_adc_amplitude])
        n = rng.randint(1, 3)
        idx = rnd_indices(rng, 2 * n, spin)
        r = rng.random()
        if r < 0.12:      # 1h / 2h1p ... vectors: empty upper group
            return Amplitude(name, [], idx[n:])
        if r < 0.24:      # empty lower group
            return Amplitude(name, idx[:n], [])
        if r < 0.30:
            return Amplitude(name, idx[:n - 1], idx[n - 1:])
        return Amplitude(name, idx[:n], idx[n:])
    if k < 0.45:     # antisymmetric
        name = rng.choice([tn.eri, tn.fock, tn.operator, tn.gs_density + "2",
                           "A", "J1", "Zz", "m3x"])
        nu, nl = rng.choice([(1, 1), (2, 2), (2, 2), (1, 2), (3, 3), (2, 1)])
        idx = rnd_indices(rng, nu + nl, spin)
        if name in (tn.eri, tn.fock) and nu != nl:
            nl = nu          # Expr(real=True) needs square V / f
        if name not in (tn.eri, tn.fock) and rng.random() < 0.2:
            # one-operator strings: d^{}_{q}, d^{p}_{}
            nu, nl = rng.choice([(0, 1), (1, 0), (0, 2), (2, 0)])
        idx = rnd_indices(rng, nu + nl, spin)
        return AntiSymmetricTensor(name, idx[:nu], idx[nu:])
    if k < 0.6:      # symmetric: Coulomb, D, others
        # the library itself creates SymmetricTensors only for the Coulomb
        # integrals and the symbolic denominators
        name = rng.choice([tn.coulomb, tn.coulomb, tn.sym_orb_denom] +
                          ([] if lib_only else ["B"]))
        nu = rng.randint(1, 2)
        idx = rnd_indices(rng, 2 * nu, spin)
        bks = -1 if name == tn.sym_orb_denom else 0
        if name != tn.sym_orb_denom and rng.random() < 0.15:
            if rng.random() < 0.5:
                return SymmetricTensor(name, [], idx[nu:])
            return SymmetricTensor(name, idx[:nu], [])
        return SymmetricTensor(name, idx[:nu], idx[nu:], bks)
    if k < 0.8:      # non-symmetric
        name = rng.choice([tn.orb_energy, "n", "w2", "K"])
        n = 1 if name == tn.orb_energy else rng.randint(1, 4)
        return NonSymmetricTensor(name, rnd_indices(rng, n, spin))
    if k < 0.88:
        i, j = rnd_indices(rng, 2, spin)
        return KroneckerDelta(i, j)
    if k < 0.94:
        return Symbol(rng.choice(["x", "y", "c", "nocc", "z"]))
    i = rnd_index(rng, spin=spin)
    return rng.choice([F, Fd])(i)


def rnd_coef(rng):
    c = Rational(rng.choice([1, 1, -1, 2, -2, 3, -1, 5, 7, 12]),
                 rng.choice([1, 1, 2, 4, 3, 8, 16]))
    r = rng.random()
    if r < 0.2:
        c *= sqrt(rng.choice([2, 3, 6])) ** rng.choice([1, -1])
    elif r < 0.35:
        # multi-digit radicands: normalisation factors 1/sqrt(n_o! n_v!) ...
        c *= sqrt(rng.choice([10, 14, 15, 21, 30, 35, 42, 105, 210, 11, 13,
                              1001])) ** rng.choice([1, -1])
    elif r < 0.42:
        c *= sqrt(rng.choice([2, 3, 7])) * sqrt(rng.choice([5, 11, 13])) \
            / rng.choice([1, 5])
    return c


def rnd_denominator(rng):
    e = tensor_names.orb_energy
    d = 1
    for _ in range(rng.randint(1, 2)):
        n = rng.randint(1, 3)
        occ = rnd_indices(rng, 2 * n)
        br = Add(*[rng.choice([1, 1, 1, 2, -1]) * NonSymmetricTensor(e, (i,))
                   * (1 if k < n else -1) for k, i in enumerate(occ)])
        if br == 0 or br.is_number:
            continue
        d *= br ** rng.choice([1, 1, 1, 2])
    if rng.random() < 0.3:
        d *= rng.choice([2, 4])
    return d


def rnd_expr(rng, lib_only=True):
    terms = []
    for _ in range(rng.choice([1, 1, 2, 2, 3, 4])):
        t = rnd_coef(rng)
        for _ in range(rng.randint(1, 4)):
            o = rnd_tensor(rng, lib_only)
            if rng.random() < 0.08 and not isinstance(o, (F, Fd)):
                o = o ** rng.randint(2, 3)
            t *= o
        r = rng.random()
        if r < 0.25:
            t /= rnd_denominator(rng)
        elif r < 0.32:
            ops = [rng.choice([F, Fd])(i) for i in rnd_indices(rng, rng.randint(1, 4))]
            t *= NO(Mul(*ops))
        elif r < 0.37:
            a, b = rnd_tensor(rng, lib_only), rnd_tensor(rng, lib_only)
            if not isinstance(a, (F, Fd)) and not isinstance(b, (F, Fd)):
                t *= (a + rnd_coef(rng) * b) ** rng.choice([1, 2])
        terms.append(t)
    return Add(*terms)


def generated_exprs(ctx, n, expanded=True, tag="gen"):
    rng = ctx.rng
    out = []
    for k in range(n):
        e = rnd_expr(rng, lib_only=expanded)
        if expanded:
            e = e.expand()
        E = Expr(e)
        r = rng.random()
        ts = list(E.sympy.atoms(AntiSymmetricTensor))
        names = {t.name for t in ts}
        # bra-ket symmetry can be declared for names whose tensors are square
        square = sorted(n for n in names if n != tensor_names.sym_orb_denom
                        and all(len(t.upper) == len(t.lower) for t in ts
                                if t.name == n))
        anti = [tensor_names.sym_orb_denom] \
            if tensor_names.sym_orb_denom in names else []
        if r < 0.3:
            E = Expr(e, real=True, antisym_tensors=anti)
        elif r < 0.6 and square:
            k2 = rng.randint(1, len(square))
            sy = rng.sample(square, k2)
            an = [n for n in square if n not in sy and rng.random() < 0.3]
            E = Expr(e, sym_tensors=sy, antisym_tensors=an + anti)
        elif anti:
            E = Expr(e, antisym_tensors=anti)
        out.append((f"{tag}{k}", E))
    return out


def fixed_exprs():
    """hand-picked shapes: every tensor class, spins, numbers, prefactors"""
    i, j, k, a, b, c, p, q = get_symbols("ijkabcpq")
    ia, jb = get_symbols("ij", "ab")
    aa, bb = get_symbols("ab", "ab")
    i3, a12 = get_symbols("i3a12")
    tn = tensor_names
    V = AntiSymmetricTensor(tn.eri, (i, j), (a, b))
    t = Amplitude(tn.gs_amplitude + "1", (a, b), (i, j))
    e = lambda x: NonSymmetricTensor(tn.orb_energy, (x,))  # noqa
    x = Symbol("x")
    D = SymmetricTensor(tn.sym_orb_denom, (i, j), (a, b), -1)
    es = [
        V * t / 4, -V * t * Rational(3, 4), sqrt(2) * V, V / sqrt(2),
        -sqrt(3) * V * t / 6, V ** 2, V ** 2 * t / 2, V / (e(a) - e(i)),
        V / (e(a) - e(i)) ** 2,
        V / ((e(a) - e(i)) * (e(a) + e(b) - e(i) - e(j))),
        V * t / (4 * e(a) - 4 * e(i)), 2 * V, -V, V + t, -V + t,
        V * (e(a) + e(i)), V * KroneckerDelta(i, j),
        KroneckerDelta(ia, jb) * V, KroneckerDelta(i, i3), Fd(a) * F(i),
        NO(Fd(a) * F(i)), NO(Fd(a) * F(i)) * V / 4, Fd(ia) * F(jb) * V,
        x * V, x ** 2, x, S(3), Rational(1, 2), sqrt(2) / 2,
        -Rational(1, 2) * x, 1 / x, V / x, V / (2 * x), (V + t) ** 2,
        (V + t) ** 2 / (e(a) - e(i)), (e(a) - e(i)) * V,
        V * t + V / (e(a) - e(i)), V / (e(a) - 2 * e(i)),
        V / (2 * e(a) - 2 * e(i)), V / (-4 * e(a) + 4 * e(i)),
        NonSymmetricTensor("n", (i, a, i3)),
        SymmetricTensor(tn.coulomb, (i, a), (j, b)),
        AntiSymmetricTensor(tn.fock, (ia,), (jb,)),
        Amplitude(tn.left_adc_amplitude, (a,), (i,)),
        Amplitude(tn.right_adc_amplitude, (a, b), (i, j)),
        Amplitude(tn.gs_amplitude + "2cc", (a,), (i,)) ** 2,
        V * x ** 2 * 3, NO(Fd(a) * F(i)) * NO(Fd(b) * F(j)), Fd(p),
        F(p) * V, V * sqrt(6) / 12, V * t * x / (3 * sqrt(2)),
        D, -V * D, D * D.subs({i: k}) * V / 4, S(0), S(1),
        Amplitude(tn.right_adc_amplitude, (), (j,)) *
        AntiSymmetricTensor(tn.fock, (i,), (j,)),
        Amplitude(tn.right_adc_amplitude, (b,), ()) *
        AntiSymmetricTensor(tn.fock, (a,), (b,)) / 2,
        Amplitude(tn.left_adc_amplitude, (), (i,)) *
        AntiSymmetricTensor(tn.operator, (), (i,)),
        Amplitude(tn.left_adc_amplitude, (a,), ()) *
        AntiSymmetricTensor(tn.operator, (a,), ()),
        Amplitude(tn.right_adc_amplitude, (a,), (i, j)) ** 2,
        Amplitude(tn.gs_amplitude + "1", (), (i, j)) *
        SymmetricTensor(tn.coulomb, (), (i, j)) -
        SymmetricTensor(tn.coulomb, (a, b), ()) *
        AntiSymmetricTensor("A", (ia, jb), ()),
        NonSymmetricTensor("n", ()) * Amplitude(tn.right_adc_amplitude, (), ()),
        Amplitude(tn.right_adc_amplitude, (a,), (i,)) / sqrt(10),
        sqrt(14) * V, -sqrt(15) * t * V / 4, V / sqrt(120), sqrt(2) * sqrt(5) * V,
        Amplitude(tn.left_adc_amplitude, (a, b, c), (i, j, k)) / sqrt(36) +
        Amplitude(tn.left_adc_amplitude, (a, b), (i, j, k)) / sqrt(12) -
        Amplitude(tn.left_adc_amplitude, (a, b, c), (i, j)) * sqrt(105) / 210,
        sqrt(210) * x / 7, sqrt(1001),
        AntiSymmetricTensor(tn.eri, (i3, j), (a12, b)) *
        Amplitude(tn.gs_amplitude + "1", (aa, bb), (ia, jb)),
        AntiSymmetricTensor(tn.operator, (p,), (q,)) * Fd(p) * F(q),
        SymmetricTensor(tn.sym_orb_denom, (ia,), (aa,), -1) *
        AntiSymmetricTensor(tn.fock, (ia,), (aa,)),
    ]
    out = []
    for n, s in enumerate(es):
        E = Expr(s)
        if tn.sym_orb_denom in {t.name for t in E.sympy.atoms(AntiSymmetricTensor)}:
            E.set_antisym_tensors([tn.sym_orb_denom])
        out.append((f"fixed{n}", E))
    return out


MUT_CHARS = "{}^_ +-()\\12ai"


def malformed(rng, valid, n):
    out = []
    for k in range(n):
        s = rng.choice(valid)
        if len(s) > 400 or not s:
            continue
        s = list(s)
        for _ in range(rng.choice([1, 1, 1, 2, 3])):
            pos = rng.randrange(len(s)) if s else 0
            op = rng.random()
            if op < 0.35 and s:
                del s[pos]
            elif op < 0.7:
                s.insert(pos, rng.choice(MUT_CHARS))
            elif op < 0.85 and len(s) > 1:
                q = rng.randrange(len(s))
                s[pos], s[q] = s[q], s[pos]
            elif s:
                s[pos] = rng.choice(MUT_CHARS)
        out.append("".join(s))
    return out


# ---------------------------------------------------------------------------
def py_import(s, convert=False):
    """('ok', sympy) | ('raise', exception name)"""
    try:
        return ("ok", importer()(s, convert_default_names=convert).sympy)
    except RecursionError:
        raise
    except Exception as ex:
        return ("raise", type(ex).__name__)


def safe(x, n=600):
    """repr of a value that may hold a sympy object whose printer raises (e.g.
    a tensor whose name sympify turns into a function such as N or Q)"""
    try:
        return repr(x)[:n]
    except Exception as ex:
        try:
            from sympy import srepr
            return ("<unprintable: " + srepr(x[1] if isinstance(x, tuple)
                                            else x))[:n] + ">"
        except Exception:
            return f"<unprintable {type(x).__name__}: {type(ex).__name__}>"


def safe_eq(a, b):
    try:
        return bool(a == b)
    except Exception:
        return False


def py_build(tree):
    try:
        return ("ok", U.build(tree))
    except Exception as ex:
        return ("raise", type(ex).__name__)


def n_objects(tree):
    n = 0
    for t in tree:
        for b in (t[2], t[3]):
            if b is None:
                continue
            n += len(b[1]) if b[0] == "objs" else n_objects(b[1])
    return n


def run(ctx):
    import glob
    import os
    try:
        _run(ctx)
    finally:
        # the per-process case files (see uniq) are not overwritten by the next
        # run, remove them
        gen = os.path.join(os.path.dirname(os.path.dirname(os.path.dirname(
            os.path.abspath(__file__)))), "coq", "gen")
        for f in glob.glob(os.path.join(
                gen, f"C18_*_s{ctx.seed}_p{os.getpid()}_*.v")):
            try:
                os.remove(f)
            except OSError:
                pass


def _run(ctx):
    import os
    global uniq

    def uniq(tag):
        # concurrent runs (seed sweeps) share coq/gen: one file name per process
        return f"{tag}_s{ctx.seed}_p{os.getpid()}"
    rng = ctx.rng
    quick = ctx.tier == "quick"
    imp = importer()
    cfg = {f: getattr(tensor_names, f) for f in TensorNames.defaults()}
    dfl = TensorNames.defaults()
    names_lit = U.coq_names(cfg)
    defs = f"Definition cfg := {names_lit}.\n"

    # D: the default names of the model are those of the implementation
    vals, _ = ctx.coq_eval(uniq("names"), [
        f"str_eqb_names default_names {U.coq_names(dfl)}"], header=U.COQ_HEADER,
        defs="Definition str_eqb_names a b := forallb (fun p => str_eqb (fst p) "
             "(snd p)) (combine (fields a) (fields b)).\n")
    ctx.obligation("default tensor names of the model = TensorNames.defaults()",
                   vals and vals[0] == "true", str(vals))

    # ---------------- valid expressions --------------------------------------
    exprs = corpus_exprs(ctx) + fixed_exprs() + derivation_exprs(ctx, quick) + \
        generated_exprs(ctx, 250 if quick else 1500)
    # not expanded: outside the property's quantifier, used for the
    # model/implementation correspondence only
    raw = generated_exprs(ctx, 80 if quick else 400, expanded=False, tag="raw")
    seen, cases = set(), []
    for label, E in exprs + raw:
        s = str(E)
        if s in seen:
            continue
        seen.add(s)
        # the property is about expanded expressions
        strict = (not label.startswith("raw")
                  and (label.startswith("corpus")
                       or S(E.sympy).expand() == E.sympy))
        cases.append({"label": label, "E": E, "s": s, "strict": strict})
    ctx.extra["campaign_strings"] = len(cases)
    ctx.extra["campaign_strings_expanded"] = sum(c["strict"] for c in cases)

    # 1. the property in the implementation, case by case
    pairs = []
    for c in cases:
        E, s = c["E"], c["s"]
        c["imp"] = py_import(s)
        c["collide"] = name_collisions(E)
        if c["imp"][0] == "ok":
            R = Expr(c["imp"][1], **E.assumptions)
            c["R"] = R
            c["kinds_ok"] = U.kinds_of(E) == U.kinds_of(R)
        if not c["strict"]:
            continue
        if c["imp"][0] != "ok":
            ctx.obligation(f"import of printed text {c['label']}", False,
                           c["imp"][1])
            ctx.violation(f"C18:import-raises:{c['label']}",
                          f"import_from_sympy_latex raises {c['imp'][1]} on "
                          "the printed text of an expression",
                          {"label": c["label"], "text": s}, True)
            continue
        problems = clause_problems(E, R, s)
        ctx.obligation(f"round trip in the implementation {c['label']}",
                       not problems, "; ".join(problems))
        if not problems:
            if not (R.sympy == E.sympy or
                    S(R.sympy - E.sympy).expand() == 0):
                pairs.append((c, EQ.Pair(E, R, targets_of(E, c["label"]), c["label"])))
            continue
        k1, k2 = U.kinds_of(E), U.kinds_of(R)
        rep = {"label": c["label"], "text": s, "reprinted": str(R),
               "problems": problems,
               "original classes": [d[:3] for d in sorted(set(k1) - set(k2))],
               "imported classes": [d[:3] for d in sorted(set(k2) - set(k1))],
               "difference imported-original":
                   str(S(R.sympy - E.sympy))[:500]}
        if c["collide"]:
            # distinct Index objects with the same printed name: the text is
            # ambiguous, the importer identifies them
            root = c["label"].split(":")[0]
            rep["same-name indices"] = c["collide"]
            found = True
            try:
                pr = EQ.Pair(E, R, targets_of(E, c["label"]), c["label"])
                EQ.run_pairs(ctx, uniq("collide"), [pr], search=True)
                rep["value check"] = {"check_equiv": pr.ok,
                                      "difference": pr.diff, "err": pr.err}
                found = pr.ok is False
            except Exception as ex:
                rep["value check"] = repr(ex)
            ctx.violation(f"{FINDING_NAMES}:{root}",
                          "the expression holds distinct indices that print "
                          "with the same name; print + import identifies "
                          "them (other value, other text)", rep, found)
            continue
        # is the wrong class of the symbolic denominator the only cause?
        R2 = Expr(repair_D(R.sympy), **E.assumptions)
        if problems and not clause_problems(E, R2, s) and \
                repair_D(R.sympy) != R.sympy:
            ctx.violation(
                FINDING_D, "the symbolic denominator D (a SymmetricTensor) is "
                "imported as AntiSymmetricTensor: other tensor class, "
                "imported - original != 0" +
                (", other re-printed text" if str(R) != s else ""), rep, True)
            continue
        kind = "reprint" if str(R) != s else "kind"
        ctx.violation(f"C18:{kind}:{c['label']}",
                      "print + import + same assumptions does not restore "
                      "the expression: " + "; ".join(problems), rep, True)

    # same classes but not syntactically equal: value via the verified validator
    if pairs:
        EQ.run_pairs(ctx, uniq("value"), [p for _, p in pairs], shard=30,
                     search=False)
        for c, p in pairs:
            if p.ok is False and len(S(c["E"].sympy).atoms(
                    sys.modules["adcgen.indices"].Index)) <= 8:
                import numeric
                try:
                    p.diff = numeric.find_difference(p.p1, p.p2, p.tg, rng)
                except Exception as ex:
                    p.err = f"numeric search failed: {ex!r}"
            if p.ok is None:
                ctx.note(f"{p.label}: value comparison outside the validator "
                         f"({p.err}); sympy difference "
                         f"{str(S(c['R'].sympy - c['E'].sympy))[:200]}")
                ctx.obligation(f"value {p.label}", False, p.err)
                ctx.violation(f"C18:value:{p.label}",
                              "imported expression is not syntactically equal "
                              "and could not be validated", EQ.describe(p),
                              False)
            elif not ctx.obligation(f"value {p.label}", p.ok, p.err):
                ctx.violation(f"C18:value:{p.label}",
                              "imported expression has another value",
                              {"case": EQ.describe(p), "difference": p.diff},
                              p.diff is not None)

    # 2. model vs implementation on the printed strings (importer direction)
    strings = [c["s"] for c in cases]
    bad_ascii = [s for s in strings if not U.ascii_ok(s)]
    ctx.obligation("campaign strings are printable ASCII", not bad_ascii,
                   str(bad_ascii[:3]))
    mal = malformed(rng, [s for s in strings if s], 400 if quick else 3000)
    mal = list(dict.fromkeys(m for m in mal if m not in seen))
    conv_strings = [s for s in strings if rng.random() < 0.3][:300]
    all_in = [(s, False, "valid") for s in strings] + \
             [(s, False, "malformed") for s in mal] + \
             [(s, True, "convert") for s in conv_strings]
    coq_cases = [f"show_result (import_model cfg {'true' if cv else 'false'} "
                 f"{U.coq_str(s)})" for s, cv, _ in all_in]
    vals, errs = ctx.coq_eval(uniq("import"), coq_cases, header=U.COQ_HEADER,
                              defs=defs, shard=120)
    n_agree = 0
    dist_m = {"valid": 0, "malformed-raise": 0, "malformed-ok": 0, "convert": 0}
    for (s, cv, kind), v in zip(all_in, vals):
        if v is None:
            ctx.obligation(f"coq evaluation import {s[:40]!r}", False,
                           "; ".join(errs)[:300])
            continue
        tree = U.parse_result(v)
        py = py_import(s, cv)
        if tree is None:
            ok = py[0] == "raise"
            detail = f"model raises, implementation returns {safe(py[1], 400)}"
        else:
            b = py_build(tree)
            if py[0] == "ok":
                ok = b[0] == "ok" and safe_eq(b[1], py[1])
            else:
                # the parse succeeds, a sympy constructor raises
                ok = b[0] == "raise" and b[1] == py[1]
            detail = f"model {safe(b)} vs implementation {safe(py)}"
        if kind == "malformed":
            dist_m["malformed-ok" if py[0] == "ok" else "malformed-raise"] += 1
        else:
            dist_m[kind] += 1
        ctx.case(key=("import", s, cv),
                 nontrivial=(tree is not None and n_objects(tree) >= 2),
                 sample={"text": s[:200], "model": v[:200]} if kind == "valid"
                 else None, kind=f"import:{kind}")
        if ctx.obligation(f"importer = model [{kind}] {s[:60]!r}", ok, detail):
            n_agree += 1
        else:
            ctx.violation(
                f"C18:model-import:{kind}:{s[:80]}",
                "Gallina importer and import_from_sympy_latex disagree",
                {"text": s, "convert_default_names": cv, "detail": detail,
                 "correspondence": "Latex.import_model vs func.py:49-273"},
                False)
    ctx.extra["import_cases"] = dist_m

    # 2b. other configured tensor names (tensor_names is a frozen singleton
    # read from tensor_names.json at import; its fields are overridden for the
    # duration of these calls only, /repo is not touched)
    extra = ["{t^{a}_{i}} {tcc^{a}_{i}} {t2^{ab}_{ij}} {t12cc^{ab}_{ij}} "
             "{tc1c^{a}_{i}} {tx^{a}_{i}} {t1x^{a}_{i}}",
             "{p^{a}_{i}} {p2^{a}_{i}} {pc^{a}_{i}} {p2c^{a}_{i}} {V^{ij}_{ab}} "
             "{v^{ia}_{jb}} {f^{i}_{j}} {d^{i}_{a}} {X^{a}_{i}} {Y^{a}_{i}} "
             "{e_{a}} {D^{i}_{a}}",
             "{am^{a}_{i}} {am1^{a}_{i}} {amcc^{a}_{i}} {a1^{a}_{i}} "
             "{rho^{a}_{i}} {L^{a}_{i}} {R^{a}_{i}} {W^{ij}_{ab}} {w^{ia}_{jb}}"]
    sample = [x for x in strings if rng.random() < 0.35][:150] + extra
    for tag, over in CONFIGS.items():
        cfg2 = dict(cfg)
        cfg2.update(over)
        d2 = f"Definition cfg := {U.coq_names(cfg2)}.\n"
        cc = [(x, cv) for x in sample for cv in (False, True)]
        vals2, errs2 = ctx.coq_eval(
            uniq(f"names_{tag}"), [f"show_result (import_model cfg "
                             f"{'true' if cv else 'false'} {U.coq_str(x)})"
                             for x, cv in cc], header=U.COQ_HEADER, defs=d2,
            shard=120)
        with override_names(over):
            for (x, cv), v in zip(cc, vals2):
                if v is None:
                    ctx.obligation(f"coq evaluation names {tag}", False,
                                   "; ".join(errs2)[:300])
                    continue
                tree = U.parse_result(v)
                py = py_import(x, cv)
                if tree is None:
                    ok = py[0] == "raise"
                    detail = f"model raises, implementation {safe(py, 400)}"
                else:
                    b = py_build(tree)
                    ok = (b[0] == py[0]) and safe_eq(b[1], py[1])
                    detail = f"model {safe(b)} vs implementation {safe(py)}"
                ctx.case(key=("names", tag, x, cv), nontrivial=True,
                         kind=f"import:names-{tag}")
                if not ctx.obligation(f"importer = model [names {tag}, "
                                      f"convert={cv}] {x[:50]!r}", ok, detail):
                    ctx.violation(
                        f"C18:model-import:names-{tag}:{cv}:{x[:70]}",
                        "Gallina importer and import_from_sympy_latex disagree "
                        "under other configured tensor names",
                        {"text": x, "convert_default_names": cv,
                         "tensor_names": cfg2, "detail": detail}, False)

    # 3. printer direction and the round trip inside the model
    inside, outside, why = [], 0, {}
    for c in cases:
        try:
            c["tree"] = U.layout(c["E"])
            inside.append(c)
        except U.Outside as ex:
            outside += 1
            why[str(ex)[:60]] = why.get(str(ex)[:60], 0) + 1
            c["tree"] = None
    ctx.extra["strings_in_modelled_fragment"] = len(inside)
    ctx.extra["strings_outside_fragment"] = outside
    ctx.extra["outside_reasons"] = why
    pcases = []
    for c in inside:
        t = U.coq_terms(c["tree"])
        asm = c["E"].assumptions
        sym = U.coq_list(U.coq_L(x) for x in asm["sym_tensors"])
        anti = U.coq_list(U.coq_L(x) for x in asm["antisym_tensors"])
        pcases.append(f"print_model {t}")
        pcases.append(f"roundtrip_check cfg {t}")
        pcases.append(f"kinds_check cfg {sym} {anti} {t}")
        pcases.append(f"wf_expr {t}")
    pdefs = defs + (
        "Definition roundtrip_check c e := match import_model c false "
        "(print_model e) with Some e' => String.eqb (show_expr e') (show_expr "
        "(forget c e)) | None => false end.\n"
        "Definition kinds_check c s a e := String.eqb (show_expr (reapply s a "
        "(forget c e))) (show_expr e).\n")
    vals, errs = ctx.coq_eval(uniq("print"), pcases, header=U.COQ_HEADER, defs=pdefs,
                              shard=160)
    n_wf = 0
    not_wf = []
    for n, c in enumerate(inside):
        pv, rv, kv, wv = vals[4 * n:4 * n + 4]
        if pv is None:
            ctx.obligation(f"coq evaluation print {c['label']}", False,
                           "; ".join(errs)[:300])
            continue
        ok = ctx.obligation(f"print_model = str(expr) {c['label']}",
                            U.unquote(pv) == c["s"],
                            f"{U.unquote(pv)[:300]!r} vs {c['s'][:300]!r}")
        if not ok:
            ctx.violation(f"C18:model-print:{c['label']}",
                          "Gallina printer and str(expr) disagree",
                          {"text": c["s"], "model": U.unquote(pv)}, False)
        n_wf += wv == "true"
        if wv != "true":
            not_wf.append(c["label"] + ": " + c["s"][:120])
        if wv == "true":
            # inside the hypotheses of the theorem: the round trip must compute
            if not ctx.obligation(f"model round trip {c['label']}",
                                  rv == "true"):
                ctx.violation(f"C18:model-roundtrip:{c['label']}",
                              "import_model (print_model e) <> forget e on a "
                              "well-formed tree (contradicts the theorem)",
                              {"text": c["s"]}, False)
        # kind clause in the model = kind clause observed in the implementation
        if "kinds_ok" in c:
            agree = (kv == "true") == (c["kinds_ok"] and True)
            # model compares kinds and bra-ket symmetry of the tree; the
            # implementation's reprint/kinds check must say the same
            if not ctx.obligation(f"kind clause model = implementation "
                                  f"{c['label']}", agree,
                                  f"model {kv}, implementation {c['kinds_ok']}"):
                ctx.violation(f"C18:model-kinds:{c['label']}",
                              "the model's verdict on the kind clause differs "
                              "from the implementation's",
                              {"text": c["s"], "model": kv,
                               "implementation": c["kinds_ok"]}, False)
        ctx.case(key=("print", c["s"]), nontrivial=n_objects(c["tree"]) >= 2,
                 sample=None, kind="print:" + c["label"].split(":")[0].rstrip(
                     "0123456789"))
    ctx.extra["strings_satisfying_wf_expr"] = n_wf
    ctx.extra["in_fragment_not_wf_expr"] = not_wf[:20]
    ctx.note(f"{len(inside)} of {len(cases)} campaign strings are inside the "
             f"modelled layout fragment, {n_wf} satisfy the hypotheses "
             f"(wf_expr) of the round-trip theorem; outside: {why}")


def replay(ctx, rep):
    r = rep.get("replay", {})
    s = r.get("text")
    if s is None:
        print(rep)
        return 0
    print("text:", s)
    py = py_import(s, r.get("convert_default_names", False))
    print("implementation:", py)
    if py[0] == "ok":
        print("re-printed:", latex(py[1]))
        print("classes:", U.kinds_of(py[1]))
    return 0
