"""C19 - results are independent of call history, hash seed and tensor-name
configuration."""
import json
import os
import pickle
import shutil
import subprocess
import sys
import tempfile
import adcio
import equivcheck as EQ
import numeric

LEVEL = "proof"
RULE = ("identical requests (second-order energy, second-order singles and "
        "doubles amplitudes, second-order one-particle expectation value, "
        "first-order ph,ph secular block; thorough: second-order block and "
        "third-order energy) are executed in fresh interpreter processes "
        "with PYTHONHASHSEED in {0,1,2,3} (thorough 0..7 and 31), after "
        "randomised prior call sequences (explicit index requests, generic "
        "index requests, cache pre-filling in different orders), and once "
        "from a scratch copy of the package with a different "
        "tensor_names.json; results are compared with the reference run as "
        "value (Coq validator) and as text after renaming contracted indices "
        "to the lowest available names; repeated psi / norm_factor requests "
        "must not share indices.  Non-trivial: every comparison; distinct by "
        "(request, hash seed, history seed, config)")
TRUSTED = ["the registry machine is tied to the code by C08's correspondence",
           "hash seed / dict and set iteration order are CPython behaviour "
           "that the Gallina model cannot exhibit: differential runs only "
           "(this part of the property is exploration, not proof)"]
ASSUMPTIONS = ["partial: proved are freshness/disjointness of generic "
               "indices over all histories, memo stability and value "
               "invariance under renaming; independence of hash seed and "
               "text equality are observed on the runs listed"]

VERIF = os.path.dirname(os.path.dirname(os.path.dirname(
    os.path.abspath(__file__))))


def run_worker(repo, hashseed, history_seed, n_prior, thorough,
               rename_back=None, acts=None):
    fd, out = tempfile.mkstemp(prefix="c19_", suffix=".pkl")
    os.close(fd)
    spec = {"package_root": repo, "harness": os.path.join(VERIF, "harness"),
            "history_seed": history_seed, "n_prior": n_prior,
            "thorough": thorough, "out": out, "rename_back": rename_back,
            "acts": acts}
    env = dict(os.environ)
    env["PYTHONHASHSEED"] = str(hashseed)
    env["PYTHONPATH"] = repo
    env["ADCGEN_LOG_LEVEL"] = "ERROR"
    p = subprocess.run(["/venv/bin/python",
                        os.path.join(VERIF, "harness", "c19_worker.py"),
                        json.dumps(spec)], capture_output=True, text=True,
                       env=env, timeout=1800)
    try:
        if p.returncode != 0:
            return None, p.stderr[-1500:]
        with open(out, "rb") as f:
            return pickle.load(f), None
    finally:
        try:
            os.remove(out)
        except OSError:
            pass


def run(ctx):
    rng = ctx.rng
    quick = ctx.tier == "quick"
    repo = os.environ.get("VERIF_REPO", "/repo")
    seeds = [0, 1, 2, 3] if quick else [0, 1, 2, 3, 4, 5, 6, 7, 31]
    ref, err = run_worker(repo, 0, 0, 0, not quick)
    if ref is None:
        ctx.violation("C19:worker-failed:reference", "reference run failed",
                      {"stderr": err}, False)
        return
    runs = []
    for hs in seeds:
        hist = rng.randrange(1 << 30)
        n_prior = rng.randint(3, 12)
        got, err = run_worker(repo, hs, hist, n_prior, not quick)
        runs.append((f"hashseed={hs},history={hist},prior={n_prior}", got,
                     err))
    # histories of mixed alpha/beta generic-index requests only
    for k in range(3 if quick else 8):
        hist = rng.randrange(1 << 30)
        n_prior = rng.randint(8, 40)
        got, err = run_worker(repo, k, hist, n_prior, not quick, acts="spin")
        runs.append((f"hashseed={k},spin-history={hist},prior={n_prior}", got,
                     err))
    # tensor-name configuration: scratch copy of the package
    tmp = tempfile.mkdtemp(prefix="c19_pkg_")
    try:
        shutil.copytree(os.path.join(repo, "adcgen"),
                        os.path.join(tmp, "adcgen"),
                        ignore=shutil.ignore_patterns("__pycache__"))
        cfgp = os.path.join(tmp, "adcgen", "tensor_names.json")
        cfg = json.load(open(cfgp))
        cfg0 = dict(cfg)
        # second configuration: names of different lengths
        for tag, new in (("renamed-tensors",
                          {"eri": "W", "fock": "F", "gs_amplitude": "u",
                           "orb_energy": "eps", "operator": "o",
                           "gs_density": "r"}),
                         ("renamed-tensors-long",
                          {"eri": "Wint", "fock": "Fk",
                           "gs_amplitude": "ampl", "orb_energy": "eps",
                           "operator": "op", "gs_density": "rho"})):
            cfg = dict(cfg0)
            back = {}
            for k, v in new.items():
                if k in cfg:
                    back[v] = cfg[k]
                    cfg[k] = v
            json.dump(cfg, open(cfgp, "w"))
            got, err = run_worker(tmp, 0, rng.randrange(1 << 30), 4,
                                  not quick, rename_back=back)
            runs.append((f"config={tag}", got, err))
    finally:
        shutil.rmtree(tmp, ignore_errors=True)

    pairs, meta = [], []
    for label, got, err in runs:
        if got is None:
            ctx.obligation(f"worker {label} ran", False, err)
            ctx.violation(f"C19:worker-failed:{label.split(',')[0]}",
                          "a differential run failed", {"run": label,
                                                        "stderr": err}, False)
            continue
        for what, names in got["share"].items():
            ctx.case(key=("share", label, what), kind="fresh-indices")
            if not ctx.obligation(f"{what} requested twice shares no index "
                                  f"({label})", not names, repr(names)):
                ctx.violation(f"C19:shared-indices:{what}",
                              f"two requests of {what} share indices",
                              {"run": label, "shared": names}, True)
        for nm_, o_ in (got.get("orders") or {}).items():
            ctx.case(key=("order", label, nm_), kind="order")
            if not ctx.obligation(f"perturbation order of {nm_} ({label})",
                                  o_ == ref["orders"].get(nm_),
                                  f"{o_} vs {ref['orders'].get(nm_)}"):
                ctx.violation(f"C19:order:{nm_}:{label.split(',')[0]}",
                              "the perturbation order reported for a tensor "
                              "depends on the history / configuration",
                              {"tensor": nm_, "run": label, "order": o_,
                               "reference": ref["orders"].get(nm_)}, True)
        for name, r in got["results"].items():
            # the request with explicit names taken from the generic pool
            # must equal the plain request (targets renamed to i, a)
            r0 = ref["results"]["amplitude_2_ph"
                                if name == "amplitude_2_ph_pool_names"
                                else name]
            pr = EQ.Pair(None, None, [], f"{name}|{label}", frac="e",
                         special={"e": numeric.orb_energy_special})
            pr.p1, pr.p2, pr.tg = r["terms"], r0["terms"], r0["targets"]
            pairs.append(pr)
            meta.append((name, label, r["text"], r0["text"],
                         collision(r["terms"], r0["targets"])
                         if got.get("pre_existing", {}).get(name) else None))
            ctx.case(key=(name, label), nontrivial=True,
                     sample={"request": name, "run": label,
                             "text": r["text"][:160]},
                     kind=f"{name}")
    EQ.run_pairs(ctx, "hist", pairs, shard=4)
    for pr, (name, label, text, text0, coll) in zip(pairs, meta):
        if coll and (not pr.ok or text != text0):
            # explicit numbered target name that was handed out as generic
            # (contracted) index of a cached expression before the request:
            # listed finding, see findings/C19_numbered_target_name.md
            ctx.obligation(f"value of {name} independent of {label}", False,
                           coll)
            ctx.violation(
                "C19:numbered-target-name-used-before-as-generic-index",
                "a request with an explicit numbered target name that the "
                "registry had handed out before (as contracted index of a "
                "cached expression) returns a term in which the target "
                "index also occurs as contracted index",
                {"request": name, "run": label, "collision": coll,
                 "difference": pr.diff, "text": text[:600],
                 "reference_text": text0[:600]}, pr.diff is not None)
            continue
        if not ctx.obligation(f"value of {name} independent of {label}",
                              bool(pr.ok), pr.err):
            ctx.violation(
                f"C19:value:{name}:{label.split(',')[0]}",
                "the same request has a different value after a different "
                "history / hash seed / tensor-name configuration",
                {"request": name, "run": label, "difference": pr.diff,
                 "text": text[:600], "reference_text": text0[:600]},
                pr.diff is not None)
        if label.startswith("config=") or name.endswith("pool_names"):
            continue      # names differ by construction
        if text != text0 and pr.ok and same_terms_up_to_names(pr):
            # the value is proved equal and the terms agree one by one up to
            # the choice of contracted index names inside symmetric index
            # groups: listed finding (substitute_contracted is not a
            # canonical form), see findings/C19_text_not_canonical.md
            ctx.obligation(f"text of {name} independent of {label}", False,
                           "differs only by contracted index names")
            ctx.violation(
                "C19:text:contracted-index-names-not-canonical",
                "the printed result differs only by which contracted index "
                "of a symmetric index group got which name",
                {"request": name, "run": label, "text": text[:1500],
                 "reference_text": text0[:1500]}, True)
            continue
        if not ctx.obligation(f"text of {name} independent of {label}",
                              text == text0):
            ctx.violation(
                f"C19:text:{name}:{label.split(',')[0]}",
                "the same request prints differently (after renaming "
                "contracted indices to the lowest available names) after a "
                "different history / hash seed",
                {"request": name, "run": label, "text": text[:1500],
                 "reference_text": text0[:1500]}, True)


def same_terms_up_to_names(pr):
    """both results consist of the same terms (same multiset of canonical
    forms with the same coefficients) - they differ at most by the names of
    contracted indices and the order"""
    import certfind
    from collections import Counter

    def keys(terms):
        out = Counter()
        for t in terms:
            m, full, _ = certfind.canonical_relabel(t, pr.tg)
            if not full:
                return None
            k, sg = certfind.canon_key_sign(adcio.rename_term(t, m))
            out[(repr(k), t[0] * sg)] += 1
        return out
    a, b = keys(pr.p1), keys(pr.p2)
    return a is not None and a == b


def collision(terms, targets):
    """a term in which a target index occurs more than once outside the
    orbital-energy fraction, or None"""
    tg = set(targets)
    for c, facs in terms:
        cnt = {}
        for a, inv in facs:
            if a[0] != "T" or a[2] == "e":
                continue
            for x in adcio.atom_indices(a):
                if x in tg:
                    cnt[x] = cnt.get(x, 0) + 1
        if any(n > 1 for n in cnt.values()):
            return repr((c, facs))[:400]
    return None


def replay(ctx, rep):
    print(rep)
    return 0
