"""C10 - reported permutational symmetries are true; decompositions lossless."""
import sys
from fractions import Fraction
from sympy import Add, Mul, S, Rational  # noqa: F401
from adcgen.expr_container import Expr
from adcgen.indices import Index, get_symbols
from adcgen import sort_expr
import adcio
import certfind
import gen_terms as G
import equivcheck as EQ
import numeric

LEVEL = "proof"
RULE = ("random tensor products (1-3 tensors, all tensor kinds and bra-ket "
        "symmetries, explicit/Einstein targets) probed with Term.symmetry / "
        "Obj.symmetry in the modes all/only_contracted/only_target, plus "
        "every tensor kind/block/bra-ket symmetry of the vocabulary alone "
        "with exponents 1-2 (3 thorough) through Obj.symmetry; "
        "expressions symmetrised over target permutations fed to "
        "exploit_perm_sym with all target-string / bra_ket_sym / result "
        "tensor settings; random sums fed to the by_* sort functions and "
        "filter_tensor.  Non-trivial: at least one reported symmetry / at "
        "least two parts; distinct by input text and settings")
TRUSTED = ["certificate finder (untrusted, re-checked by Coq)",
           "Python re-implementation of the sort keys in this plug-in is the "
           "oracle for 'every term lands in the part its key describes'"]
ASSUMPTIONS = ["tensor models respect the declared symmetries "
               "(ADC.Core.Canon.respects)",
               "completeness of the reported symmetry list is not part of "
               "the property and not checked"]

HEADER = adcio.COQ_HEADER + "From ADC Require Import Core.SwapAny Models.Symmetry.\n"


def coq_perms(ps):
    return adcio.coq_list(f"({a.coq()}, {b.coq()})" for a, b in ps)


def py_permute(terms, ps):
    """apply transpositions one after another (targets included)"""
    for a, b in ps:
        m = {a: b, b: a}
        terms = [adcio.rename_term(t, m) for t in terms]
    return terms


def py_scale(terms, f):
    return [(Fraction(f) * c, fs) for c, fs in terms]


def conv_perms(perms, ictx):
    return [(ictx.conv(p), ictx.conv(q)) for p, q in perms]


# ------------------------------------------------------------------
def symmetry_cases(ctx, quick):
    rng = ctx.rng
    cases = []
    # systematic family: every tensor kind / block / bra-ket symmetry of the
    # vocabulary, alone, with exponents 1, 2 (3), through Obj.symmetry
    from collections import Counter
    occ, virt = G.pool("o", 6), G.pool("v", 6)
    for name, kind, blocks, bkss in G.VOCAB:
        for up_sp, lo_sp in blocks:
            for bks in bkss:
                for ex in ((1, 2) if quick else (1, 2, 3)):
                    io, iv = iter(occ), iter(virt)
                    up = [next(io) if c == "o" else next(iv) for c in up_sp]
                    lo = [next(io) if c == "o" else next(iv) for c in lo_sp]
                    t = G.make_tensor(name, kind, up, lo, bks) ** ex
                    obj = Expr(t).terms[0].objects[0]
                    cnt = Counter(s_.space_and_spin for s_ in obj.idx)
                    if max(cnt.values(), default=0) > 4:
                        continue
                    try:
                        sym = obj.symmetry()
                    except Exception as ex_:
                        ctx.violation(f"C10:symmetry-exception:{t}",
                                      f"Obj.symmetry raised {ex_!r}",
                                      {"term": str(t)}, False)
                        continue
                    tgs = list(dict.fromkeys(obj.idx))
                    cases.append((f"obj-pow{ex}:all",
                                  Expr(obj.sympy, target_idx=tgs), tgs, sym))
    n = 90 if quick else 500
    for k in range(n):
        occ, virt = G.pool("o", 6), G.pool("v", 6)
        ntg = rng.choice([(0, 0), (1, 1), (2, 2), (2, 0), (0, 2), (2, 1)])
        tg = occ[:ntg[0]] + virt[:ntg[1]]
        pools = {"o": occ[:ntg[0] + 3], "v": virt[:ntg[1] + 3]}
        t = G.random_term(rng, rng.randint(1, 3), pools,
                          deltas=rng.choice([0, 0, 1]), allow_pow=True)
        t = t * G.random_coef(rng)
        if t == 0:
            continue
        E = Expr(t, target_idx=tg)
        mode = rng.choice(["all", "only_contracted", "only_target"])
        term = E.terms[0]
        # the library enumerates products of transpositions over the index
        # list (with multiplicity in mode 'all'): keep that list small, the
        # enumeration is factorial (a performance matter, not a property)
        from collections import Counter
        cnt_all = Counter(s_.space_and_spin for s_ in term.idx)
        if mode == "all" and max(cnt_all.values(), default=0) > 4:
            mode = "only_contracted"
        cnt_c = Counter(s_.space_and_spin for s_ in term.contracted)
        if mode == "only_contracted" and max(cnt_c.values(), default=0) > 4:
            mode = "only_target"
        kw = {} if mode == "all" else {mode: True}
        try:
            if rng.random() < 0.25 and len(term.tensors) >= 1:
                obj = rng.choice(term.tensors)
                sym = obj.symmetry(**kw)
                # Obj.symmetry analyses the object alone with its own indices
                # as targets (only_target mode of a fresh expression)
                if mode == "all":
                    tgs = list(dict.fromkeys(obj.idx))
                elif mode == "only_contracted":
                    tgs = list(term.contracted)
                else:
                    tgs = list(term.target)
                subject = Expr(obj.sympy, target_idx=tgs)
                label = f"obj:{mode}"
            else:
                sym = term.symmetry(**kw)
                if mode == "all":
                    # all indices take part (targets and contracted may be
                    # exchanged): the statement is pointwise, every index free
                    tgs = list(dict.fromkeys(term.idx))
                    subject = Expr(t, target_idx=tgs)
                else:
                    subject = E
                    tgs = list(tg)
                label = f"term:{mode}"
        except Exception as ex:
            ctx.violation(f"C10:symmetry-exception:{k}",
                          f"symmetry raised {ex!r}", {"term": str(t)}, False)
            continue
        cases.append((label, subject, tgs, sym))
    return cases


def run_symmetry(ctx, quick):
    cases = symmetry_cases(ctx, quick)
    coq_cases, meta = [], []
    for label, subject, tgs, sym in cases:
        ictx = adcio.IdxCtx()
        try:
            p = adcio.conv_expr(subject, ictx)
        except adcio.Unsupported as ex:
            ctx.note(f"unsupported {ex}")
            continue
        tg = [ictx.conv(x) for x in tgs]
        ctx.case(key=(str(subject.sympy), repr(tg), label),
                 nontrivial=len(sym) > 0,
                 sample={"term": str(subject.sympy)[:200], "targets": repr(tg),
                         "mode": label,
                         "reported": {str(k): v for k, v in sym.items()}},
                 kind=f"{label}:n{min(len(sym), 6)}")
        for perms, f in sym.items():
            ps = conv_perms(perms, ictx)
            perm_p = py_permute(p, ps)
            c1, _ = certfind.expr_cert(perm_p, tg)
            c2, _ = certfind.expr_cert(py_scale(p, f), tg)
            coq_cases.append(
                f"symmetry_check {adcio.coq_list(x.coq() for x in tg)} "
                f"{coq_perms(ps)} {adcio.coq_q(f)} {adcio.coq_cert(c1)} "
                f"{adcio.coq_cert(c2)} {adcio.coq_expr(p)}")
            meta.append((label, subject, tg, perms, f, p, perm_p))
    vals, errs = ctx.coq_eval("sym", coq_cases, header=HEADER, shard=80)
    for v, (label, subject, tg, perms, f, p, perm_p) in zip(vals, meta):
        ok = (v == "true")
        name = f"reported symmetry {perms}:{f} of {str(subject.sympy)[:80]}"
        if not ctx.obligation(name, ok, v):
            diff = None
            try:
                diff = numeric.find_difference(perm_p, py_scale(p, f), tg,
                                               ctx.rng)
            except Exception as ex:
                ctx.note(f"numeric search failed {ex!r}")
            ctx.violation(
                f"C10:symmetry:{label}:{str(subject.sympy)[:120]}:{perms}:{f}",
                "a reported permutational symmetry is not proved "
                "(symmetry_check rejected it)",
                {"term": str(subject.sympy), "targets": repr(tg),
                 "perms": str(perms), "factor": f, "difference": diff,
                 "correspondence": "Models/Symmetry.v symmetry_check"},
                diff is not None)


# ------------------------------------------------------------------
def symmetrised_expr(rng):
    """expression with known target symmetry: sum over a subgroup of target
    permutations with signs, plus possibly an unsymmetric extra term"""
    occ, virt = G.pool("o", 7), G.pool("v", 7)
    shape = rng.choice(["ia,jb", "ij,ab", "ijab", "ia", "ij", "ijk,abc",
                        "ijabpq", "ijabpq"])
    if shape == "ijabpq":
        # three index spaces with two targets each: the probed permutations
        # do not form a group (no pair products)
        gen = G.pool("g", 4)
        tg_names, tg = "ijabpq", occ[:2] + virt[:2] + gen[:2]
        gens = [[(occ[0], occ[1])], [(virt[0], virt[1])],
                [(gen[0], gen[1])]]
        facs = [G.NonSymmetricTensor(nm, (x,)) for nm, x in
                zip(["n1", "n2", "n3", "n4", "n5", "n6"], tg)]
        e = 0
        for _ in range(rng.randint(1, 2)):
            rest = G.random_term(rng, rng.randint(0, 1),
                                 {"o": occ[2:5], "v": virt[2:5]},
                                 names=["V", "t1", "d"])
            base = Mul(*facs) * rest
            if rng.random() < 0.5:
                base = G.NonSymmetricTensor("n", tuple(tg)) * rest
            sign = rng.choice([1, -1])
            cur = [(base, 1)]
            for g in [g for g in gens if rng.random() < 0.85]:
                new = []
                for tm, s_ in cur:
                    m = {}
                    for a, b in g:
                        m.update({a: b, b: a})
                    new.append((tm.xreplace(m), s_ * sign))
                cur += new
            c = G.random_coef(rng)
            e += Add(*[c * s_ * tm for tm, s_ in cur])
        return e, tg_names, tg
    if shape in ("ia,jb",):
        tg_names, tg = "ia,jb", [occ[0], virt[0], occ[1], virt[1]]
        gens = [[(occ[0], occ[1]), (virt[0], virt[1])]]
    elif shape in ("ij,ab", "ijab"):
        tg_names, tg = shape, [occ[0], occ[1], virt[0], virt[1]]
        gens = [[(occ[0], occ[1])], [(virt[0], virt[1])]]
    elif shape == "ia":
        tg_names, tg = "ia", [occ[0], virt[0]]
        gens = []
    elif shape == "ij":
        tg_names, tg = "ij", [occ[0], occ[1]]
        gens = [[(occ[0], occ[1])]]
    else:
        tg_names, tg = "ijk,abc", occ[:3] + virt[:3]
        gens = [[(occ[0], occ[1])], [(occ[1], occ[2])], [(virt[0], virt[1])]]
    n_o = sum(1 for x in tg if x.space == "occ")
    n_v = len(tg) - n_o
    pools = {"o": occ[:max(n_o + 2, 3)], "v": virt[:max(n_v + 2, 3)]}
    e = 0
    for _ in range(rng.randint(1, 3)):
        base = G.random_term(rng, rng.randint(1, 3), pools,
                             names=["V", "f", "t1", "t2", "A", "B", "X", "Y",
                                    "d"])
        if not all(x in base.atoms(Index) for x in tg):
            # make sure all targets occur: multiply with a carrier tensor
            missing = [x for x in tg if x not in base.atoms(Index)]
            base = base * G.NonSymmetricTensor("n", tuple(missing))
        sign = rng.choice([1, -1])
        cur = [(base, 1)]
        use = [g for g in gens if rng.random() < 0.7]
        for g in use:
            new = []
            for tm, s in cur:
                m = {}
                for a, b in g:
                    m.update({a: b, b: a})
                new.append((tm.xreplace(m), s * sign))
            cur += new
        c = G.random_coef(rng)
        e += Add(*[c * s * tm for tm, s in cur])
    return e, tg_names, tg


def run_exploit(ctx, quick):
    rng = ctx.rng
    n = 40 if quick else 250
    coq_cases, meta = [], []
    for k in range(n):
        e, tg_names, tg = symmetrised_expr(rng)
        if e == 0:
            continue
        E = Expr(e, target_idx=tg)
        bks = rng.choice([0, 0, 1, -1]) if "," in tg_names else 0
        anti = rng.random() < 0.7
        use_names = rng.random() < 0.8
        try:
            res = sort_expr.exploit_perm_sym(
                E, target_indices=tg_names if use_names else None,
                bra_ket_sym=bks if use_names else 0,
                antisymmetric_result_tensor=anti)
        except Exception as ex:
            ctx.violation(f"C10:exploit-exception:{k}",
                          f"exploit_perm_sym raised {ex!r}",
                          {"expr": str(e), "targets": tg_names}, False)
            continue
        ictx = adcio.IdxCtx()
        try:
            p = adcio.conv_expr(E, ictx)
            tgc = [ictx.conv(x) for x in E.provided_target_idx]
            parts, flat = [], []
            for sym, sub in res.items():
                psub = adcio.conv_expr(sub, ictx)
                syms = [(conv_perms(perms, ictx), f) for perms, f in sym]
                parts.append((syms, psub))
                flat += psub
                for ps, f in syms:
                    flat += py_scale(py_permute(psub, ps), f)
        except adcio.Unsupported as ex:
            ctx.note(f"unsupported {ex}")
            continue
        c1, _ = certfind.expr_cert(flat, tgc)
        c2, _ = certfind.expr_cert(p, tgc)
        parts_coq = adcio.coq_list(
            "(" + adcio.coq_list(f"({coq_perms(ps)}, {adcio.coq_q(f)})"
                                 for ps, f in syms)
            + ", " + adcio.coq_expr(psub) + ")" for syms, psub in parts)
        tgl = adcio.coq_list(x.coq() for x in tgc)
        coq_cases.append(
            f"(reassemble_ok {tgl} {parts_coq} && check_equiv {tgl} "
            f"{adcio.coq_cert(c1)} {adcio.coq_cert(c2)} (reassemble "
            f"{parts_coq}) {adcio.coq_expr(p)})%bool")
        meta.append((E, tg_names, bks, anti, res, flat, p, tgc))
        ctx.case(key=(str(e), tg_names, bks, anti, use_names),
                 nontrivial=len(res) >= 1 and any(k_ for k_ in res),
                 sample={"expr": str(e)[:300], "targets": tg_names,
                         "bra_ket_sym": bks, "antisym_result": anti,
                         "parts": {str(k_): str(v.sympy)[:120]
                                   for k_, v in res.items()}},
                 kind=f"exploit:{tg_names}:parts{min(len(res), 5)}")
    vals, errs = ctx.coq_eval("exploit", coq_cases, header=HEADER, shard=20)
    for v, (E, tg_names, bks, anti, res, flat, p, tgc) in zip(vals, meta):
        ok = (v == "true")
        if not ctx.obligation(f"exploit_perm_sym lossless {tg_names} "
                              f"{str(E.sympy)[:60]}", ok, v):
            diff = None
            try:
                diff = numeric.find_difference(flat, p, tgc, ctx.rng)
            except Exception as ex:
                ctx.note(f"numeric search failed {ex!r}")
            ctx.violation(
                f"C10:exploit:{tg_names}:{bks}:{anti}:{str(E.sympy)[:150]}",
                "applying the reported permutation operators to the parts "
                "returned by exploit_perm_sym is not proved to reproduce "
                "the expression",
                {"expr": str(E.sympy), "targets": tg_names,
                 "bra_ket_sym": bks, "antisymmetric_result_tensor": anti,
                 "parts": {str(k_): str(v_.sympy) for k_, v_ in res.items()},
                 "difference": diff}, diff is not None)


# ------------------------------------------------------------------
def _tens_idx(a):
    # Obj.idx: amplitudes list lower before upper
    if a[1] == "KAmp":
        return list(a[5]) + list(a[4])
    return list(a[4]) + list(a[5])


def _block(idxs):
    sp = "".join(i.space[0] for i in idxs)
    spin = "".join(i.spin if i.spin else "n" for i in idxs)
    return sp if all(c == "n" for c in spin) else f"{sp}_{spin}"


def key_delta_types(t, tg):
    ks = sorted(_block([a[1], a[2]]) for a, inv in t[1] if a[0] == "D")
    return tuple(ks) if ks else ("none",)


def key_delta_indices(t, tg):
    ks = sorted("".join(i.name + (f"_{i.spin}" if i.spin else "")
                        for i in (a[1], a[2]))
                for a, inv in t[1] if a[0] == "D")
    return tuple(ks) if ks else ("none",)


def key_tensor_block(name):
    def f(t, tg):
        ks = sorted(_block(_tens_idx(a)) for a, inv in t[1]
                    if a[0] == "T" and a[2] == name)
        return tuple(ks) if ks else ("none",)
    return f


def key_tensor_target_block(name):
    def f(t, tg):
        ks = []
        for a, inv in t[1]:
            if a[0] == "T" and a[2] == name:
                tt = [i for i in _tens_idx(a) if i in tg]
                if not tt:
                    ks.append("none")
                    continue
                b = "".join(i.space[0] for i in tt)
                if any(i.spin for i in tt):
                    b += "_" + "".join(i.spin if i.spin else "n" for i in tt)
                ks.append(b)
        return tuple(sorted(ks)) if ks else (f"no_{name}",)
    return f


def key_tensor_target_indices(name):
    def f(t, tg):
        ks = []
        for a, inv in t[1]:
            if a[0] == "T" and a[2] == name:
                s = "".join(i.name for i in _tens_idx(a) if i in tg)
                ks.append(s if s else "none")
        return tuple(sorted(ks)) if ks else (f"no_{name}",)
    return f


def run_sorting(ctx, quick):
    rng = ctx.rng
    n = 40 if quick else 200
    pairs, meta = [], []
    for k in range(n):
        occ, virt = G.pool("o", 6), G.pool("v", 6)
        spin = rng.random() < 0.4
        if spin:
            occ = get_symbols("ijklmn", "ababab")
            virt = get_symbols("abcdef", "ababab")
        tg = occ[:1] + virt[:1]
        pools = {"o": occ[:5], "v": virt[:5]}
        terms = []
        for _ in range(rng.randint(2, 6)):
            t = G.random_term(rng, rng.randint(1, 3), pools,
                              deltas=rng.choice([0, 1, 2]))
            terms.append(G.random_coef(rng) * t)
        e = Add(*terms)
        if e == 0:
            continue
        if len(terms) >= 3 and rng.random() < 0.35:
            # a summand that still carries an unexpanded bracket
            from sympy import Mul as _Mul, Symbol as _Symbol
            e = Add(*terms[2:]) + _Mul(Add(terms[0], terms[1]),
                                       _Symbol("zq"), evaluate=False)
        E = Expr(e, target_idx=tg)
        tname = rng.choice(["V", "t1", "t2", "f", "A", "B", "X", "n", "zz"])
        fns = [("by_delta_types", lambda x: sort_expr.by_delta_types(x),
                key_delta_types),
               ("by_delta_indices", lambda x: sort_expr.by_delta_indices(x),
                key_delta_indices),
               ("by_tensor_block",
                lambda x: sort_expr.by_tensor_block(x, tname),
                key_tensor_block(tname)),
               ("by_tensor_target_block",
                lambda x: sort_expr.by_tensor_target_block(x, tname),
                key_tensor_target_block(tname)),
               ("by_tensor_target_indices",
                lambda x: sort_expr.by_tensor_target_indices(x, tname),
                key_tensor_target_indices(tname))]
        # every sort function on every expression
        for fname, fn, keyfn in fns:
            try:
                res = fn(E.copy())
            except Exception as ex:
                ctx.violation(f"C10:sort-exception:{fname}:{k}",
                              f"{fname} raised {ex!r}", {"expr": str(e)},
                              False)
                continue
            total = 0
            for part in res.values():
                total = total + getattr(part, "sympy", part)
            from sympy import expand as _expand
            pairs.append(EQ.Pair(Expr(_expand(total), target_idx=tg),
                                 Expr(_expand(E.sympy), target_idx=tg), tg,
                                 f"{fname}:{k}"))
            meta.append((fname, tname, keyfn, res, E, tg))
    # filter_tensor: kept + dropped == original
    filt = sys.modules["adcgen.simplify"].filter_tensor
    for k in range(n // 2):
        occ, virt = G.pool("o", 6), G.pool("v", 6)
        tg = occ[:1] + virt[:1]
        pools = {"o": occ[:5], "v": virt[:5]}
        e = Add(*[G.random_coef(rng) * G.random_term(rng, rng.randint(1, 3),
                                                     pools)
                  for _ in range(rng.randint(2, 6))])
        if e == 0:
            continue
        E = Expr(e, target_idx=tg)
        names = rng.sample(["V", "t1", "t2", "f", "A", "B", "X", "Y"],
                           rng.randint(1, 2))
        if rng.random() < 0.3:
            names = names + names[:1]
        strict = rng.choice(["low", "medium", "high"])
        ign = rng.random() < 0.5
        kept = filt(E, names, strict=strict, ignore_amplitudes=ign)
        # independent classification of the input terms
        ictx = adcio.IdxCtx()
        try:
            p = adcio.conv_expr(E, ictx)
            pk = adcio.conv_expr(kept, ictx)
        except adcio.Unsupported:
            continue
        from collections import Counter
        amp_prefix = ("t", "X", "Y")

        def is_amp(nm):
            tn = sys.modules["adcgen.tensor_names"]
            return tn.is_adc_amplitude(nm) or tn.is_t_amplitude(nm)

        def keep(t):
            avail = [a[2] for a, inv in t[1] if a[0] == "T"]
            if strict == "low":
                return all(x in avail for x in set(names))
            if strict == "medium":
                return Counter(names).items() <= Counter(avail).items()
            if ign:
                req = [x for x in names if is_amp(x)]
                ignored = {x for x in avail if is_amp(x) and x not in req}
                avail = [x for x in avail if x not in ignored]
            return Counter(names) == Counter(avail)
        expect = [t for t in p if keep(t)]
        ok = (sorted(map(repr, expect)) == sorted(map(repr, pk)))
        ctx.case(key=("filter", str(e), tuple(names), strict, ign),
                 nontrivial=0 < len(pk) < len(p), kind=f"filter:{strict}")
        if not ctx.obligation(f"filter_tensor keeps exactly the described "
                              f"terms {k}", ok):
            ctx.violation(
                f"C10:filter:{strict}:{ign}:{names}:{str(e)[:120]}",
                "filter_tensor kept a different set of terms than its "
                "documentation describes",
                {"expr": str(e), "names": names, "strict": strict,
                 "ignore_amplitudes": ign, "kept": str(kept.sympy),
                 "expected_terms": [repr(t) for t in expect]}, True)
    EQ.run_pairs(ctx, "sort", pairs, shard=30)
    for p, (fname, tname, keyfn, res, E, tg) in zip(pairs, meta):
        ctx.case(key=(fname, tname, str(E.sympy)),
                 nontrivial=len(res) >= 2,
                 sample={"fn": fname, "tensor": tname,
                         "expr": str(E.sympy)[:200],
                         "keys": [str(k_) for k_ in res]},
                 kind=f"{fname}:parts{min(len(res), 5)}")
        if p.ok is None:
            ctx.note(f"{p.label}: {p.err}")
            continue
        if not ctx.obligation(f"{p.label} parts sum to the expression", p.ok,
                              p.err):
            ctx.violation(f"C10:sort-sum:{fname}:{tname}:{str(E.sympy)[:120]}",
                          f"the parts returned by {fname} do not sum to the "
                          "input", {"case": EQ.describe(p),
                                    "difference": p.diff},
                          p.diff is not None)
        # every term in the part its key describes
        bad = []
        for key, part in res.items():
            ictx = adcio.IdxCtx()
            try:
                # fully expanded: a bracket left in a part must not hide the
                # terms from the key oracle
                from sympy import expand as _expand
                pp = adcio.conv_expr(
                    Expr(_expand(getattr(part, "sympy", part)),
                         target_idx=tg), ictx)
            except adcio.Unsupported:
                continue
            tgc = {ictx.conv(x) for x in tg}
            for t in pp:
                if keyfn(t, tgc) != tuple(key):
                    bad.append((str(key), repr(t), keyfn(t, tgc)))
        if not ctx.obligation(f"{p.label} keys describe their terms", not bad,
                              repr(bad[:3])):
            ctx.violation(f"C10:sort-key:{fname}:{tname}:{str(E.sympy)[:120]}",
                          f"{fname} put a term into a part whose key does "
                          "not describe it", {"expr": str(E.sympy),
                                              "tensor": tname,
                                              "bad": bad[:5]}, True)


def run_denom_sym(ctx, quick):
    """symmetries reported for a term with orbital-energy denominator
    (EriOrbenergy.denom_eri_sym: common symmetry of remainder and
    denominator), decided by the fraction validator, pointwise (all indices
    free); the same stream runs under C13"""
    from adcgen.eri_orbenergy import EriOrbenergy
    from adcgen.sympy_objects import (AntiSymmetricTensor, Amplitude,
                                      NonSymmetricTensor)
    rng = ctx.rng
    occ, virt = G.pool("o", 6), G.pool("v", 6)
    i_, j_, k_ = occ[:3]
    a_, b_, c_ = virt[:3]

    def e_(x):
        return NonSymmetricTensor("e", (x,))
    rems = [AntiSymmetricTensor("V", (i_, j_), (a_, b_), 1),
            Amplitude("t1", (a_, b_), (i_, j_)),
            AntiSymmetricTensor("V", (i_, k_), (a_, c_), 1)
            * Amplitude("t1", (b_, c_), (j_, k_))]
    dens = [e_(i_) - e_(j_), e_(a_) - e_(b_),
            e_(i_) + e_(j_) - e_(a_) - e_(b_),
            (e_(i_) - e_(j_)) * (e_(a_) - e_(b_)), (e_(a_) - e_(b_)) ** 3]
    pairs = []
    for rem_ in rems:
        for den_ in dens:
            term = G.random_coef(rng) * rem_ / den_
            allidx = sorted(term.atoms(Index), key=lambda s_: s_.name)
            try:
                sym_ = EriOrbenergy(Expr(term).terms[0]).denom_eri_sym()
            except Exception as ex:
                ctx.violation(f"C10:denom_eri_sym:exception:{str(term)[:100]}",
                              f"denom_eri_sym raised {ex!r}",
                              {"term": str(term)}, False)
                continue
            for perms_, f_ in sym_.items():
                if f_ is None:
                    continue
                perm_t = term
                for p1, p2 in perms_:
                    perm_t = perm_t.xreplace({p1: p2, p2: p1})
                pairs.append(EQ.Pair(
                    Expr(perm_t, target_idx=allidx),
                    Expr(f_ * term, target_idx=allidx), allidx,
                    f"denom_eri_sym:{perms_}:{f_}:{str(term)[:80]}",
                    special={"e": numeric.orb_energy_special}, frac="e"))
                ctx.case(key=("denom_eri_sym", str(term), str(perms_)),
                         nontrivial=True, kind="denom_eri_sym")
    EQ.run_pairs(ctx, "densym", pairs, shard=20, header=adcio.COQ_HEADER3)
    for p in pairs:
        if not ctx.obligation(f"reported common symmetry {p.label[:90]}",
                              bool(p.ok), p.err):
            ctx.violation(f"C10:{p.label[:160]}",
                          "a symmetry reported for a term with orbital-energy "
                          "denominator does not hold",
                          {"relation": p.label, "difference": p.diff,
                           "error": p.err}, p.diff is not None)


def run(ctx):
    quick = ctx.tier == "quick"
    run_symmetry(ctx, quick)
    run_exploit(ctx, quick)
    run_sorting(ctx, quick)
    run_denom_sym(ctx, quick)


def replay(ctx, rep):
    print(rep)
    return 0
