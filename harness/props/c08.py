"""C08 - index renaming is capture-free and yields the documented names.

Functional correspondence of the Gallina models ADC.Models.Substitution /
ADC.Models.Registry with adcgen (order_substitutions, Container.permute,
get_lowest_avail_indices, minimize_tensor_indices, Term.substitute_contracted,
Term.substitute_with_generic, the Indices registry, get_symbols), the direct
check of the property clauses on every observed input/output pair, and the
kernel-checked value equality (ADC.Core.Equiv.check_equiv) of the renamed terms.
"""
import itertools
import sys

import sympy
from sympy import Mul, S

import adcio
import adcgen.symmetry  # noqa: F401
import equivcheck as EQ
import gen_terms as G
from adcgen.expr_container import Expr
from adcgen.indices import (Index, Indices, get_symbols, order_substitutions,
                            get_lowest_avail_indices, minimize_tensor_indices)
from adcgen.misc import Singleton
from adcgen.sympy_objects import NonSymmetricTensor

LEVEL = "proof"
EXHAUSTIVE = True
RULE = ("order_substitutions: every dict on <= 5 keys out of i,j,k,a,b with "
        "values in i,j,k,a,b,p,q in ascending and descending insertion order "
        "(exhaustive, 65534 cases) + random dicts on 12 indices in random "
        "insertion order; non-trivial = at least one non-identity pair. "
        "permute: random sequences of 0-8 transpositions (incl. repeated, "
        "overlapping, P_pp) on random tensor products; lowest_avail: all n <= 20 "
        "x random used lists (pool names, foreign names, duplicates); registry: "
        "random histories of <= 200 get_indices / get_generic_indices / "
        "get_symbols calls (spins '', a, b; explicit requests for generic names "
        "such as i5 before and after generation; malformed names) on a fresh "
        "Indices instance; substitute_contracted / substitute_with_generic / "
        "minimize_tensor_indices: random tensor products with numbered and "
        "spin-labelled indices, explicit and Einstein targets.  distinct = "
        "distinct input text")
TRUSTED = [
    "the per-case comparison functions of coq/Models/C08Check.v (boolean "
    "equality of model output and observed output, evaluated by vm_compute)",
    "harness wrappers recording the dict handed to order_substitutions and the "
    "kwargs/return value of get_generic_indices (installed from the harness, "
    "no source change)",
    "certificate finder harness/certfind.py is untrusted (Coq re-checks)",
]
ASSUMPTIONS = [
    "index names are a letter followed by an optional positive decimal number "
    "without leading zeros (the model identifies a name with (letter, number), "
    "number 0 = bare letter); 'i0' / 'i03' are outside the model",
    "a Python dict is modelled as an association list in insertion order with "
    "distinct keys; object identity of Index objects is modelled by a uid",
    "the temporaries Index('p') created by order_substitutions are distinct "
    "from every existing object (Python object identity of sympy Dummy)",
    "value clause: tensor models respect the declared tensor symmetries "
    "(ADC.Core.Canon.respects); sympy's subs/xreplace is observed, not modelled",
]

U0 = 1000          # uid of the first temporary in the model runs
HDR = ("From Coq Require Import ZArith NArith List String Bool.\n"
       "From ADC Require Import Core.Scalar Core.Index Core.Expr Core.Swap "
       "Core.Canon Core.Equiv Models.Substitution Models.Registry "
       "Models.C08Check.\nImport ListNotations. Open Scope bool_scope.\n")
SPACE = {"general": "Gen", "occ": "Occ", "virt": "Virt"}
SPIN = {"": "NoSpin", "a": "Alpha", "b": "Beta"}
SORTS = [(sp, s) for sp in ("occ", "virt", "general") for s in ("", "a", "b")]


# --------------------------------------------------------------------------
# serialisation
# --------------------------------------------------------------------------
def split_name(name):
    num = name[1:]
    if num and (not num.isdigit() or num[0] == "0"):
        raise ValueError(f"name {name!r} outside the model")
    return ord(name[0]), int(num) if num else 0


class TmpCtx:
    """numbers the raw (non-registry) indices in order of first appearance"""

    def __init__(self):
        self.tmp = {}

    def idx(self, s):
        letter, num = split_name(s.name)
        if Indices().is_cached_index(s):
            uid = 0
        else:
            uid = U0 + self.tmp.setdefault(s, len(self.tmp))
        return (f"(Idx {SPACE[s.space]} {SPIN[s.spin]} {letter} {num} {uid})")

    def subs(self, lst):
        return adcio.coq_list(f"({self.idx(a)}, {self.idx(b)})"
                              for a, b in lst)

    def idxl(self, lst):
        return adcio.coq_list(self.idx(s) for s in lst)


def coq_name(name):
    letter, num = split_name(name)
    return f"({letter}%N, {num}%N)"


def coq_names(names):
    return adcio.coq_list(coq_name(n) for n in names)


def coq_sort(space, spin):
    return f"({SPACE[space]}, {SPIN[spin]})"


def unparse_bool(v):
    return v == "true"


def parse_natlist(v):
    """'[1; 5]' / '[]' / '[3]%nat' -> list of int (None if unparsable)"""
    if v is None:
        return None
    v = v.replace("%nat", "").strip()
    if not (v.startswith("[") and v.endswith("]")):
        return None
    body = v[1:-1].strip()
    return [int(x) for x in body.split(";")] if body else []


# --------------------------------------------------------------------------
# A. order_substitutions
# --------------------------------------------------------------------------
def run_order_substitutions(ctx):
    rng = ctx.rng
    quick = ctx.tier == "quick"
    U = get_symbols("ijkabpq")
    U12 = get_symbols(["i", "j", "k", "l", "a", "b", "c", "p", "q", "i3"]) + \
        get_symbols(["i", "a"], "ab")
    cases = []   # (universe tag, dict items, observed list, images)

    tensors, codes = {}, {}

    def observe(univ, items, tag):
        if tag not in tensors:
            tensors[tag] = NonSymmetricTensor("n", tuple(univ))
            codes[tag] = {s: n for n, s in enumerate(univ)}
        code = codes[tag]
        d = dict(items)
        assert len(d) == len(items)
        lst = order_substitutions(d)
        tm = {}

        def enc(s):
            if s in code:
                return code[s]
            return 100 + tm.setdefault(s, len(tm))
        obs = [(enc(a), enc(b)) for a, b in lst]
        img = tensors[tag].subs(lst)
        img = list(img.indices) if isinstance(img, NonSymmetricTensor) else None
        sim = [d.get(s, s) for s in univ]
        ok = img is not None and all(x is y for x, y in zip(img, sim))
        m = [(code[a], code[b]) for a, b in items]
        key = f"{tag}:" + ",".join(f"{a}>{b}" for a, b in m)
        nontrivial = any(a != b for a, b in m)
        ctx.case(key=key, nontrivial=nontrivial,
                 sample={"dict": repr(items), "ordered": repr(lst)}
                 if len(m) == 4 and len(tm) == 1 and len(ctx.samples) < 3
                 else None,
                 kind=f"order_substitutions:{tag}:keys{min(len(m), 9)}:"
                      f"temps{len(tm)}")
        if not ctx.obligation(f"sequential = simultaneous {key}", ok):
            ctx.violation(
                f"C08:order_substitutions:{key}",
                "applying order_substitutions(dict) one after another differs "
                "from the simultaneous substitution",
                {"dict": repr(items), "ordered": repr(lst),
                 "sequential": repr(img), "simultaneous": repr(sim),
                 "universe": repr(univ)}, True)
        imgc = [enc(s) for s in img] if img is not None else []
        cases.append((tag, m, obs, imgc, key, items, lst))

    # exhaustive part
    for r in range(1, 6):
        for keys in itertools.combinations(range(5), r):
            for vals in itertools.product(range(7), repeat=r):
                items = [(U[k], U[v]) for k, v in zip(keys, vals)]
                observe(U, items, "ex")
                if r > 1:
                    observe(U, items[::-1], "ex")
                else:       # one key: the two insertion orders coincide
                    observe(U, items, "ex")
    # random larger dicts, random insertion order
    n_rand = 2000 if quick else 20000
    for _ in range(n_rand):
        r = rng.randint(1, 10)
        keys = rng.sample(range(12), r)
        shape = rng.random()
        if shape < 0.3:      # permutation of the keys (cycles)
            vals = keys[:]
            rng.shuffle(vals)
        elif shape < 0.5:    # chains
            vals = keys[1:] + [rng.randrange(12)]
        else:
            vals = [rng.choice(keys) if rng.random() < 0.6
                    else rng.randrange(12) for _ in keys]
        items = [(U12[k], U12[v]) for k, v in zip(keys, vals)]
        observe(U12, items, "rnd")

    def lit(c):
        _, m, obs, img, *_ = c
        ps = lambda l: "[" + ";".join(f"({a},{b})" for a, b in l) + "]"  # noqa
        return f"({ps(m)},{ps(obs)},[" + ";".join(map(str, img)) + "])"

    for tag, univ in (("ex", U), ("rnd", U12)):
        sel = [c for c in cases if c[0] == tag]
        tctx = TmpCtx()
        defs = (f"Definition U := {tctx.idxl(univ)}.\n"
                "Local Open Scope nat_scope.\n")
        B = 1500
        batches = [sel[k:k + B] for k in range(0, len(sel), B)]
        terms = [f"os_check_all U {U0}%N " + "[" + ";".join(map(lit, b)) + "]"
                 for b in batches]
        vals, _ = ctx.coq_eval(f"os_{tag}", terms, header=HDR, defs=defs,
                               shard=1)
        for b, v in zip(batches, vals):
            bad = parse_natlist(v)
            ok = ctx.obligation(
                f"model order_substitutions = implementation ({tag}, "
                f"{len(b)} dicts)", bad == [], f"coq value {v!r}")
            if ok:
                continue
            for pos in (bad if bad else [0]):
                c = b[min(pos, len(b) - 1)]
                ctx.violation(
                    f"C08:order_substitutions-model:{c[4]}",
                    "order_substitutions returned a list different from the "
                    "model (or the Coq evaluation failed)",
                    {"dict": repr(c[5]), "ordered": repr(c[6]), "coq": v,
                     "correspondence": "Models.Substitution."
                     "order_substitutions"}, False)


# --------------------------------------------------------------------------
# B. Container.permute
# --------------------------------------------------------------------------
class Recorder:
    """records the calls of order_substitutions made by expr_container"""

    def __init__(self):
        self.calls = []
        self.mod = sys.modules["adcgen.expr_container"]
        self.orig = self.mod.order_substitutions

    def __enter__(self):
        def wrapper(d):
            items = list(d.items())
            out = self.orig(d)
            self.calls.append((items, list(out)))
            return out
        self.mod.order_substitutions = wrapper
        return self

    def __exit__(self, *a):
        self.mod.order_substitutions = self.orig


def run_permute(ctx):
    rng = ctx.rng
    quick = ctx.tier == "quick"
    n_cases = 1500 if quick else 6000
    occ = get_symbols("ijklmn") + get_symbols(["i3", "j1"])
    virt = get_symbols("abcdef") + get_symbols(["a2"])
    gen = get_symbols("pq")
    occ_s = get_symbols("ij", "ab") + get_symbols("ij", "ba")
    cases, info = [], []
    for n in range(n_cases):
        style = rng.random()
        if style < 0.5:       # tensor product, same-space permutations
            pools = {"o": occ[:rng.randint(3, 8)], "v": virt[:rng.randint(3, 7)]}
            term = G.random_term(rng, rng.randint(1, 3), pools,
                                 deltas=rng.choice([0, 0, 1]))
            cand = [pools["o"], pools["v"]]
            kind = "tensors"
        elif style < 0.8:     # one non-symmetric tensor, any transposition
            univ = rng.sample(occ + virt + gen + occ_s, rng.randint(3, 9))
            term = NonSymmetricTensor("n", tuple(univ))
            cand = [univ + rng.sample(occ + virt, 2)]
            kind = "nonsym"
        else:                 # spin labelled
            univ = occ_s + occ[:2]
            term = NonSymmetricTensor("n", tuple(univ)) * \
                G.AntiSymmetricTensor("V", tuple(occ_s[:2]), tuple(occ_s[2:]))
            cand = [occ_s, occ[:2] + occ_s]
            kind = "spin"
        if term == 0:
            continue
        perms = []
        for _ in range(rng.choice([0, 1, 1, 2, 2, 3, 3, 4, 5, 6, 8])):
            c = rng.choice(cand)
            if rng.random() < 0.04:
                p = rng.choice(c)
                perms.append((p, p))
            else:
                perms.append(tuple(rng.sample(c, 2)))
        E = Expr(term)
        with Recorder() as rec:
            try:
                res = E.permute(*perms)
            except Exception as ex:
                ctx.violation(f"C08:permute-exception:{n}",
                              f"permute raised {ex!r}",
                              {"term": str(term), "perms": repr(perms)}, True)
                continue
        # the documented meaning: transpositions one after another
        exp = term
        for p, q in perms:
            exp = exp.xreplace({p: q, q: p})
        same = sympy.expand(res.sympy - exp) == 0
        key = f"{term}|{perms}"
        ctx.case(key=key, nontrivial=len(perms) > 0,
                 sample={"term": str(term), "perms": repr(perms),
                         "result": str(res.sympy)} if len(perms) == 3 else None,
                 kind=f"permute:{kind}:n{len(perms)}")
        if not ctx.obligation(f"permute = successive transpositions {n}",
                              same):
            ctx.violation(
                f"C08:permute:{key}",
                "Container.permute differs from applying the transpositions "
                "one after another",
                {"term": str(term), "perms": repr(perms),
                 "permute": str(res.sympy), "successive": str(exp)}, True)
        if len(rec.calls) != 1:
            ctx.obligation(f"permute calls order_substitutions once {n}",
                           False, repr(rec.calls))
            continue
        d, lst = rec.calls[0]
        ix = sorted(term.atoms(Index), key=lambda s: (s.name, s.spin))
        imgs = []
        for s in ix:
            for p, q in perms:
                s = q if s is p else p if s is q else s
            imgs.append(s)
        t = TmpCtx()
        cases.append(f"permute_check {U0} {t.subs(perms)} {t.subs(d)} "
                     f"{t.subs(lst)} {t.idxl(ix)} {t.idxl(imgs)}")
        info.append((key, str(term), repr(perms), repr(d), repr(lst)))
    vals, _ = ctx.coq_eval("permute", cases, header=HDR, shard=100)
    for v, (key, term, perms, d, lst) in zip(vals, info):
        if not ctx.obligation(f"model permute_map = implementation {key[:80]}",
                              v == "true", f"coq value {v!r}"):
            ctx.violation(
                f"C08:permute-model:{key}",
                "the dict composed by Container.permute / its ordered list "
                "differs from the model",
                {"term": term, "perms": perms, "dict": d, "ordered": lst,
                 "correspondence": "Models.Substitution.permute_map"}, False)


# --------------------------------------------------------------------------
# C. get_lowest_avail_indices
# --------------------------------------------------------------------------
def run_lowest(ctx):
    rng = ctx.rng
    quick = ctx.tier == "quick"
    reps = 6 if quick else 40
    cases, info = [], []
    for space in ("occ", "virt", "general"):
        base = Indices.base[space]
        other = "".join(b for sp, b in Indices.base.items() if sp != space)
        for n in range(0, 21):
            for _ in range(reps):
                pool = [b + (str(k) if k else "") for k in range(5)
                        for b in base]
                nu = rng.choice([0, 1, 2, 3, 5, 8, 13, 21, 30])
                style = rng.random()
                if style < 0.4:     # the lowest names are taken (typical)
                    used = pool[:nu]
                elif style < 0.8:
                    used = rng.sample(pool, min(nu, len(pool)))
                else:               # foreign names and duplicates
                    used = [rng.choice(pool + [c + "7" for c in base]
                                       + list(other)) for _ in range(nu)]
                if rng.random() < 0.3:
                    rng.shuffle(used)
                got = get_lowest_avail_indices(n, list(used), space)
                # the property, checked directly on the infinite stream
                stream = (b + (str(k) if k else "") for k in itertools.count()
                          for b in base)
                want = list(itertools.islice(
                    (s for s in stream if s not in used), n))
                key = f"{space}:{n}:{','.join(used)}"
                ctx.case(key=key, nontrivial=n > 0,
                         sample={"n": n, "used": used, "space": space,
                                 "result": got} if n == 4 and nu == 8 else None,
                         kind=f"lowest_avail:{space}:used{nu}")
                if not ctx.obligation(f"lowest unused names {key[:60]}",
                                      got == want):
                    ctx.violation(
                        f"C08:lowest_avail:{key}",
                        "get_lowest_avail_indices does not return the n "
                        "lowest unused names",
                        {"n": n, "used": used, "space": space, "got": got,
                         "lowest_unused": want}, True)
                cases.append(f"lowest_check {n} {coq_names(used)} "
                             f"{SPACE[space]} {coq_names(got)}")
                info.append((key, n, used, space, got))
    vals, _ = ctx.coq_eval("lowest", cases, header=HDR, shard=100)
    for v, (key, n, used, space, got) in zip(vals, info):
        if not ctx.obligation(f"model lowest_avail = implementation "
                              f"{key[:60]}", v == "true", f"coq value {v!r}"):
            ctx.violation(
                f"C08:lowest_avail-model:{key}",
                "get_lowest_avail_indices differs from the model",
                {"n": n, "used": used, "space": space, "got": got,
                 "correspondence": "Models.Substitution.lowest_avail"}, False)


# --------------------------------------------------------------------------
# D. registry histories
# --------------------------------------------------------------------------
class FreshRegistry:
    """a fresh, non-singleton Indices instance whose object creations are
    numbered (the global singleton is not touched)"""

    def __init__(self):
        inst = object.__new__(Indices)
        inst.__init__()
        self.inst = inst
        self.uid = {}
        self.keep = []
        orig = inst._new_symbol

        def new_symbol(name, space, spin):
            s = orig(name, space, spin)
            self.uid[id(s)] = len(self.uid) + 1
            self.keep.append(s)      # keeps id() unique
            return s
        inst._new_symbol = new_symbol

    def entry(self, s):
        return (f"({coq_sort(s.space, s.spin)}, {coq_name(s.name)}, "
                f"{self.uid.get(id(s), 0)}%N)")

    def ret(self, r):
        return "ORet " + adcio.coq_list(
            f"({coq_sort(*k)}, {adcio.coq_list(self.entry(s) for s in v)})"
            for k, v in r.items())

    def gc(self):
        i = self.inst
        return adcio.coq_list(
            f"({coq_names(i._generic_indices[sp][s])}, {i._counter[sp][s]}%N)"
            for sp, s in SORTS)

    def final(self):
        i = self.inst
        return adcio.coq_list(
            "(" + adcio.coq_list(
                f"({coq_name(nm)}, {self.uid.get(id(o), 0)}%N)"
                for nm, o in i._symbols[sp][s].items())
            + f", {coq_names(i._generic_indices[sp][s])}, "
            f"{i._counter[sp][s]}%N)" for sp, s in SORTS)

    def as_singleton(self):
        reg = self

        class Swap:
            def __enter__(self):
                self.saved = Singleton._instances.get(Indices, None)
                Singleton._instances[Indices] = reg.inst

            def __exit__(self, *a):
                if self.saved is None:
                    Singleton._instances.pop(Indices, None)
                else:
                    Singleton._instances[Indices] = self.saved
        return Swap()


class Hang(Exception):
    pass


class time_limit:
    """raises Hang inside the block after `sec` seconds (a registry whose
    generation loop makes no progress would otherwise block the check)"""

    def __init__(self, sec):
        self.sec = sec

    def __enter__(self):
        import signal

        def handler(signum, frame):
            raise Hang(f"no result after {self.sec} s")
        self.old = signal.signal(signal.SIGALRM, handler)
        signal.alarm(self.sec)

    def __exit__(self, *a):
        import signal
        signal.alarm(0)
        signal.signal(signal.SIGALRM, self.old)


def random_name(rng, malformed=0.03):
    if rng.random() < malformed:
        return rng.choice("xyz") + rng.choice(["", "3"])
    space = rng.choice(["occ", "virt", "general"])
    letter = rng.choice(Indices.base[space])
    num = rng.choice(["", "", "", "1", "2", "3", "3", "4", "4", "5", "5", "6",
                      "7", "8", "9", "10", "12"])
    return letter + num


def run_registry(ctx):
    rng = ctx.rng
    quick = ctx.tier == "quick"
    n_hist = 14 if quick else 80
    cases, info = [], []
    hangs = 0
    for h in range(n_hist):
        if hangs >= 2:
            ctx.note("registry histories stopped after two hanging calls")
            break
        reg = FreshRegistry()
        inst = reg.inst
        length = rng.choice([5, 20, 60, 120, 200, 200])
        focus = rng.choice(SORTS)       # concentrate on one sort -> collisions
        ops, obs, log = [], [], []
        returned_before = set()
        for _ in range(length):
            kind = rng.choice(["get", "get", "generic", "generic", "symbols"])
            if kind in ("get", "symbols"):
                k = rng.choice([0, 1, 1, 2, 3, 4, 6]) if kind == "symbols" \
                    else rng.randint(1, 6)
                names, spins = [], []
                for _ in range(k):
                    if rng.random() < 0.5:
                        sp, s = focus
                        nm = rng.choice(Indices.base[sp]) + rng.choice(
                            ["", "2", "3", "4", "5", "6", "7"])
                    else:
                        nm, s = random_name(rng), rng.choice(["", "a", "b"])
                    if names and rng.random() < 0.15:   # repeated request
                        j = rng.randrange(len(names))
                        nm, s = names[j], spins[j]
                    names.append(nm)
                    spins.append(s)
                reqs = adcio.coq_list(f"({coq_name(nm)}, {SPIN[s]})"
                                      for nm, s in zip(names, spins))
                try:
                    if kind == "get":
                        r = inst.get_indices(list(names), list(spins))
                        out = reg.ret(r)
                        objs = [s for v in r.values() for s in v]
                    else:
                        with reg.as_singleton():
                            r = get_symbols(list(names), list(spins))
                        out = "OList " + adcio.coq_list(reg.entry(s) for s in r)
                        objs = list(r)
                        # documented behaviour, checked directly
                        good = (len(r) == len(names) and all(
                            o.name == nm and o.spin == s
                            for o, nm, s in zip(r, names, spins)))
                        if not ctx.obligation("get_symbols returns the "
                                              "requested names in order", good):
                            ctx.violation(
                                f"C08:get_symbols:{names}:{spins}",
                                "get_symbols does not return the requested "
                                "indices in input order",
                                {"names": names, "spins": spins,
                                 "result": repr(r), "history": log[-30:]},
                                True)
                except Exception as ex:
                    out, objs = "OErr", []
                    if all(nm[0] not in "xyz" for nm in names):
                        ctx.violation(
                            f"C08:registry-exception:{kind}:{names}",
                            f"{kind} raised {ex!r} on valid names",
                            {"names": names, "spins": spins,
                             "history": log[-30:]}, True)
                ops.append(("OpGet " if kind == "get" else "OpSymbols ")
                           + reqs)
                log.append((kind, names, spins))
                # identity clause, checked directly
                for o in objs:
                    cached = inst._symbols[o.space][o.spin].get(o.name)
                    if not ctx.obligation("same name -> identical object",
                                          cached is o):
                        ctx.violation(
                            f"C08:identity:{o.name}:{o.spin}",
                            "a repeated request returned a different object",
                            {"history": log[-30:]}, True)
                returned_before.update(
                    (o.space, o.spin, o.name) for o in objs)
            else:
                kw, req = {}, []
                for _ in range(rng.choice([1, 1, 1, 2, 3])):
                    sp, s = focus if rng.random() < 0.6 else rng.choice(SORTS)
                    name = f"{sp}_{s}" if s else \
                        (sp if rng.random() < 0.9 else sp + "_")
                    if name in kw:
                        continue
                    n = rng.choice([0, 1, 1, 2, 2, 3, 4, 5, 7, 8, 9, 17])
                    kw[name] = n
                    req.append(f"({coq_sort(sp, s)}, {n}%nat)")
                try:
                    with time_limit(20):
                        r = inst.get_generic_indices(**kw)
                except Hang as ex:
                    ctx.obligation("get_generic_indices terminates", False)
                    ctx.violation(
                        f"C08:generic-hangs:{kw}",
                        f"get_generic_indices: {ex}",
                        {"kwargs": kw, "history": log[-60:],
                         "counter": {str(k): inst._counter[k[0]][k[1]]
                                     for k in SORTS}}, True)
                    hangs += 1
                    break
                out = reg.ret(r)
                ops.append("OpGeneric " + adcio.coq_list(req))
                log.append(("generic", dict(kw)))
                fresh = [(o.space, o.spin, o.name) for v in r.values()
                         for o in v]
                want = sum(n for n in kw.values())
                dup = [x for x in fresh if x in returned_before]
                # 'occ' and 'occ_' address the same list: ret.update keeps the
                # last request only
                counted = len(fresh) == want or \
                    any(k.endswith("_") for k in kw)
                if not ctx.obligation("generic names never handed out before",
                                      not dup and len(set(fresh)) == len(fresh)
                                      and counted):
                    ctx.violation(
                        f"C08:generic-not-fresh:{sorted(dup)[:3]}:{kw}",
                        "get_generic_indices returned a name that had been "
                        "returned before (or a wrong number of names)",
                        {"kwargs": kw, "returned": repr(r), "reused": dup,
                         "history": log[-40:]}, True)
                returned_before.update(fresh)
            obs.append(f"({out}, {reg.gc()})")
            ctx.case(key=(h, len(ops), ops[-1]), nontrivial=True,
                     kind=f"registry:{kind}")
        cases.append(f"trace_check init {adcio.coq_list('(' + o + ')' for o in ops)} "
                     f"{adcio.coq_list(obs)} {reg.final()}")
        info.append((h, log))
        if h == 0:
            ctx.samples.append({"registry history (first ops)": log[:6]})
    vals, _ = ctx.coq_eval("registry", cases, header=HDR, shard=1)
    for v, (h, log) in zip(vals, info):
        bad = parse_natlist(v)
        if not ctx.obligation(f"registry model = implementation on history "
                              f"{h} ({len(log)} operations)", bad == [],
                              f"coq value {v!r}"):
            pos = bad[0] if bad else 0
            ctx.violation(
                f"C08:registry-model:history{h}:op{pos}",
                "the Indices registry differs from the state machine model "
                "(returned names / identities / _generic_indices / _counter)",
                {"first_mismatch_op": pos,
                 "history_up_to_mismatch": log[max(0, pos - 30):pos + 1],
                 "coq": v, "correspondence": "Models.Registry.step"}, False)


# --------------------------------------------------------------------------
# E. substitute_contracted / substitute_with_generic
# --------------------------------------------------------------------------
def named_pool(rng, space, n, spin_mode):
    letters = G.LETTERS[space]
    names = set()
    while len(names) < n:
        names.add(rng.choice(letters) + rng.choice(["", "", "", "1", "2", "3",
                                                    "4", "7"]))
    names = sorted(names)
    rng.shuffle(names)
    if spin_mode == "none":
        spins = [""] * n
    elif spin_mode == "all":
        spins = [rng.choice("ab") for _ in names]
    else:
        spins = [rng.choice(["", "a", "b"]) for _ in names]
    return get_symbols(names, spins)


def gen_sc_term(rng):
    spin_mode = rng.choice(["none", "none", "all", "mixed"])
    no, nv = rng.randint(3, 6), rng.randint(3, 6)
    pools = {"o": named_pool(rng, "o", no, spin_mode),
             "v": named_pool(rng, "v", nv, spin_mode)}
    term = G.random_term(rng, rng.randint(1, 4), pools,
                         deltas=rng.choice([0, 0, 0, 1]), allow_pow=True)
    return term, pools


def contracted_of(term, targets):
    """Term.contracted recomputed from the sympy tree: canonical order,
    Einstein convention (exponent weighted count > 1) or all non-targets"""
    ictx = adcio.IdxCtx()
    pt = adcio.conv_term(term, ictx)
    back = {}
    for s in term.atoms(Index):
        back[ictx.conv(s)] = s
    cnt = {}
    for i in adcio.term_indices(pt):
        cnt[i] = cnt.get(i, 0) + 1
    order = sorted(cnt, key=lambda i: i.key)
    if targets is None:
        con = [i for i in order if cnt[i] > 1]
        tg = [i for i in order if cnt[i] == 1]
        return [back[i] for i in con], [back[i] for i in tg]
    tgc = {ictx.conv(t) for t in targets}
    return [back[i] for i in order if i not in tgc], list(targets)


def run_substitute(ctx):
    rng = ctx.rng
    quick = ctx.tier == "quick"
    n_cases = 250 if quick else 1200
    pairs, meta, sc_cases, sc_info = [], [], [], []
    gen_cases, gen_info = [], []
    reg = Indices()
    hung = False
    for n in range(n_cases):
        term, pools = gen_sc_term(rng)
        if term == 0 or not term.atoms(Index):
            continue
        idx = sorted(term.atoms(Index), key=lambda s: (s.name, s.spin))
        if rng.random() < 0.6:
            k = rng.randint(0, min(3, len(idx)))
            targets = tuple(rng.sample(idx, k))
            if rng.random() < 0.3:   # a target that does not occur in the term
                targets += tuple(get_symbols("i" if rng.random() < .5 else "a",
                                             rng.choice(["a", "b"])
                                             if idx[0].spin else None))
            E = Expr(term, target_idx=targets)
            targets = E.provided_target_idx
        else:
            targets = None
            E = Expr(term)
        if E.sympy == 0:
            continue
        T = E.terms[0]
        con, tg = contracted_of(E.sympy, targets)
        for which in ("contracted", "generic"):
            label = f"{which}{n}"
            if which == "generic" and hung:
                continue
            snap = None
            try:
                with Recorder() as rec:
                    if which == "contracted":
                        sub_only = T.substitute_contracted(only_build_sub=True)
                        out = T.substitute_contracted()
                    else:
                        snap = snapshot_global(reg)
                        calls = []
                        orig = reg.get_generic_indices

                        def wrapper(**kw):
                            r = orig(**kw)
                            calls.append((dict(kw), r))
                            return r
                        reg.get_generic_indices = wrapper
                        try:
                            with time_limit(20):
                                out = T.substitute_with_generic(
                                    return_sympy=False)
                        finally:
                            del reg.get_generic_indices
            except Hang as ex:
                hung = True
                ctx.obligation("substitute_with_generic terminates", False)
                ctx.violation(
                    f"C08:generic-hangs:substitute_with_generic:{term}",
                    f"substitute_with_generic: {ex} (global registry)",
                    {"term": str(term), "targets": repr(targets)}, True)
                continue
            except Exception as ex:
                ctx.violation(
                    f"C08:substitute-exception:{which}:{term}:{targets}",
                    f"substitute_{which} raised {ex!r} on a valid term",
                    {"term": str(term), "targets": repr(targets)}, True)
                continue
            d, lst = rec.calls[-1]
            ren = dict(d)
            key = f"{which}|{term}|{targets}"
            ctx.case(key=key, nontrivial=len(con) > 0,
                     sample={"term": str(term), "targets": repr(targets),
                             "which": which, "result": str(out.sympy)}
                     if len(con) == 3 else None,
                     kind=f"substitute_{which}:"
                          f"{'einstein' if targets is None else 'explicit'}:"
                          f"con{min(len(con), 9)}")
            # ---- clauses checked directly on the observed renaming ----
            t = TmpCtx()
            structural = (list(ren.keys()) == con
                          and not any(v in tg for v in ren.values())
                          and len(set(ren.values())) == len(ren)
                          and all(k.space_and_spin == v.space_and_spin
                                  for k, v in ren.items()))
            if not ctx.obligation(f"renaming touches no target, injective, "
                                  f"sort preserving {label}", structural):
                ctx.violation(
                    f"C08:renaming:{key}",
                    "the renaming of the contracted indices touches a target, "
                    "merges two indices, changes space/spin or does not "
                    "rename exactly the contracted indices",
                    {"term": str(term), "targets": repr(tg),
                     "contracted": repr(con), "renaming": repr(d)}, True)
            if which == "contracted":
                # exactly the lowest unused names per (space, spin), checked
                # directly on the infinite name stream
                low = True
                for k in dict.fromkeys(c.space_and_spin for c in con):
                    new = [ren[c].name for c in con if c.space_and_spin == k
                           and c in ren]
                    taken = {x.name for x in tg if x.space_and_spin == k}
                    base = Indices.base[k[0]]
                    stream = (b + (str(j) if j else "")
                              for j in itertools.count() for b in base)
                    want = list(itertools.islice(
                        (x for x in stream if x not in taken), len(new)))
                    low = low and new == want
                if not ctx.obligation(f"lowest unused names per space and "
                                      f"spin {label}", low):
                    ctx.violation(
                        f"C08:not-lowest:{key}",
                        "substitute_contracted does not rename to exactly the "
                        "lowest unused names of each space and spin",
                        {"term": str(term), "targets": repr(tg),
                         "contracted": repr(con), "renaming": repr(d)}, True)
            expect = E.sympy.xreplace(ren)
            same = sympy.expand(out.sympy - expect) == 0
            if not ctx.obligation(f"sequential subs = simultaneous renaming "
                                  f"{label}", same):
                ctx.violation(
                    f"C08:substitute-seq:{key}",
                    "the ordered substitution list does not realise the "
                    "renaming dict",
                    {"term": str(term), "renaming": repr(d),
                     "ordered": repr(lst), "result": str(out.sympy),
                     "simultaneous": str(expect)}, True)
            pairs.append(EQ.Pair(E.sympy, out.sympy, tg, label))
            meta.append((key, str(term), repr(tg), repr(d)))
            if which == "contracted":
                sc_cases.append(
                    f"sc_check {U0} {t.idxl(con)} {t.idxl(tg)} {t.subs(lst)} "
                    f"&& subs_eqb {TmpCtx().subs(sub_only)} {t.subs(lst)} "
                    f"&& renaming_ok {t.idxl(con)} {t.idxl(tg)} {t.subs(d)} "
                    f"&& lowest_ok {t.idxl(con)} {t.idxl(tg)} {t.subs(d)}")
                sc_info.append((key, str(term), repr(tg), repr(con), repr(d),
                                repr(lst)))
            else:
                # freshness, checked directly against the registry contents
                stale = [v for v in ren.values()
                         if v.name in snap["symbols"][v.space_and_spin]]
                if not ctx.obligation(f"generic names are new {label}",
                                      not stale):
                    ctx.violation(
                        f"C08:generic-reused:{key}",
                        "substitute_with_generic used a name that already "
                        "existed in the registry",
                        {"term": str(term), "renaming": repr(d),
                         "already_known": repr(stale)}, True)
                if len(calls) != 1:
                    ctx.obligation(f"one registry call {label}", False)
                    continue
                kw, r = calls[0]
                gen_cases.append(generic_case(snap, kw, r, reg, con, ren))
                gen_info.append((key, str(term), repr(kw), repr(r)))
    # model correspondence
    vals, _ = ctx.coq_eval("sc", sc_cases, header=HDR, shard=60)
    for v, inf in zip(vals, sc_info):
        if not ctx.obligation(f"model substitute_contracted = implementation "
                              f"{inf[0][:70]}", v == "true", f"coq {v!r}"):
            ctx.violation(
                f"C08:substitute_contracted-model:{inf[0]}",
                "substitute_contracted: ordered substitution list differs "
                "from the model, or the renaming is not onto the lowest unused "
                "names per space and spin",
                {"term": inf[1], "targets": inf[2], "contracted": inf[3],
                 "renaming": inf[4], "ordered": inf[5],
                 "correspondence": "Models.Substitution.sc_subs / "
                 "lowest_avail"}, False)
    vals, _ = ctx.coq_eval("gen", gen_cases, header=HDR, shard=10)
    for v, inf in zip(vals, gen_info):
        if not ctx.obligation(f"model get_generic_indices = registry "
                              f"{inf[0][:70]}", v == "true", f"coq {v!r}"):
            ctx.violation(
                f"C08:substitute_with_generic-model:{inf[0]}",
                "substitute_with_generic: the names handed out by the global "
                "registry differ from the registry model started in the "
                "observed state",
                {"term": inf[1], "kwargs": inf[2], "returned": inf[3],
                 "correspondence": "Models.Registry.step (OpGeneric)"}, False)
    # value clause: kernel-checked equivalence
    EQ.run_pairs(ctx, "value", pairs, shard=30)
    for p, (key, term, tg, d) in zip(pairs, meta):
        if p.ok is None:
            ctx.note(f"{p.label}: {p.err}")
            continue
        if not ctx.obligation(f"renamed term has the same value {p.label}",
                              p.ok, p.err):
            ctx.violation(
                f"C08:value:{key}",
                "the renamed term is not proved equal in value to the "
                "original term",
                {"case": EQ.describe(p), "renaming": d,
                 "difference": p.diff,
                 "correspondence": "check_equiv (Core/Equiv.v) rejected the "
                 "pair"}, p.diff is not None)


def snapshot_global(reg):
    return {"symbols": {k: dict(reg._symbols[k[0]][k[1]]) for k in SORTS},
            "generic": {k: list(reg._generic_indices[k[0]][k[1]])
                        for k in SORTS},
            "counter": {k: reg._counter[k[0]][k[1]] for k in SORTS}}


def generic_case(snap, kw, r, reg, con, ren):
    """the registry model started in the observed global state must hand out
    the observed names and end in the observed generic lists / counters"""
    sorts = []
    for name in kw:
        parts = name.split("_")
        sorts.append((parts[0], parts[1] if len(parts) == 2 else ""))
    uid, syms = {}, []
    for k in sorts:
        for nm, o in snap["symbols"][k].items():
            try:
                split_name(nm)
            except ValueError:      # name outside the model (never generic)
                continue
            uid[id(o)] = len(uid) + 1
            syms.append(f"({coq_sort(*k)}, {coq_name(nm)}, {uid[id(o)]}%N)")
    nxt = len(uid) + 1
    gen = adcio.coq_list(f"({coq_sort(*k)}, {coq_names(snap['generic'][k])})"
                         for k in sorts)
    cnt = adcio.coq_list(f"({coq_sort(*k)}, {snap['counter'][k]}%N)"
                         for k in sorts)
    req = adcio.coq_list(f"({coq_sort(*k)}, {n}%nat)"
                         for k, n in zip(sorts, kw.values()))
    # expected output: new objects are numbered in creation order
    created = {}
    out = []
    for k, v in r.items():
        ent = []
        for o in v:
            if id(o) not in uid:
                created.setdefault(id(o), nxt + len(created))
            ent.append(f"({coq_sort(*k)}, {coq_name(o.name)}, "
                       f"{uid.get(id(o), created.get(id(o)))}%N)")
        out.append(f"({coq_sort(*k)}, {adcio.coq_list(ent)})")
    exp_gc = adcio.coq_list(
        f"({coq_names(reg._generic_indices[k[0]][k[1]])}, "
        f"{reg._counter[k[0]][k[1]]}%N)" for k in sorts)
    st = f"(mk_state {adcio.coq_list(syms)} {gen} {cnt} {nxt}%N)"
    sortl = adcio.coq_list(coq_sort(*k) for k in sorts)
    return (f"let (st, o) := step {st} (OpGeneric {req}) in "
            f"out_eqb o (ORet {adcio.coq_list(out)}) && "
            f"gc_eqb (map (fun k => (generic st k, counter st k)) {sortl}) "
            f"{exp_gc}")


# --------------------------------------------------------------------------
# F. minimize_tensor_indices
# --------------------------------------------------------------------------
def run_minimize(ctx):
    rng = ctx.rng
    quick = ctx.tier == "quick"
    n_cases = 400 if quick else 3000
    cases, info = [], []
    for n in range(n_cases):
        spin_mode = rng.choice(["none", "none", "all", "mixed"])
        pool = named_pool(rng, "o", rng.randint(1, 5), spin_mode) + \
            named_pool(rng, "v", rng.randint(1, 5), spin_mode)
        if rng.random() < 0.2:
            pool += named_pool(rng, "g", 2, spin_mode)
        ix = tuple(rng.choice(pool) for _ in range(rng.randint(1, 7)))
        tgn = {}
        for s in rng.sample(pool, rng.randint(0, min(3, len(pool)))):
            tgn.setdefault(s.space_and_spin, []).append(s.name)
        if rng.random() < 0.3:      # low target names that are not on the tensor
            s = rng.choice(pool)
            tgn.setdefault(s.space_and_spin, []).append(
                Indices.base[s.space][0])
        symm = sys.modules["adcgen.symmetry"]
        orig_pp, raw = symm.PermutationProduct, []

        def rec_pp(args):
            raw.append([tuple(x) for x in args])
            return orig_pp(args)
        symm.PermutationProduct = rec_pp
        try:
            out, perms = minimize_tensor_indices(ix, dict(tgn))
        except Exception as ex:
            ctx.violation(f"C08:minimize-exception:{ix}:{tgn}",
                          f"minimize_tensor_indices raised {ex!r}",
                          {"indices": repr(ix), "targets": repr(tgn)}, True)
            continue
        finally:
            symm.PermutationProduct = orig_pp
        perms = [tuple(p) for p in perms]
        raw = raw[0] if len(raw) == 1 else perms
        key = f"{ix}|{tgn}"
        # documented behaviour, checked directly: the result is the image of
        # the input under the returned permutations, target names are kept,
        # every other index carries one of the lowest unused names
        img = list(ix)
        for p, q in perms:
            img = [q if s is p else p if s is q else s for s in img]
        good = all(a is b for a, b in zip(img, out)) and len(out) == len(ix)
        for a, b in zip(ix, out):
            if a.name in tgn.get(a.space_and_spin, []):
                good = good and a is b
            else:
                good = good and b.name not in tgn.get(b.space_and_spin, []) \
                    and a.space_and_spin == b.space_and_spin
        for k in {s.space_and_spin for s in out}:
            new = []
            for s in out:
                if s.space_and_spin == k and s.name not in tgn.get(k, []) \
                        and s.name not in new:
                    new.append(s.name)
            good = good and new == get_lowest_avail_indices(
                len(new), tgn.get(k, []), k[0])
        ctx.case(key=key, nontrivial=len(perms) > 0,
                 sample={"indices": repr(ix), "targets": repr(tgn),
                         "result": repr(out), "perms": repr(perms)}
                 if len(perms) == 2 else None,
                 kind=f"minimize:perms{len(perms)}")
        if not ctx.obligation(f"minimize_tensor_indices clauses {n}", good):
            ctx.violation(
                f"C08:minimize:{key}",
                "minimize_tensor_indices: result is not the image under the "
                "returned permutations / touches a target / is not minimal",
                {"indices": repr(ix), "targets": repr(tgn),
                 "result": repr(out), "perms": repr(perms)}, True)
        t = TmpCtx()
        tl = adcio.coq_list(f"({coq_sort(*k)}, {coq_names(v)})"
                            for k, v in tgn.items())
        cases.append(f"minimize_check {t.idxl(ix)} {tl} {t.idxl(out)} "
                     f"{t.subs(raw)}")
        info.append((key, repr(ix), repr(tgn), repr(out), repr(perms)))
    vals, _ = ctx.coq_eval("minimize", cases, header=HDR, shard=100)
    for v, inf in zip(vals, info):
        if not ctx.obligation(f"model minimize_tensor_indices = "
                              f"implementation {inf[0][:60]}", v == "true",
                              f"coq {v!r}"):
            ctx.violation(
                f"C08:minimize-model:{inf[0]}",
                "minimize_tensor_indices differs from the model",
                {"indices": inf[1], "targets": inf[2], "result": inf[3],
                 "perms": inf[4], "correspondence":
                 "Models.Substitution.minimize_tensor_indices"}, False)


MAX_PER_CLAUSE = 4


def run(ctx):
    # at most MAX_PER_CLAUSE replays per violated clause (all are counted)
    seen, orig = {}, ctx.violation

    def capped(key, what, replay, found_input):
        cat = ":".join(key.split(":")[:2])
        seen[cat] = seen.get(cat, 0) + 1
        if seen[cat] <= MAX_PER_CLAUSE:
            orig(key, what, replay, found_input)
    ctx.violation = capped
    try:
        _run(ctx)
    finally:
        ctx.violation = orig
        for cat, n in seen.items():
            if n > MAX_PER_CLAUSE:
                ctx.note(f"{cat}: {n} violating inputs, first "
                         f"{MAX_PER_CLAUSE} reported")
        ctx.extra["violating_inputs_per_clause"] = dict(seen)


def _run(ctx):
    run_order_substitutions(ctx)
    run_permute(ctx)
    run_lowest(ctx)
    run_registry(ctx)
    run_substitute(ctx)
    run_minimize(ctx)


def replay(ctx, rep):
    """re-runs the check with the recorded seed and tier and reports whether
    the recorded violation (same stable key) reproduces: exit 1 if it does"""
    import json
    import random
    print(json.dumps({k: rep.get(k) for k in ("property", "key", "what",
                                               "found_failing_input")},
                     indent=1))
    print(json.dumps(rep.get("replay", {}), indent=1, default=str)[:3000])
    ctx.tier = rep.get("tier", "quick")
    ctx.rng = random.Random(rep.get("seed", ctx.seed))
    global MAX_PER_CLAUSE
    MAX_PER_CLAUSE = 10 ** 9
    run(ctx)
    hit = [v for v in ctx.violations if v["key"] == rep.get("key")]
    print(f"replay: {len(ctx.violations)} violating inputs in the re-run, "
          f"recorded key {'REPRODUCED' if hit else 'not reproduced'}")
    return 1 if hit else 0
