"""C05 - ISR properties and transition moments equal explicit matrix
elements."""
import itertools
import time
from math import factorial
from sympy import sqrt
import adcgen
from adcgen.expr_container import Expr
from adcgen.indices import get_symbols, n_ov_from_space
import adcio
import detspace
import isr_explicit
import numeric
from numeric import P, inv, sqrt_mod
from props.c02 import make_model, evaluate

LEVEL = "proof"
RULE = ("for variants pp/ip/ea (+ mixed left/right in thorough): every "
        "derived block contribution to the excited-state expectation value "
        "of a one-particle operator and every transition-moment contribution "
        "is evaluated on model Hamiltonians (3+3 spin orbitals, canonical HF,"
        " explicit RSPT amplitudes, random operator matrix, random "
        "antisymmetric amplitude vectors) and compared with the same-order "
        "coefficient of sum_IJ X_I <I|O - <O>|J> Y_J resp. sum_I X_I "
        "<I|O|Psi0> over explicitly constructed intermediate states "
        "(harness/isr_explicit.py, exact arithmetic mod a 61-bit prime) with "
        "the documented 1/sqrt(n_o! n_v!) normalisation.  Non-trivial: "
        "order >= 1 or coupling block; distinct by (variant, block/space, "
        "order, subtract_gs, model)")
TRUSTED = ["harness/detspace.py, harness/isr_explicit.py, harness/numeric.py",
           "exact evaluation on sampled model Hamiltonians, not a proof over "
           "all Hamiltonians; the Wick step of every matrix element is "
           "covered by C01"]
ASSUMPTIONS = ["mp partitioning, canonical HF, one-particle operators; a "
               "two-particle operator for the lowest diagonal block at "
               "orders 0-1 (2 thorough), both subtract_gs settings",
               "quick: pp ph,ph orders 0-2, ph,pphh / pphh,ph order 1 (0 "
               "too), pphh,pphh order 0; ip/ea lowest class orders 0-2; "
               "transition moments pp ph 0-2, pphh 0-1, ip h / ea p 0-2",
               "partial: no Coq theorem for the all-orders statement"]


def amp_value(model, name, space, occ, virt):
    """value of the ADC amplitude vector X/Y at an orbital tuple"""
    return model.tv("KAmp", name, 0, tuple(virt), tuple(occ))


def run(ctx):
    rng = ctx.rng
    quick = ctx.tier == "quick"
    max_order = 3
    gs = adcgen.GroundState(adcgen.Operators())
    variants = ["pp", "ip", "ea"]
    space = detspace.Space(3, 3, rng.randrange(1 << 30), canonical=True)
    E, psi = space.rspt("mp", max_order)
    detspace.certify(ctx, "C05", [("mp", space.seed)], max_order)
    isr_explicit.certify_ortho(ctx, "C05", space, psi, E, variants,
                               max_order)
    dmat = [[(numeric._h(space.seed, "d", p, q) % 1999 - 999)
             for q in range(space.n)] for p in range(space.n)]
    model = make_model(space, psi, dmat)

    def Dop(vec):
        return space.one_body(dmat, vec)

    for variant in variants:
        isr = adcgen.IntermediateStates(gs, variant)
        prop = adcgen.Properties(isr)
        X = isr_explicit.ISR(space, psi, E, variant, max_order,
                             n_classes=3 if variant in ("ip", "ea") else 2)
        cls = list(X.classes)
        # ---- expectation value blocks -----------------------------------
        gs_ser = X.op_gs(Dop)
        blocks = [(cls[0], cls[0], o) for o in range(3)]
        if len(cls) > 1:
            blocks += [(cls[0], cls[1], 0), (cls[1], cls[0], 0),
                       (cls[0], cls[1], 1), (cls[1], cls[0], 1),
                       (cls[1], cls[1], 0)]
        # (blocks with the third class are not compared: the sign convention
        # of the explicit triples-like configurations relative to the
        # amplitude vector is not fixed by any lower-order quantity; the
        # third-class transition moment below vanishes and is compared)
        for bs, ks, order in blocks:
            # both settings on one Properties instance (quick: lowest
            # diagonal block only, where the ground-state shift matters)
            for subtract in ((True, False) if not quick or bs == ks == cls[0]
                             else (True,)):
                t0 = time.time()
                try:
                    expr = prop.expec_block_contribution(
                        order, f"{bs},{ks}", n_particles=1,
                        subtract_gs=subtract)
                except Exception as ex:
                    ctx.violation(
                        f"C05:expec-exception:{variant}:{bs},{ks}:{order}",
                        f"expec_block_contribution raised {ex!r}", {}, False)
                    continue
                val = evaluate(model, expr)
                # explicit: sum over ordered configurations
                tot = [0] * (max_order + 1)
                for I, (oi, vi) in enumerate(X.configs[bs]):
                    x = amp_value(model, "X", bs, oi, vi)
                    if not x:
                        continue
                    for J, (oj, vj) in enumerate(X.configs[ks]):
                        y = amp_value(model, "Y", ks, oj, vj)
                        ser = X.op_matrix(Dop, bs, I, ks, J)
                        if subtract:
                            ov = X.overlap(bs, I, ks, J)
                            sub = detspace.series_mul(gs_ser, ov, max_order)
                            ser = [(a - b) % P for a, b in zip(ser, sub)]
                        for n in range(max_order + 1):
                            tot[n] = (tot[n] + x * ser[n] * y) % P
                n1, n2 = n_ov_from_space(bs), n_ov_from_space(ks)
                g1 = factorial(n1["occ"]) * factorial(n1["virt"])
                g2 = factorial(n2["occ"]) * factorial(n2["virt"])
                # sum over all tuples = g * sum over ordered tuples;
                # prefactors 1/sqrt(g1) 1/sqrt(g2)
                want = tot[order] * sqrt_mod(g1) % P * sqrt_mod(g2) % P
                ok = val == want
                ctx.case(key=("expec", variant, bs, ks, order, subtract,
                              space.seed),
                         nontrivial=order >= 1 or bs != ks,
                         sample={"variant": variant, "block": f"{bs},{ks}",
                                 "order": order, "subtract_gs": subtract,
                                 "value_mod_P": val,
                                 "derive_s": round(time.time() - t0, 1)},
                         kind=f"expec:{variant}:{bs},{ks}")
                if not ctx.obligation(
                        f"{variant} expectation value block {bs},{ks} order "
                        f"{order} subtract_gs={subtract}", ok):
                    ctx.violation(
                        f"C05:expectation:{variant}:{bs},{ks}:order{order}:"
                        f"{subtract}",
                        "derived excited-state expectation value "
                        "contribution differs from the explicit matrix "
                        "elements contracted with the amplitude vectors",
                        {"variant": variant, "block": f"{bs},{ks}",
                         "order": order, "subtract_gs": subtract,
                         "model": {"nocc": 3, "nvirt": 3, "seed": space.seed},
                         "derived": val, "explicit": want}, True)
        # ---- two-particle operator: lowest diagonal block ------------------
        # (its ground-state expectation value has a first-order contribution)
        d2 = {}
        for p_, q_ in itertools.combinations(range(space.n), 2):
            for r_, s_ in itertools.combinations(range(space.n), 2):
                v = numeric._h(space.seed, "d2", p_, q_, r_, s_) % 199 - 99
                for (a_, b_, s1) in ((p_, q_, 1), (q_, p_, -1)):
                    for (c_, e_, s2) in ((r_, s_, 1), (s_, r_, -1)):
                        d2[(a_, b_, c_, e_)] = s1 * s2 * v
        model2 = make_model(space, psi, d2)

        def Dop2(vec):
            return space.two_body_ten(d2, vec)
        gs2 = X.op_gs(Dop2)
        bs = ks = cls[0]
        for order in ((0, 1) if quick else (0, 1, 2)):
            for subtract in (True, False):
                try:
                    expr = prop.expec_block_contribution(
                        order, f"{bs},{ks}", n_particles=2,
                        subtract_gs=subtract)
                except Exception as ex:
                    ctx.violation(
                        f"C05:expec2-exception:{variant}:{bs},{ks}:{order}",
                        f"expec_block_contribution raised {ex!r}", {}, False)
                    continue
                val = evaluate(model2, expr)
                tot = [0] * (max_order + 1)
                for I, (oi, vi) in enumerate(X.configs[bs]):
                    x = amp_value(model2, "X", bs, oi, vi)
                    if not x:
                        continue
                    for J, (oj, vj) in enumerate(X.configs[ks]):
                        y = amp_value(model2, "Y", ks, oj, vj)
                        ser = X.op_matrix(Dop2, bs, I, ks, J)
                        if subtract:
                            ov = X.overlap(bs, I, ks, J)
                            sub = detspace.series_mul(gs2, ov, max_order)
                            ser = [(a - b) % P for a, b in zip(ser, sub)]
                        for n in range(max_order + 1):
                            tot[n] = (tot[n] + x * ser[n] * y) % P
                n1 = n_ov_from_space(bs)
                g1 = factorial(n1["occ"]) * factorial(n1["virt"])
                want = tot[order] * g1 % P
                ctx.case(key=("expec2", variant, bs, order, subtract,
                              space.seed), nontrivial=True,
                         kind=f"expec-2particle:{variant}:{bs},{ks}")
                if not ctx.obligation(
                        f"{variant} two-particle expectation value block "
                        f"{bs},{ks} order {order} subtract_gs={subtract}",
                        val == want):
                    ctx.violation(
                        f"C05:expectation-2particle:{variant}:{bs},{ks}:"
                        f"order{order}:{subtract}",
                        "derived excited-state expectation value "
                        "contribution of a two-particle operator differs "
                        "from the explicit matrix elements contracted with "
                        "the amplitude vectors",
                        {"variant": variant, "block": f"{bs},{ks}",
                         "order": order, "subtract_gs": subtract,
                         "n_particles": 2,
                         "model": {"nocc": 3, "nvirt": 3, "seed": space.seed},
                         "derived": val, "explicit": want}, True)
        # ---- transition moments ------------------------------------------
        nc = isr.min_space[0].count("p")
        na = isr.min_space[0].count("h")
        if nc == na:
            opfun = Dop
            modelt = model
        else:
            # one creator or one annihilator: d_p a+_p / d_q a_q
            dvec = [(numeric._h(space.seed, "dv", p) % 1999 - 999)
                    for p in range(space.n)]

            def opfun(vec, create=(nc == 1)):
                out = detspace.Vec()
                for det, c in vec.items():
                    for p in range(space.n):
                        r = detspace.act(create, p, det)
                        if r is not None:
                            out.add(r[1], c * r[0] * dvec[p])
                return out
            modelt = make_model(space, psi, None)
            modelt.special["d"] = lambda m, k, b, up, lo: \
                dvec[(up or lo)[0]] % P
        # third order (odd-order normalisation factors matter there): ip/ea
        # in the quick tier, pp in the thorough tier
        spaces = [(cls[0], o, "same") for o in range(
            4 if variant != "pp" or not quick else 3)]
        if len(cls) > 1:
            spaces += [(cls[1], 0, "same"), (cls[1], 1, "same")]
        if len(cls) > 2:
            spaces += [(cls[2], 1, "same")]
        # mixed left/right variants: the transition moment of the RIGHT
        # intermediate states with the default operator string
        other = {"pp": "ip", "ip": "pp", "ea": "pp"}.get(variant)
        prop_mixed = None
        if other is not None:
            prop_mixed = adcgen.Properties(
                adcgen.IntermediateStates(gs, other), isr)
            spaces += [(cls[0], o, "mixed-right") for o in range(3)]
        for sp, order, which in spaces:
            try:
                if which == "same":
                    expr = prop.trans_moment_space(order, sp)
                else:
                    expr = prop_mixed.trans_moment_space(order, sp,
                                                         lr_isr="right")
            except Exception as ex:
                ctx.violation(f"C05:transmom-exception:{variant}:{sp}:{order}",
                              f"trans_moment_space raised {ex!r}", {}, False)
                continue
            val = evaluate(modelt, expr)
            tot = [0] * (max_order + 1)
            for I, (oi, vi) in enumerate(X.configs[sp]):
                x = amp_value(modelt, "X", sp, oi, vi)
                ser = X.trans_moment(opfun, sp, I)
                for n in range(max_order + 1):
                    tot[n] = (tot[n] + x * ser[n]) % P
            n1 = n_ov_from_space(sp)
            g1 = factorial(n1["occ"]) * factorial(n1["virt"])
            want = tot[order] * sqrt_mod(g1) % P
            ok = val == want
            ctx.case(key=("transmom", variant, sp, order, which, space.seed),
                     nontrivial=order >= 1 or sp != cls[0],
                     sample={"variant": variant, "space": sp, "order": order,
                             "value_mod_P": val},
                     kind=f"transmom:{variant}:{sp}")
            if not ctx.obligation(f"{variant} transition moment {sp} order "
                                  f"{order} ({which})", ok):
                ctx.violation(
                    f"C05:trans_moment:{variant}:{sp}:order{order}"
                    + ("" if which == "same" else ":" + which),
                    "derived transition moment contribution differs from "
                    "the explicit <I|O|Psi0> contracted with the amplitude "
                    "vector",
                    {"variant": variant, "space": sp, "order": order,
                     "model": {"nocc": 3, "nvirt": 3, "seed": space.seed},
                     "derived": val, "explicit": want}, True)


def replay(ctx, rep):
    print(rep)
    return 0
