"""C16 - contraction schemes compute the term and respect their bounds."""
import logging
import re

from sympy import Mul, Pow, Rational, S, Symbol

from adcgen.expr_container import Expr
from adcgen.indices import get_symbols
from adcgen.sympy_objects import (NonSymmetricTensor, AntiSymmetricTensor,
                                  SymmetricTensor, Amplitude, KroneckerDelta,
                                  SymbolicTensor)
from adcgen.generate_code.contraction import Contraction
import adcgen.generate_code  # noqa: F401
import sys
OC = sys.modules["adcgen.generate_code.optimize_contractions"]

import c16_util as U

LEVEL = "proof"
RULE = ("fixed corpus (repo test inputs, the formerly failing inputs and their "
        "10 canonical cores, mutation-sensitive inputs) + seeded random index patterns: 1-6 objects of "
        "rank 0-4 over occ/virt/general indices with and without spin, "
        "styles chain / random / hyper-index on 3-4 objects / traces / outer "
        "products / disconnected groups / repeated objects (exponents) / "
        "deltas, symbols, numbers, polynomials and negative exponents for the "
        "object extraction; requested targets in canonical and shuffled order "
        "incl. repeated (non-Einstein) target indices; limits max_itmd_dim in "
        "{None,0..4}, max_n_simultaneous_contracted in {None,1,2,3,4}.  A "
        "case is non-trivial if the term has >= 2 relevant objects; distinct "
        "= distinct canonical (pattern, targets, limits) string")
TRUSTED = ["harness/c16_util.py: Python mirror of wf_scheme and the plain-"
           "Python einsum interpreter are used for shrinking / failing-input "
           "search only; the mirror is compared with the Coq result on every "
           "enumerated scheme",
           "scheme digests (multiplicative hash, 61 bits) are used to compare "
           "the full enumeration; the selected scheme, the groups and the "
           "unoptimised contraction are compared literally inside Coq"]
ASSUMPTIONS = [
    "requested target indices are pairwise distinct and contain every index "
    "that occurs exactly once in the term (Einstein-consistent request); "
    "inputs violating this are run as a separate stream for model "
    "correspondence only",
    "names of base tensors do not start with 'contraction'",
    "CPython iterates sets of small non-negative ints in ascending order "
    "(used by the model of _group_objects for <= 8 objects; the result does "
    "not depend on it, see c16.design.md)",
    "'maximal scaling never worse than the simultaneous contraction' is read "
    "as: computational and memory scaling of every step are component-wise "
    "<= the computational scaling of the simultaneous contraction"]

logging.getLogger("adcgen").setLevel(logging.ERROR)
for _n in list(logging.root.manager.loggerDict):
    if _n.startswith("adcgen"):
        logging.getLogger(_n).setLevel(logging.ERROR)


# --------------------------------------------------------------------------
# case specification
#   factors: list of (kind, name, [(idxname, spin), ...], exponent)
#       kind in T (NonSymmetricTensor), anti, sym, amp (upper/lower split in
#       the middle), delta, symbol, number (name = "p/q"), poly
#   target: [(idxname, spin), ...];  mid, mg: limits
def sym_of(ix):
    return get_symbols(ix[0], ix[1] if ix[1] else None)[0]


def build_term(factors):
    fs = []
    for kind, name, ixs, ex in factors:
        s = [sym_of(x) for x in ixs]
        if kind == "T":
            b = NonSymmetricTensor(name, tuple(s))
        elif kind in ("anti", "sym", "amp"):
            h = len(s) // 2
            cls = {"anti": AntiSymmetricTensor, "sym": SymmetricTensor,
                   "amp": Amplitude}[kind]
            b = cls(name, tuple(s[:h]), tuple(s[h:]))
        elif kind == "delta":
            b = KroneckerDelta(s[0], s[1])
        elif kind == "symbol":
            b = Symbol(name)
        elif kind == "number":
            b = Rational(name)
        elif kind == "poly":
            b = NonSymmetricTensor("e", (s[0],)) + NonSymmetricTensor("e", (s[1],))
        else:
            raise ValueError(kind)
        fs.append(Pow(b, ex) if ex != 1 else b)
    m = Mul(*fs)
    if m == 0 or m.is_number:
        return None
    e = Expr(m)
    if len(e) != 1:
        return None
    return e.terms[0]


def classify(term, cv):
    """independent walk over the factors of the term: (kind, name, idx, exp)"""
    out = []
    for o in term.objects:
        s = o.sympy
        if s.is_number:
            out.append(("ONumber", 0, (), 1))
            continue
        base, ex = (s.args if isinstance(s, Pow) else (s, S.One))
        if not ex.is_Integer:
            return None
        ex = int(ex)
        if isinstance(base, (SymbolicTensor, KroneckerDelta)):
            if ex < 0:
                out.append(("OTensor", 0, (), ex))
            else:
                out.append(("OTensor", cv.name(o.longname())[1],
                            cv.idxs(o.idx), ex))
        elif isinstance(base, Symbol):
            out.append(("OSymbol", 0, (), ex))
        else:
            out.append(("OOther", 0, (), ex))
    return out


def expected_objs(cls):
    """relevant objects according to the walk (None: NotImplementedError)"""
    out = []
    for kind, nm, ix, ex in cls:
        if kind == "ONumber":
            continue
        if ex < 0:
            return None
        if kind == "OSymbol":
            continue
        if kind != "OTensor":
            return None
        out.extend([(("B", nm), ix)] * ex)
    return out


CALL_SECONDS = 8          # wall-time limit of one call of the implementation
CALL_RECURSION = 1500     # recursion limit during such a call
MAX_SCHEMES = 30000       # cap on the schemes taken from the generator


class CallTimeout(BaseException):
    pass


def _on_alarm(signum, frame):
    raise CallTimeout()


def call(f, *a, **kw):
    """runs the implementation under a wall-time limit (SIGALRM) and a
    lowered recursion limit: a diverging or exploding call becomes a status
    ('timeout', 'recursion') that is reported as a violation, never a hang"""
    import signal
    old_rec = sys.getrecursionlimit()
    old_h = signal.signal(signal.SIGALRM, _on_alarm)
    signal.setitimer(signal.ITIMER_REAL, CALL_SECONDS)
    sys.setrecursionlimit(CALL_RECURSION)
    try:
        return ("ok", f(*a, **kw))
    except CallTimeout:
        return ("timeout", f"no result within {CALL_SECONDS} s")
    except RecursionError:          # (subclass of RuntimeError)
        return ("recursion", f"recursion deeper than {CALL_RECURSION}")
    except MemoryError:
        return ("timeout", "MemoryError")
    except AssertionError:
        return ("assert", None)
    except NotImplementedError:     # (subclass of RuntimeError)
        return ("notimpl", None)
    except RuntimeError:
        return ("runtime", None)
    except TypeError as ex:
        return ("typeerror", str(ex))
    except Exception as ex:     # anything else: reported by the caller
        return ("exception", repr(ex))
    finally:
        signal.setitimer(signal.ITIMER_REAL, 0)
        signal.signal(signal.SIGALRM, old_h)
        sys.setrecursionlimit(old_rec)


DIVERGED = ("timeout", "recursion", "exception", "too-many")


class Case:
    pass


def observe(spec):
    """run the implementation on one case specification"""
    c = Case()
    c.spec = spec
    c.sel = c.un = c.enum = c.groups = c.objs = c.diverged = None
    c.opt_lit = ("notimpl", None)
    c.un_status = c.opt_status = "ok"
    c.names_str = ()
    c.term = build_term(spec["factors"])
    if c.term is None:
        return None
    cv = c.cv = U.Conv()
    tgs = [sym_of(x) for x in spec["target"]]
    c.tstr = "".join(x[0] for x in spec["target"])
    c.tspin = "".join(x[1] for x in spec["target"]) or None
    if c.tspin is not None and len(c.tspin) != len(spec["target"]):
        return None      # mixed spin / no spin targets cannot be requested
    c.tg = cv.idxs(tgs)
    c.mid, c.mg = spec.get("mid"), spec.get("mg")
    c.cls = classify(c.term, cv)
    if c.cls is None:
        return None
    c.objs = expected_objs(c.cls)
    # unoptimised contraction (also shows the extracted objects)
    c.cnt_un = U.counter_value()
    st, un = call(OC.unoptimized_contraction, c.term, c.tstr, c.tspin)
    c.un_status = st
    c.diverged = None
    if st in DIVERGED:
        c.diverged = ("unoptimized_contraction", st, un)
        c.un = None
        return c
    c.un = U.conv_scheme(un, cv) if st == "ok" else None
    c.sel = None
    c.opt_lit = ("notimpl", None)
    if c.objs is None:
        st2, r2 = call(OC.optimize_contractions, c.term, c.tstr, c.tspin,
                       c.mid, c.mg)
        c.opt_status = st2
        if st2 in DIVERGED:
            c.diverged = ("optimize_contractions", st2, r2)
        return c
    if st == "ok":
        c.extracted = list(zip(c.un[0]["names"], c.un[0]["idx"]))
    else:
        c.extracted = None
    # _group_objects
    idxs_sym = []
    names_str = []
    for o in c.term.objects:
        base, ex = o.base_and_exponent
        if o.sympy.is_number or isinstance(base, Symbol):
            continue
        names_str.extend(o.longname() for _ in range(int(ex)))
        idxs_sym.extend(o.idx for _ in range(int(ex)))
    c.names_str, c.idxs_sym = tuple(names_str), tuple(idxs_sym)
    tgt = tuple(tgs)
    st, g = call(OC._group_objects, c.idxs_sym, tgt, c.mg)
    if st in DIVERGED:
        c.diverged = ("_group_objects", st, g)
        return c
    c.groups = [list(x) for x in g] if st == "ok" else None
    # enumeration
    c.cnt_enum = U.counter_value()
    c.enum = None
    if len(c.objs) >= 2:
        import itertools
        st, ss = call(lambda: list(itertools.islice(
            OC._optimize_contractions(c.names_str, c.idxs_sym, tgt, c.mid,
                                      c.mg), MAX_SCHEMES + 1)))
        if st == "ok" and len(ss) > MAX_SCHEMES:
            st, ss = "too-many", f"more than {MAX_SCHEMES} schemes"
        c.enum_status = st
        if st == "ok":
            c.enum = [U.conv_scheme(s, cv) for s in ss]
        elif st in DIVERGED:
            c.diverged = ("_optimize_contractions", st, ss)
            return c
    c.cnt_enum_after = U.counter_value()
    # optimize_contractions
    c.cnt_opt = U.counter_value()
    c.sel = None
    c.opt_lit = ("notimpl", None)
    st, res = call(OC.optimize_contractions, c.term, c.tstr, c.tspin, c.mid,
                   c.mg)
    c.opt_status = st
    c.cnt_opt_after = U.counter_value()
    c.sel = None
    if st in DIVERGED:
        c.diverged = ("optimize_contractions", st, res)
        return c
    if st == "ok":
        if isinstance(res, Contraction):
            c.opt_lit = ("bare", U.conv_step(res, cv))
        elif res == []:
            c.opt_lit = ("empty", None)
        else:
            c.sel = U.conv_scheme(res, cv)
            c.opt_lit = ("scheme", c.sel)
    else:
        c.opt_lit = (st, None)
    return c


def coq_case(c):
    L = U.Lit()
    if c.objs is None:
        return None
    objs = L.objs(c.objs)
    tg = L.il(c.tg)
    groups = "None" if c.groups is None else \
        "(Some [" + ";".join("[" + ";".join(map(str, g)) + "]"
                             for g in c.groups) + "])"
    kind, val = c.opt_lit
    if kind == "scheme":
        po = f"(OScheme {L.scheme(val)} {c.cnt_opt_after}%N)"
    else:
        # "bare" / "typeerror" (the repaired single-object defect) have no
        # counterpart in the model any more: any value that differs from the
        # model's OScheme makes the comparison fail
        po = {"empty": "OEmpty", "assert": "OAssert",
              "runtime": "ONoScheme"}.get(kind, "OAssert")
    un = L.scheme(c.un) if c.un is not None else "[]"
    body = (f"check_case {objs} {tg} {U.opt(c.mid)} {U.opt(c.mg)} {groups} "
            f"{c.cnt_enum}%N {c.cnt_opt}%N {po} {c.cnt_un}%N {un}")
    return L.wrap(body)


def coq_relevant(c):
    L = U.Lit()
    items = []
    for kind, nm, ix, ex in c.cls:
        e = f"({ex})%Z"
        items.append(f"(TObj {kind} {nm} {L.il(ix)} {e})")
    exp = "None" if c.objs is None else f"(Some {L.objs(c.objs)})"
    ext = "None" if c.un is None else \
        f"(Some {L.objs(list(zip(c.un[0]['names'], c.un[0]['idx'])))})"
    body = ("let m := relevant_objs [" + ";".join(items) + "] in "
            "let eq := fun a b => match a, b with None, None => true "
            "| Some x, Some y => list_eqb obj_eqb x y | _, _ => false end in "
            f"(eq m {exp}, eq m {ext})")
    return L.wrap(body)


_RE_B = {k: re.compile(k + r" := (true|false)") for k in (
    "r_groups_ok", "r_selected_ok", "r_selected_wf", "r_limits_ok",
    "r_scaling_ok", "r_le_hyper", "r_unopt_ok", "r_unopt_wf")}


def parse_result(v):
    out = {k: (m.group(1) == "true") for k, r in _RE_B.items()
           for m in [r.search(v)] if m}
    m = re.search(r"r_enum_digests := \[(.*?)\]", v)
    out["digests"] = [int(x) for x in re.findall(r"\d+", m.group(1))]
    m = re.search(r"r_enum_cnt := (\d+)", v)
    out["enum_cnt"] = int(m.group(1))
    m = re.search(r"r_enum_wf := \[(.*?)\]", v)
    out["enum_wf"] = [x == "true" for x in re.findall(r"true|false", m.group(1))]
    return out


# --------------------------------------------------------------------------
# generators
OCC, VIRT, GEN = "ijklmn", "abcdef", "pqrs"


def _pool(rng, size, spins):
    pool = []
    letters = {"o": list(OCC), "v": list(VIRT), "g": list(GEN)}
    w = rng.choice(["o", "ov", "ov", "ovg", "og"])
    for n in range(size):
        sp = rng.choice(w)
        if not letters[sp]:     # numbered names: i1, a1, p1, i2, ...
            base = {"o": OCC, "v": VIRT, "g": GEN}[sp]
            num = 1 + n // 4
            letters[sp] = [f"{x}{num}" for x in base
                           if not any(q[0] == f"{x}{num}" for q in pool)]
        nm = letters[sp].pop(0)
        spin = rng.choice("ab") if spins else ""
        pool.append((nm, spin))
    return pool


def gen_pattern(rng):
    style = rng.choice(["chain", "random", "random", "hyper", "hyper",
                        "trace", "outer", "disconnected", "exponent",
                        "eri"])
    n = rng.choice([1, 2, 2, 3, 3, 3, 4, 4, 4, 5, 5, 6])
    spins = rng.random() < 0.15
    names = ["A", "B", "C", "D", "F", "G"][:n]   # E, I, N, O, Q, S: sympy
    if rng.random() < 0.3:
        names = [rng.choice(names[:max(1, n // 2)]) for _ in range(n)]
    objs = [[] for _ in range(n)]
    if style == "chain":
        pool = _pool(rng, n + rng.randint(0, 3), spins)
        for k in range(n):
            objs[k].append(pool[k % len(pool)])
            objs[k].append(pool[(k + 1) % len(pool)])
        for x in pool[n + 1:]:
            a, b = rng.randrange(n), rng.randrange(n)
            objs[a].append(x)
            if len(objs[b]) < 4:
                objs[b].append(x)
    elif style in ("random", "trace", "exponent"):
        pool = _pool(rng, rng.randint(1, 6), spins)
        for k in range(n):
            r = rng.choice([0, 1, 1, 2, 2, 2, 3, 4])
            if style == "trace" or rng.random() < 0.1:
                objs[k] = [rng.choice(pool) for _ in range(r)]
            else:
                objs[k] = rng.sample(pool, min(r, len(pool)))
        if style == "exponent" and n >= 2:
            a, b = rng.sample(range(n), 2)
            objs[b] = list(objs[a])
            names[b] = names[a]
    elif style == "hyper":
        pool = _pool(rng, rng.randint(2, 6), spins)
        nh = rng.choice([1, 1, 2])
        for h in pool[:nh]:
            for k in rng.sample(range(n), min(n, rng.choice([3, 3, 4]))):
                objs[k].append(h)
        for k in range(n):
            extra = rng.sample(pool[nh:], min(len(pool) - nh,
                                              rng.randint(0, 2)))
            objs[k] = (objs[k] + extra)[:4]
    elif style == "outer":
        pool = _pool(rng, rng.randint(n, 2 * n + 1), spins)
        rng.shuffle(pool)
        for k in range(n):
            take = rng.randint(0, 2)
            objs[k] = [pool.pop() for _ in range(min(take, len(pool)))]
        if n >= 2 and rng.random() < 0.5 and objs[0]:
            objs[1].append(objs[0][0])
    elif style == "disconnected":
        pool = _pool(rng, rng.randint(2, 6), spins)
        half = max(1, len(pool) // 2)
        for k in range(n):
            part = pool[:half] if k % 2 == 0 else pool[half:]
            if not part:
                part = pool
            objs[k] = rng.sample(part, min(len(part), rng.randint(1, 3)))
    else:  # eri-like transformation
        pool = _pool(rng, 8, spins)
        m = min(4, n - 1) if n > 1 else 0
        objs[0] = pool[:4]
        for k in range(1, n):
            objs[k] = [pool[4 + (k - 1) % 4], pool[(k - 1) % max(1, m)]]
    factors = [("T", names[k], objs[k], 1) for k in range(n)]
    return factors, style


def targets_for(rng, factors, consistent=True):
    cnt = {}
    order = []
    for kind, _, ixs, ex in factors:
        if kind in ("symbol", "number"):
            continue
        for x in ixs:
            if x not in cnt:
                order.append(x)
            cnt[x] = cnt.get(x, 0) + max(ex, 1)
    once = [x for x in order if cnt[x] == 1]
    multi = [x for x in order if cnt[x] > 1]
    tg = list(once)
    if multi and rng.random() < 0.2:
        tg += rng.sample(multi, rng.randint(1, min(2, len(multi))))
    if not consistent and once:
        tg.remove(rng.choice(once))
    if rng.random() < 0.5:
        rng.shuffle(tg)
    else:
        tg.sort(key=lambda x: ({"o": 1, "v": 2, "g": 0}[
            "o" if x[0] in OCC else "v" if x[0] in VIRT else "g"],
            {"": 0, "a": 1, "b": 2}[x[1]], x[0]))
    # a request needs either no or all spins
    if tg and len({bool(x[1]) for x in tg}) > 1:
        return None
    return tg


def limits_for(rng):
    mid = rng.choice([None, None, None, 0, 1, 2, 3, 4])
    mg = rng.choice([None, None, None, None, 2, 2, 3, 4, 1])
    return mid, mg


def T(name, ixs, ex=1, kind="T"):
    return (kind, name, [(x, "") for x in ixs], ex)


def corpus():
    """fixed inputs: repo tests, the known failing input, inputs sensitive to
    the mutations listed in DESIGN.md"""
    out = []

    def add(label, factors, target, mid=None, mg=None):
        out.append({"label": label, "factors": factors,
                    "target": [(x, "") if isinstance(x, str) else x
                               for x in target], "mid": mid, "mg": mg})
    add("known:A_ij,B_ik,C_ij,D_j->k",
        [T("A", "ij"), T("B", "ik"), T("C", "ij"), T("D", "j")], "k")
    add("repo:test_factor", [T("d", "ia", 2, "anti"), T("d", "jb", 2, "anti")],
        "")
    add("repo:test_nested", [T("Y", "jb", 1, "anti"),
                             T("t1", "jkbc", 1, "amp"),
                             T("t2eri4", "ikac")], "ia")
    add("repo:contraction_test:swap", [T("f", "ik", 1, "anti"),
                                       T("f", "jk", 1, "anti")], "ji")
    add("repo:contraction_test:nonEinstein",
        [T("f", "ik"), T("f", "jk", 2)], "i")
    for mid, mg in ((4, None), (4, 4), (4, 3), (None, None), (2, None)):
        add(f"repo:test_hypercontraction:{mid}:{mg}",
            [T("X", "ia"), T("V", "ibce"), T("V", "jacd"), T("Y", "jb"),
             T("D", "ijec"), T("D", "ijcd")], "de", mid, mg)
    add("eri-transformation", [T("V", "pqrs"), T("C", "ip"), T("C", "jq"),
                               T("C", "kr"), T("C", "ls")], "ijkl")
    add("eri-transformation:shuffled", [T("V", "pqrs"), T("C", "ip"),
                                        T("C", "jq"), T("C", "kr"),
                                        T("C", "ls")], "ljik", 4)
    add("eri-transformation:mid2", [T("V", "pqrs"), T("C", "ip"),
                                    T("C", "jq"), T("C", "kr"),
                                    T("C", "ls")], "ijkl", 2)
    add("outer-target-order", [T("A", "ia"), T("B", "jb")], "bjai")
    add("outer-target-order:inner-same-set",
        [T("A", "ia"), T("B", "jb"), T("C", "")], "jbia", 2)
    add("limit-outer-step", [T("A", "ijk"), T("B", "kab")], "ijab", 2)
    add("limit-inner-step", [T("A", "ijk"), T("B", "kab"), T("C", "ijc")],
        "abc", 2)
    add("limit-inner-step:3", [T("A", "ijk"), T("B", "kab"), T("C", "ijc")],
        "abc", 3)
    add("trace", [T("A", "iijj")], "")
    add("partial-trace-pair", [T("A", "iij"), T("B", "jkk")], "")
    add("scaling-duplicates", [T("A", "iiab"), T("B", "abjj")], "")
    add("target-repeated-index", [T("A", "ij"), T("B", "ij")], "i")
    add("target-repeated-index:3", [T("A", "ij"), T("B", "ij"),
                                    T("C", "jk")], "ik")
    add("exponent", [T("A", "ij", 2), T("B", "jk")], "k")
    add("exponent:3", [T("A", "ia", 3)], "")
    add("single-object", [T("A", "ij")], "ji")
    add("single-object:rank0", [T("A", "")], "")
    add("single-object:prefactor", [("number", "1/2", [], 1),
                                    ("symbol", "x", [], 1), T("A", "ia")],
        "ia")
    add("no-object", [("number", "3/2", [], 1), ("symbol", "x", [], 2)], "")
    add("symbol-negative-exponent", [("symbol", "x", [], -1), T("A", "ij"),
                                     T("B", "ij")], "")
    add("tensor-negative-exponent", [T("A", "ij", -1), T("B", "ij")], "")
    add("polynomial-factor", [("poly", "e", [("i", ""), ("a", "")], 1),
                              T("B", "ia")], "")
    add("delta", [("delta", "d", [("i", ""), ("j", "")], 1), T("A", "jk"),
                  T("B", "ik")], "")
    add("hyper3", [T("A", "ij"), T("B", "ik"), T("C", "il")], "jkl")
    add("hyper3:max2", [T("A", "ij"), T("B", "ik"), T("C", "il")], "jkl",
        None, 2)
    add("hyper4", [T("A", "ia"), T("B", "ib"), T("C", "ic"), T("D", "id")],
        "abcd", 3, None)
    add("max_n=1", [T("A", "ij"), T("B", "jk")], "ik", None, 1)
    add("spin", [("T", "A", [("i", "a"), ("j", "b")], 1),
                 ("T", "B", [("j", "b"), ("k", "a")], 1)],
        [("k", "a"), ("i", "a")])
    add("spin:same-name", [("T", "A", [("i", "a"), ("i", "b")], 1),
                           ("T", "B", [("i", "b"), ("j", "a")], 1)],
        [("i", "a"), ("j", "a")])
    add("group-test:1", [T("A", "ij"), T("B", "jk"), T("C", "jk"),
                         T("D", "ik")], "")
    add("group-test:isolated", [T("A", "pqps"), T("B", "ip"), T("C", "jp"),
                                T("D", "kr"), T("F", "ls")], "ijl")
    # canonical cores of the inputs on which the selected scheme was wrong
    # before the fix (leak guard in _optimize_contractions): regression corpus,
    # the violation is reported again if the defect returns
    for core in KNOWN_CORES:
        pat, _, lim = core.partition(";")
        lhs, tgt = pat.split("->")
        mg = int(lim.split("=")[1]) if lim.startswith("max_n=") else None
        add("known-core:" + core,
            [T("ABCDFGH"["ABCDEFG".index(o.split("_")[0])], o.split("_")[1])
             for o in lhs.split(",")],     # (E would be sympy's Exp1)
            tgt, None, mg)
    return out


KNOWN_CORES = [
    "A_i,B_ij,C_ij,D_jk->k", "A_i,B_ij,C_ij,D_j->;max_n=3",
    "A_i,B_i,C_ij,D_ij,E_j->;max_n=4", "A_i,A_i,B_ijj,C_jk->k",
    "A_ij,A_ij,B_i,C_jk->k", "A_,B_iij,C_ij,D_jk->k",
    "A_ij,A_ij,B_i,C_j->;max_n=3", "A_i,B_ij,C_ijk,D_jk,E_k->;max_n=4",
    "A_i,A_i,B_i,C_ijj,D_j->;max_n=4", "A_,B_ij,C_ijj,D_ik->k"]


def history_stream(rng, quick):
    """sequences of requests for the SAME objects (identical index tuples)
    with different target sets / orders in one process: the result of a
    request must not depend on earlier requests.  Runs first, so that the
    recorded sequence replays in a fresh process."""
    out = []

    def seq(label, factors, targets):
        for n, tg in enumerate(targets):
            out.append({"label": f"hist:{label}:{n}", "factors": factors,
                        "target": [(x, "") if isinstance(x, str) else x
                                   for x in tg], "mid": None, "mg": None,
                        "stream": "history"})
    seq("AiaBijabCjb", [T("A", "ia"), T("B", "ijab"), T("C", "jb")],
        ["", "jb", "ia", "ai", "bj", "", "ijab", "ib"])
    seq("XijYij", [T("X", "ij"), T("Y", "ij")], ["i", "j", "ji", "", "ij"])
    seq("chain", [T("A", "ij"), T("B", "jk"), T("C", "kl")],
        ["il", "li", "ijl", "il", "ljki", "kli"])
    seq("AijBijCj", [T("A", "ij"), T("B", "ij"), T("C", "j")],
        ["", "j", "ij", "i", ""])
    seq("anti", [T("Y", "jb", 1, "anti"), T("t1", "jkbc", 1, "amp"),
                 T("W", "ikac")], ["ia", "ai", "iakc", "ia"])
    seq("trace", [T("A", "iij"), T("B", "jkk")], ["", "j", "i", "ik", ""])
    n_rand = 6 if quick else 30
    k = tries = 0
    while k < n_rand and tries < 400:
        tries += 1
        factors, style = gen_pattern(rng)
        cnt = {}
        for f in factors:
            for x in f[2]:
                cnt[x] = cnt.get(x, 0) + 1
        once = [x for x in cnt if cnt[x] == 1]
        multi = [x for x in cnt if cnt[x] > 1]
        if len(factors) < 2 or not multi or \
                len({bool(x[1]) for x in cnt}) > 1:
            continue
        tgs = []
        for _ in range(rng.randint(3, 5)):
            t = once + rng.sample(multi, rng.randint(0, min(3, len(multi))))
            rng.shuffle(t)
            tgs.append(t)
        tgs.append(list(tgs[0]))
        seq(f"rand{k}:{style}", factors, tgs)
        k += 1
    return out


def gen_cases(ctx):
    rng = ctx.rng
    quick = ctx.tier == "quick"
    cases = history_stream(rng, quick) + list(corpus())
    n_rand = 420 if quick else 2600
    k = 0
    tries = 0
    while k < n_rand and tries < 20 * n_rand:
        tries += 1
        factors, style = gen_pattern(rng)
        stream = "valid"
        r = rng.random()
        if r < 0.06:
            stream = "nonEinstein"
        elif r < 0.14:
            stream = "extras"
            extra = rng.choice([
                [("number", rng.choice(["1/2", "-2", "3"]), [], 1)],
                [("symbol", "x", [], rng.choice([1, 2]))],
                [("symbol", "x", [], -1)],
                [("number", "1/4", [], 1), ("symbol", "y", [], 1)]])
            factors = factors + extra
            if rng.random() < 0.15 and factors[0][2]:
                f0 = factors[0]
                factors[0] = (f0[0], f0[1], f0[2], -1)
        tg = targets_for(rng, factors, consistent=(stream != "nonEinstein"))
        if tg is None:
            continue
        mid, mg = limits_for(rng)
        cases.append({"label": f"rand{k}:{style}:{stream}", "factors": factors,
                      "target": tg, "mid": mid, "mg": mg, "stream": stream})
        k += 1
    return cases


# --------------------------------------------------------------------------
def skipped(num):
    return isinstance(num, dict) and "skipped" in num


def failed(num):
    """numeric comparison made and different (or evaluation refused because
    the step data are inconsistent)"""
    return num is not True and not skipped(num)


def summarize(c):
    """verdict of the wf mirror / numeric comparison for one observed case"""
    if c is None:
        return {"ok": True, "kind": "not-a-term"}
    if c.diverged is not None:
        return {"ok": False, "kind": "diverged", "detail": c.diverged[:2]}
    out = {"kind": c.opt_lit[0], "targets": c.tstr}
    ok = True
    if c.sel is not None:
        out["wf"] = U.wf_scheme(c.objs, c.tg, c.sel)
        out["numeric"] = U.numeric_check(c.objs, c.tg, c.sel)
        out["selected"] = scheme_text(c.sel)
        ok = out["wf"] and not failed(out["numeric"])
    if c.un is not None and c.objs is not None:
        out["unopt_wf"] = U.wf_scheme(c.objs, c.tg, c.un)
        out["unopt_numeric"] = U.numeric_check(c.objs, c.tg, c.un)
        ok = ok and out["unopt_wf"] and not failed(out["unopt_numeric"])
    out["ok"] = bool(ok)
    return out


def run_sequence(specs):
    """observes the specifications in order in THIS process"""
    out = []
    for sp in specs:
        sp = dict(sp)
        sp["factors"] = [(f[0], f[1], [tuple(x) for x in f[2]], f[3])
                         for f in sp["factors"]]
        sp["target"] = [tuple(x) for x in sp["target"]]
        c = observe(sp)
        if c is not None and not spec_consistent(c):
            out.append({"ok": True, "kind": "inconsistent-request"})
        else:
            out.append(summarize(c))
    return out


def fresh_run(specs, timeout=90):
    """the same specifications in a fresh interpreter (no process history);
    list of verdicts, or None if the subprocess failed"""
    import json
    import subprocess
    code = ("import sys, json; sys.setrecursionlimit(100000); "
            "import props.c16 as m; "
            "print('C16FRESH' + json.dumps(m.run_sequence(json.loads("
            "sys.stdin.read())), default=str))")
    try:
        p = subprocess.run([sys.executable, "-c", code],
                           input=json.dumps(specs), capture_output=True,
                           text=True, timeout=timeout)
    except subprocess.TimeoutExpired:
        return [{"ok": False, "kind": "timeout"}]
    for ln in p.stdout.splitlines():
        if ln.startswith("C16FRESH"):
            return json.loads(ln[8:])
    return None


def spec_consistent(c):
    """requested targets distinct and containing every index that occurs
    exactly once among the relevant objects"""
    if c.objs is None:
        return True
    cnt = {}
    for _, ix in c.objs:
        for x in ix:
            cnt[x] = cnt.get(x, 0) + 1
    return len(set(c.tg)) == len(c.tg) and \
        all(x in c.tg for x, n in cnt.items() if n == 1) and \
        all(x in cnt for x in c.tg)


def selected_fails(spec):
    """used by the shrinker: does the scheme selected by the implementation
    fail wf (Python mirror) on this (Einstein-consistent) specification?"""
    try:
        c = observe(spec)
    except Exception:
        return None
    if c is None or c.objs is None or c.sel is None or not spec_consistent(c):
        return None
    if U.wf_scheme(c.objs, c.tg, c.sel):
        return None
    return c


def shrink(spec):
    """greedy shrinking of a failing specification: drop factors, drop index
    occurrences, drop limits; targets are recomputed to stay consistent"""
    best = spec
    improved = True

    def variants(s):
        fs = s["factors"]
        for k in range(len(fs)):
            yield dict(s, factors=fs[:k] + fs[k + 1:])
        for k, f in enumerate(fs):
            for p in range(len(f[2])):
                g = (f[0], f[1], f[2][:p] + f[2][p + 1:], f[3])
                yield dict(s, factors=fs[:k] + [g] + fs[k + 1:])
            if f[3] > 1:
                yield dict(s, factors=fs[:k] + [(f[0], f[1], f[2], f[3] - 1)]
                           + fs[k + 1:])
        if s.get("mid") is not None:
            yield dict(s, mid=None)
        if s.get("mg") is not None:
            yield dict(s, mg=None)
        for p in range(len(s["target"])):
            yield dict(s, target=s["target"][:p] + s["target"][p + 1:])

    def fix_targets(s):
        cnt = {}
        for kind, _, ixs, ex in s["factors"]:
            if kind in ("symbol", "number"):
                continue
            for x in ixs:
                cnt[x] = cnt.get(x, 0) + ex
        tg = [x for x in s["target"] if x in cnt]
        tg += [x for x, n in cnt.items() if n == 1 and x not in tg]
        return dict(s, target=tg)

    import time
    steps = 0
    deadline = time.time() + 15
    while improved and steps < 200 and time.time() < deadline:
        improved = False
        for v in variants(best):
            if time.time() > deadline:
                break
            steps += 1
            v = fix_targets(v)
            if selected_fails(v) is not None:
                best = v
                improved = True
                break
    return canonical_core(best)


def _space_of(x):
    return "o" if x[0][0] in "ijklmno" else "v" if x[0][0] in "abcdefgh" \
        else "g"


def _rename(spec, order, to_occ):
    """two passes of _rename1 with the indices inside every object sorted
    by their new names in between (objects are treated as index multisets
    as far as the failure permits; the caller re-checks the failure)"""
    r = _rename1(spec, order, to_occ)
    for _ in range(2):
        if r is None:
            return None
        r = dict(r, factors=[(f[0], f[1], sorted(f[2]), f[3])
                             for f in r["factors"]])
        r = _rename1(r, range(len(r["factors"])), to_occ)
    return r


def _rename1(spec, order, to_occ):
    """factors in the given order, tensors named A, B, ... and indices
    i, j, ... / a, b, ... / p, q, ... in order of first appearance; with
    to_occ every index becomes an occupied index without spin"""
    letters = {"o": "ijklmno", "v": "abcdefgh", "g": "pqrstuvw"}
    ren, used, nren = {}, {"o": 0, "v": 0, "g": 0}, {}

    def rn(x):
        if x not in ren:
            sp = "o" if to_occ else _space_of(x)
            if used[sp] >= len(letters[sp]):
                raise ValueError
            ren[x] = (letters[sp][used[sp]], "" if to_occ else x[1])
            used[sp] += 1
        return ren[x]

    def nn(n):
        if n not in nren:
            nren[n] = "ABCDFGHJKLM"[len(nren)]
        return nren[n]

    fs = []
    for k in order:
        f = spec["factors"][k]
        if f[0] != "T":
            return None
        # one name per object; only entirely identical objects (which sympy
        # merges into a power) share a name
        fs.append(("T", nn((f[1], tuple(f[2]))), [rn(x) for x in f[2]], f[3]))
    tg = [rn(x) for x in spec["target"]]
    tg.sort()
    return dict(spec, factors=fs, target=tg)


def canonical_core(spec):
    """smallest description (over object orders, optionally with all indices
    made occupied/spin-free) on which the implementation still fails"""
    import itertools
    n = len(spec["factors"])
    if n > 6:
        return spec
    # index order inside the objects: sorted, where the failure persists
    for k, f in enumerate(spec["factors"]):
        g = (f[0], f[1], sorted(f[2]), f[3])
        cand = dict(spec, factors=spec["factors"][:k] + [g]
                    + spec["factors"][k + 1:])
        if g != f and selected_fails(cand) is not None:
            spec = cand
    import time
    deadline = time.time() + 15
    best, best_key = None, None
    for to_occ in (True, False):
        for order in itertools.permutations(range(n)):
            if time.time() > deadline:
                break
            try:
                cand = _rename(spec, order, to_occ)
            except ValueError:
                cand = None
            if cand is None:
                continue
            cc = selected_fails(cand)
            if cc is None:
                continue
            key = U.pattern_key(cc.objs, cc.tg, cc.mid, cc.mg)
            if best_key is None or (len(key), key) < (len(best_key), best_key):
                best, best_key = cand, key
        if best is not None:
            return best
    return spec


def describe(c):
    return {"label": c.spec.get("label"), "spec": c.spec,
            "term": str(c.term.sympy), "target_indices": c.tstr,
            "target_spin": c.tspin, "max_itmd_dim": c.mid,
            "max_n_simultaneous_contracted": c.mg,
            "objects": [f"{n}:{''.join(map(repr, ix))}"
                        for n, ix in (c.objs or [])],
            "pattern": U.pattern_key(c.objs or [], c.tg, c.mid, c.mg)}


def scheme_text(s):
    return [{"id": st["id"],
             "names": [f"{n[0]}{n[1]}" for n in st["names"]],
             "indices": ["".join(map(repr, t)) for t in st["idx"]],
             "contracted": "".join(map(repr, st["contracted"])),
             "target": "".join(map(repr, st["target"])),
             "comp": st["comp"], "mem": st["mem"]} for st in s]


def run(ctx):
    import time
    t0 = time.time()
    specs = gen_cases(ctx)
    obs = []
    diverged = []
    hist_specs = [sp for sp in specs if sp.get("stream") == "history"]
    for spec in specs:
        if len(diverged) >= 4:      # circuit breaker: bounded run time
            ctx.note("stopped observing after 4 diverging calls; "
                     f"{len(specs) - specs.index(spec)} specifications not run")
            break
        c = observe(spec)
        if c is None:
            continue
        if c.diverged is not None:
            diverged.append(c)
            continue
        obs.append(c)
    ctx.note(f"{len(specs)} specifications, {len(obs)} observed cases, "
             f"{round(time.time() - t0, 1)} s")
    t0 = time.time()

    # --- Coq evaluation ----------------------------------------------------
    rel_vals, _ = ctx.coq_eval("rel", [coq_relevant(c) for c in obs],
                               header=U.COQ_HEADER, shard=150)
    main = [c for c in obs if c.objs is not None]
    vals, _ = ctx.coq_eval("case", [coq_case(c) for c in main],
                           header=U.COQ_HEADER, shard=40)
    res = dict(zip([id(c) for c in main], vals))
    ctx.note(f"coq evaluation {round(time.time() - t0, 1)} s")

    stats = {"enumerated_schemes": 0, "enumerated_not_wf": 0,
             "selected_not_wf": 0, "numeric_runs": 0, "steps_selected": 0}
    reported = set()
    budget = {"fresh": 3, "shrink": 6, "history_mode": False,
              "generic_history": []}
    cat_count = {}

    def violation(key, what, rep, found):
        if key in reported:
            return
        reported.add(key)
        cat = ":".join(key.split(":")[:3]) if "mismatch" in key \
            else ":".join(key.split(":")[:2])
        cat_count[cat] = cat_count.get(cat, 0) + 1
        if cat_count[cat] > 25:     # the rest is counted in the notes
            return
        ctx.violation(key, what, rep, found)

    def sequence_for(c):
        """history-stream cases: all requests of the stream up to this one
        (the stream runs first in the process)"""
        if c.spec.get("stream") != "history":
            return None
        return hist_specs[:hist_specs.index(c.spec) + 1]

    for c in diverged:
        d = describe(c)
        fn, st, detail = c.diverged
        seq = sequence_for(c)
        fresh = None
        if seq is None and budget["fresh"] > 0:
            budget["fresh"] -= 1
            fresh = fresh_run([c.spec])
        ctx.obligation(f"implementation terminates: {d['label']}", False)
        violation(f"C16:diverges:{fn}:{d['pattern']}",
                  f"{fn} does not return ({st}: {detail}) on a request that "
                  "the model answers" + (
                      "; the same request alone in a fresh process: "
                      f"{fresh}" if fresh is not None else ""),
                  {"case": d, "status": st, "detail": str(detail),
                   "sequence": seq, "fresh_process": fresh,
                   "earlier_requests_in_process": specs.index(c.spec)}, True)

    def check_case(c, rv, viol):
        d = describe(c)
        consistent = spec_consistent(c)
        nobj = len(c.objs) if c.objs is not None else -1
        stream = c.spec.get("stream", "corpus")
        ctx.case(key=(d["pattern"], str(c.term.sympy)),
                 nontrivial=nobj >= 2,
                 sample={"term": d["term"], "targets": c.tstr,
                         "limits": [c.mid, c.mg],
                         "selected": scheme_text(c.sel) if c.sel else
                         c.opt_lit[0] if c.objs is not None else "notimpl"},
                 kind=f"{stream if not consistent or stream in ('corpus', 'history') else c.spec['label'].split(':')[1]}"
                      f":n{min(nobj, 6)}")
        # object extraction
        ok = rv is not None and rv.replace(" ", "") == "(true,true)"
        if c.objs is None:
            ok = ok and c.un_status == "notimpl" and c.opt_status == "notimpl"
        if not ctx.obligation(f"relevant_objs {d['label']}", ok, str(rv)):
            viol(f"C16:model-mismatch:relevant_objs:{d['pattern']}",
                      "extraction of the relevant objects differs from the "
                      "model", {"case": d, "coq": rv, "classified": str(c.cls),
                                "un_status": c.un_status}, False)
        if c.objs is None:
            return
        v = res.get(id(c))
        if v is None:
            ctx.obligation(f"coq evaluation {d['label']}", False)
            viol(f"C16:coq-eval-failed:{d['label']}",
                      "Coq evaluation of the model failed", {"case": d}, False)
            return
        r = parse_result(v)
        # groups / enumeration / selection / unoptimised: exact
        py_dig = [U.scheme_digest(s) for s in (c.enum or [])]
        checks = [
            ("group_objects", r["r_groups_ok"]),
            ("enumerated schemes", r["digests"] == py_dig),
            ("instance counter after enumeration",
             r["enum_cnt"] == c.cnt_enum_after),
            ("optimize_contractions result", r["r_selected_ok"]),
            ("unoptimized_contraction", r["r_unopt_ok"]
             if c.un is not None else False),
        ]
        for nm, okk in checks:
            if not ctx.obligation(f"{nm} = model: {d['label']}", okk):
                viol(f"C16:model-mismatch:{nm}:{d['pattern']}",
                          f"{nm}: implementation and Gallina model differ",
                          {"case": d, "coq": v[:3000],
                           "python_groups": c.groups,
                           "python_selected": scheme_text(c.sel or []),
                           "python_n_schemes": len(c.enum or [])}, False)
        # wf mirror consistency on every enumerated scheme
        py_wf = [U.wf_scheme(c.objs, c.tg, s) for s in (c.enum or [])]
        stats["enumerated_schemes"] += len(py_wf)
        if not ctx.obligation(f"wf mirror = Coq wf_scheme: {d['label']}",
                              py_wf == r["enum_wf"] or r["digests"] != py_dig):
            viol(f"C16:harness:wf-mirror:{d['pattern']}",
                      "Python mirror of wf_scheme disagrees with Coq",
                      {"case": d}, False)
        stats["enumerated_not_wf"] += sum(1 for x in r["enum_wf"] if not x)
        if not consistent:
            # correspondence only (precondition violated); the model predicts
            # and the evaluation confirms that such requests are not computed
            stats["inconsistent_requests"] = \
                stats.get("inconsistent_requests", 0) + 1
            if c.sel is not None and not r["r_selected_wf"]:
                stats["inconsistent_not_wf"] = \
                    stats.get("inconsistent_not_wf", 0) + 1
            return
        # every enumerated scheme is well-formed (theorem
        # C16_enumerate_schemes_wf for the model; here on the implementation)
        # (Coq's verdicts are those of the model's enumeration; if the
        # implementation enumerates something else the mirror decides)
        impl_wf = r["enum_wf"] if r["digests"] == py_dig else py_wf
        bad = [k for k, x in enumerate(impl_wf) if not x]
        stats["enumerated_not_wf_consistent"] = \
            stats.get("enumerated_not_wf_consistent", 0) + len(bad)
        if not ctx.obligation(f"all enumerated schemes wf: {d['label']}",
                              not bad):
            viol("C16:enumerated-scheme-not-wf:" + d["pattern"],
                      "_optimize_contractions yields a scheme rejected by "
                      "wf_scheme", {"case": d, "scheme": scheme_text(
                          c.enum[bad[0]]) if c.enum else None,
                          "n_bad": len(bad)}, True)
        # --- the property itself on the returned schemes -------------------
        kind = c.opt_lit[0]
        if kind in ("typeerror", "bare"):
            what = ("optimize_contractions raises TypeError for a term with "
                    "a single tensor" if kind == "typeerror" else
                    "optimize_contractions returns a bare Contraction (not a "
                    "list) for a term with a single index-free tensor")
            ctx.obligation(f"single object handled: {d['label']}", False)
            viol(f"C16:single-object:{kind}", what,
                      {"case": d, "detail": c.opt_lit[1] if kind ==
                       "typeerror" else scheme_text([c.opt_lit[1]])}, True)
        if c.sel is not None:
            stats["steps_selected"] += len(c.sel)
            num = U.numeric_check(c.objs, c.tg, c.sel)
            stats["numeric_runs"] += 0 if skipped(num) else 1
            stats["numeric_skipped"] = stats.get("numeric_skipped", 0) + \
                (1 if skipped(num) else 0)
            wf = r["r_selected_wf"]
            ctx.obligation(f"selected scheme wf (Coq): {d['label']}", wf)
            if not wf:
                stats["selected_not_wf"] += 1
                if not failed(num):
                    stats["not_wf_but_numerically_equal"] = \
                        stats.get("not_wf_but_numerically_equal", 0) + 1
                hist = c.spec.get("stream") == "history"
                fresh = None
                if not hist and not budget["history_mode"] and \
                        budget["fresh"] > 0:
                    budget["fresh"] -= 1
                    fresh = fresh_run([c.spec])
                    if fresh and fresh[-1].get("ok"):
                        budget["history_mode"] = True
                if budget["history_mode"] and not hist:
                    # the request alone is answered correctly: the failure
                    # depends on the process history; shrinking is pointless
                    budget["generic_history"].append(d["label"])
                    return
                cc = c
                if not hist and budget["shrink"] > 0:
                    budget["shrink"] -= 1
                    core = shrink(dict(c.spec))
                    cc = selected_fails(core) or c
                cnum = U.numeric_check(cc.objs, cc.tg, cc.sel)
                key = "C16:selected-scheme-not-wf:" + U.pattern_key(
                    cc.objs, cc.tg, cc.mid, cc.mg)
                viol(
                    key, "optimize_contractions returns a scheme that does "
                    "not compute the term: a step sums an index that still "
                    "occurs outside the step, or the last step does not "
                    "carry the requested targets (wf_scheme = false in Coq)",
                    {"case": d, "selected": scheme_text(c.sel),
                     "numeric": num, "shrunk_case": describe(cc),
                     "shrunk_selected": scheme_text(cc.sel),
                     "shrunk_numeric": cnum, "fresh_process": fresh,
                     "groups": c.groups},
                    (failed(num) or failed(cnum)))
            elif failed(num):
                ctx.obligation(f"numeric value: {d['label']}", False)
                viol(f"C16:value:{d['pattern']}",
                          "well-formed scheme does not evaluate to the term "
                          "(contradicts wf_scheme_correct: harness error?)",
                          {"case": d, "selected": scheme_text(c.sel),
                           "numeric": num}, True)
            for nm, fld, what in (
                    ("limits", "r_limits_ok", "requested limits violated"),
                    ("reported scaling", "r_scaling_ok",
                     "reported scaling is not the number of distinct "
                     "indices per space"),
                    ("scaling <= simultaneous contraction", "r_le_hyper",
                     "a step scales worse than the simultaneous contraction")):
                if not ctx.obligation(f"{nm}: {d['label']}", r[fld]):
                    viol(f"C16:{fld[2:]}:{d['pattern']}", what,
                              {"case": d, "selected": scheme_text(c.sel)},
                              True)
            # names of results are unique and differ from base names
            ids = [st["cname"] for st in c.sel]
            okn = len(set(ids)) == len(ids) and \
                not set(ids) & set(c.names_str)
            if not ctx.obligation(f"unique result names: {d['label']}", okn):
                viol(f"C16:names:{d['pattern']}", "result names of the "
                          "contractions are not unique", {"case": d}, True)
        if c.un is not None:
            numu = U.numeric_check(c.objs, c.tg, c.un)
            stats["numeric_runs"] += 0 if skipped(numu) else 1
            oku = r["r_unopt_wf"] and not failed(numu)
            if not ctx.obligation(f"unoptimized wf + value: {d['label']}",
                                  oku):
                viol(f"C16:unoptimized:{d['pattern']}",
                          "unoptimized_contraction is not well-formed or "
                          "does not evaluate to the term",
                          {"case": d, "scheme": scheme_text(c.un),
                           "numeric": numu, "wf": r["r_unopt_wf"]},
                          failed(numu) or not r["r_unopt_wf"])
    for c, rv in zip(obs, rel_vals):
        if c.spec.get("stream") != "history":
            check_case(c, rv, violation)
            continue
        reasons = []
        check_case(c, rv, lambda key, what, rep, found:
                   reasons.append((key, what, rep, found)))
        if reasons:
            d = describe(c)
            violation(
                "C16:history-dependent:" + d["pattern"],
                "the result for this request depends on the requests made "
                "earlier in the same process (same objects, other target "
                "indices): " + reasons[0][1],
                {"case": d, "sequence": sequence_for(c),
                 "reasons": [(k, w) for k, w, _, _ in reasons][:6],
                 "details": reasons[0][2]},
                any(f for _, _, _, f in reasons))
    if budget["generic_history"]:
        violation("C16:history-dependent:process-state",
                  f"{len(budget['generic_history'])} further requests return "
                  "schemes that do not compute the term although the same "
                  "request alone in a fresh process is answered correctly",
                  {"labels": budget["generic_history"][:20]}, False)
    over = {k: n for k, n in cat_count.items() if n > 25}
    if over:
        ctx.note(f"violations per category beyond the 25 written: {over}")
    ctx.extra["c16_stats"] = stats
    ctx.note(str(stats))


def replay(ctx, rep):
    """re-executes the recorded request -- or, for history-dependent
    failures, the recorded SEQUENCE of requests in this (fresh) process -- on
    the implementation; prints the selected scheme, the verdict of the wf
    mirror and the numeric comparison with the brute-force value of the term;
    exit code 1 if it still fails"""
    r = rep.get("replay", rep)
    rc = 0
    if r.get("sequence"):
        print(f"--- sequence of {len(r['sequence'])} requests in one process")
        for sp, v in zip(r["sequence"], run_sequence(r["sequence"])):
            tgt = "".join(x[0] for x in sp["target"])
            print(f"{sp['label']}: targets={tgt!r} ->",
                  {k: v[k] for k in v if k != "selected"})
            if not v["ok"]:
                rc = 1
        return rc
    for tag in ("case", "shrunk_case"):
        case = r.get(tag)
        if not case or "spec" not in case:
            continue
        v = run_sequence([case["spec"]])[0]
        print(f"--- {tag}: {case.get('term')} targets="
              f"{case.get('target_indices')!r} "
              f"max_itmd_dim={case.get('max_itmd_dim')} max_n="
              f"{case.get('max_n_simultaneous_contracted')}")
        for st in v.get("selected", []):
            print("   ", st)
        print({k: v[k] for k in v if k != "selected"})
        if not v["ok"]:
            rc = 1
    if rc == 0 and "case" not in r:
        print(rep)
    return rc
