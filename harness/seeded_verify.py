#!/usr/bin/env python3
"""Confirms a seeded change (patch.diff + demo.py from an independent
adversary) in a scratch worktree and runs the property's checks against it.
usage: seeded_verify.py Cxx <dir with patch.diff, demo.py, meta.json> [--tests] [--thorough]
Writes /verif/seeded/Cxx/{patch.diff,demo.py,meta.json}."""
import json
import os
import shutil
import subprocess
import sys
import tempfile
import time

V = os.path.dirname(os.path.dirname(os.path.abspath(__file__)))


def sh(cmd, **kw):
    return subprocess.run(cmd, shell=True, capture_output=True, text=True, **kw)


def main():
    pid, src = sys.argv[1], sys.argv[2]
    run_tests = "--tests" in sys.argv
    thorough = "--thorough" in sys.argv
    wt = tempfile.mkdtemp(prefix=f"seed_{pid}_", dir="/tmp")
    os.rmdir(wt)
    out = {"property": pid, "ran": []}
    try:
        r = sh(f"git -C /repo worktree add --detach {wt}")
        assert r.returncode == 0, r.stderr
        env = f"PYTHONPATH={wt} ADCGEN_LOG_LEVEL=ERROR"
        demo = os.path.join(src, "demo.py")
        r0 = sh(f"cd {src} && {env} timeout 900 /venv/bin/python {demo}")
        out["demo_unchanged_exit"] = r0.returncode
        r = sh(f"git -C {wt} apply {os.path.join(src, 'patch.diff')}")
        out["patch_applies"] = r.returncode == 0
        if r.returncode != 0:
            out["error"] = r.stderr[-500:]
            return out
        r1 = sh(f"cd {src} && {env} timeout 900 /venv/bin/python {demo}")
        out["demo_changed_exit"] = r1.returncode
        out["demo_changed_tail"] = r1.stdout[-400:]
        if run_tests:
            t0 = time.time()
            r = sh(f"cd {wt} && timeout 1800 /venv/bin/python -m pytest -q -p "
                   "no:cacheprovider --timeout=900 2>&1 | tail -3")
            out["tests"] = r.stdout.strip()[-200:]
            out["tests_s"] = round(time.time() - t0)
        for tier in (["quick"] + (["thorough"] if thorough else [])):
            t0 = time.time()
            r = sh(f"cd {V} && VERIF_OUT=/tmp/me/seedout_{pid} VERIF_REPO={wt} timeout 7000 /venv/bin/python "
                   f"harness/check.py {pid} --tier {tier} --no-coq-build")
            lines = [ln for ln in r.stdout.splitlines()
                     if ln.startswith("VIOLATION")]
            found = [ln for ln in lines if "no-failing-input-found" not in ln]
            keys = []
            for ln in lines[:40]:
                path = ln.split("replay=")[1].split()[0]
                try:
                    keys.append(json.load(open(path))["key"][:140])
                except Exception:
                    pass
            out[f"check_{tier}"] = {
                "exit": r.returncode, "violations": len(lines),
                "with_failing_input": len(found),
                "keys": sorted(set(keys))[:12],
                "summary": r.stdout.strip().splitlines()[-1:] ,
                "wall_s": round(time.time() - t0)}
            out["ran"].append(f"VERIF_REPO=<worktree with patch> check.py "
                              f"{pid} --tier {tier}")
            if lines:
                break
        return out
    finally:
        sh(f"git -C /repo worktree remove --force {wt}")
        shutil.rmtree(wt, ignore_errors=True)
        name = pid
        for a in sys.argv:
            if a.startswith("--name="):
                name = a.split("=", 1)[1]
        dst = os.path.join(V, "seeded", name)
        os.makedirs(dst, exist_ok=True)
        for f in ("patch.diff", "demo.py"):
            if os.path.exists(os.path.join(src, f)) and \
                    os.path.realpath(src) != os.path.realpath(dst):
                shutil.copy(os.path.join(src, f), os.path.join(dst, f))
        meta = {}
        try:
            meta = json.load(open(os.path.join(src, "meta.json")))
        except Exception:
            pass
        meta["confirmed"] = out
        json.dump(meta, open(os.path.join(dst, "meta.json"), "w"), indent=1)
        print(json.dumps(out, indent=1)[:3000])


if __name__ == "__main__":
    main()
