"""C17 helpers.

1. observe(...)  : run adcgen.generate_code with wrappers that record what
   exploit_perm_sym and the contraction-scheme search returned (the INPUT of
   the Gallina generator model ADC.Models.Codegen.codegen).
2. coq_*         : serialisation of these observations into Coq literals.
3. Independent interpreter of the emitted text (own tokenizer / parser /
   evaluator, plain Python loops, values in the prime field of numeric.py):
   einsum by index letters, libtensor contract / dot_product / products on
   labelled tensors, 'Apply (1 +- P..)' lines.  Tensor names are resolved by
   an own statement of the naming conventions (reference_names), not by
   adcgen's translate_* / longname functions.
"""
import itertools
import re
import sys

import sympy
from sympy import Mul, Pow, Rational, S, Symbol

import adcio
import numeric
from numeric import P

# --------------------------------------------------------------------------
# 1. observation


class Observation:
    def __init__(self):
        self.text = None
        self.exc = None          # exception instance
        self.perm_dict = None    # what exploit_perm_sym returned
        self.blocks = None       # [(perm_sym, [Term])]
        self.schemes = []        # [(str(term), ("ok", [Contraction]) | ("refuse",)|("crash", exc))]

    @property
    def outcome(self):
        if self.exc is None:
            return "ok"
        if isinstance(self.exc, NotImplementedError):
            return "refuse"
        return "crash"


def observe(expr, target, backend, optimize, **kw):
    """runs generate_code(expr, target, backend=..., ...) and records the
    intermediate data.  `expr` is an adcgen Expr."""
    gc = sys.modules["adcgen.generate_code.generate_code"]
    obs = Observation()
    orig = (gc.exploit_perm_sym, gc.optimize_contractions,
            gc.unoptimized_contraction)

    def w_perm(*a, **k):
        r = orig[0](*a, **k)
        obs.perm_dict = r
        obs.blocks = [(ps, list(sub.terms)) for ps, sub in r.items()]
        return r

    def w_scheme(f):
        def g(*a, **k):
            term = k.get("term", a[0] if a else None)
            try:
                r = f(*a, **k)
            except NotImplementedError as ex:
                obs.schemes.append((str(term), ("refuse", ex)))
                raise
            except Exception as ex:
                obs.schemes.append((str(term), ("crash", ex)))
                raise
            obs.schemes.append((str(term), ("ok", r)))
            return r
        return g
    gc.exploit_perm_sym = w_perm
    gc.optimize_contractions = w_scheme(orig[1])
    gc.unoptimized_contraction = w_scheme(orig[2])
    try:
        obs.text = gc.generate_code(expr, target, backend=backend,
                                    optimize_contraction_scheme=optimize,
                                    **kw)
    except Exception as ex:   # noqa
        obs.exc = ex
    finally:
        (gc.exploit_perm_sym, gc.optimize_contractions,
         gc.unoptimized_contraction) = orig
    return obs


# --------------------------------------------------------------------------
# 2. Coq literals

def coq_str(s):
    return adcio.coq_str(s)


def coq_idx_list(ictx, idxs):
    return adcio.coq_list(ictx.conv(i).coq() for i in idxs)


def coq_res(kind, payload=None):
    if kind == "ok":
        return f"(Ok {payload})"
    return "Refuse" if kind == "refuse" else "Crash"


def coq_step(ictx, c):
    ops = adcio.coq_list(
        f"({coq_str(n)}, {coq_idx_list(ictx, ix)})"
        for n, ix in zip(c.names, c.indices))
    return (f"(CStep {coq_str(c.contraction_name)} {ops} "
            f"{coq_idx_list(ictx, c.contracted)} "
            f"{coq_idx_list(ictx, c.target)})")


def numargs(pref):
    """(negative?, [numarg literals]) for the sympy number term.prefactor,
    following format_prefactor: sign extraction, then one number or the args
    of a Mul"""
    neg = bool(pref < 0)
    if neg:
        pref = pref * -1
    args = pref.args if isinstance(pref, Mul) else (pref,)
    out = []
    for a in args:
        if a.is_Rational:
            out.append(f"(NRat {int(a.p)}%N {int(a.q)}%positive)")
        elif isinstance(a, Pow) and a.args[1] == S.Half and \
                a.args[0].is_Integer and a.args[0] > 0:
            out.append(f"(NSqrt {int(a.args[0])}%positive)")
        else:
            out.append("NOther")
    return neg, out


SPACE = {"o": "Occ", "v": "Virt", "g": "Gen"}


def coq_term(ictx, term, scheme):
    neg, nums = numargs(term.prefactor)
    from adcgen.sympy_objects import SymbolicTensor, KroneckerDelta
    syms, objs = [], []
    for o in term.objects:
        base, ex = o.base_and_exponent
        ex = sympy.sympify(ex)
        if o.sympy.is_number:
            kind = "OkNumber"
            ex = sympy.Integer(1)
        elif not ex.is_Integer:
            raise adcio.Unsupported(f"non-integer exponent {ex}")
        if o.sympy.is_number:
            pass
        elif isinstance(base, Symbol):
            kind = "OkSymbol"
            syms.append(f"({coq_str(str(base))}, ({int(ex)})%Z)")
        elif isinstance(base, (SymbolicTensor, KroneckerDelta)):
            kind = "OkTensor"
        else:
            kind = "OkOther"
        objs.append(f"({kind}, ({int(ex)})%Z)")
    spaces = adcio.coq_list(adcio.coq_list(SPACE[c] for c in o.space)
                            for o in term.objects)
    if scheme is None:
        sch = "Crash"
    elif scheme[0] == "ok":
        r = scheme[1]
        steps = r if isinstance(r, list) else [r]
        sch = "(Ok " + adcio.coq_list(coq_step(ictx, c) for c in steps) + ")"
    else:
        sch = coq_res(scheme[0])
    return (f"(CTerm {'true' if neg else 'false'} {adcio.coq_list(nums)} "
            f"{adcio.coq_list(syms)} {adcio.coq_list(objs)} "
            f"{'true' if term.idx else 'false'} "
            f"{spaces} {sch})")


def coq_prog_in(obs):
    """Coq literal of the generator input recorded in obs, or None if
    exploit_perm_sym did not return (generate_code failed before)"""
    if obs.blocks is None:
        return None
    ictx = adcio.IdxCtx()
    ptr = 0
    blocks = []
    for ps, terms in obs.blocks:
        psl = adcio.coq_list(
            "(" + adcio.coq_list(f"({ictx.conv(p[0]).coq()}, "
                                 f"{ictx.conv(p[1]).coq()})" for p in perms)
            + f", ({int(fac)})%Z)" for perms, fac in ps)
        tl = []
        for t in terms:
            sch = None
            if t.idx and ptr < len(obs.schemes) and \
                    obs.schemes[ptr][0] == str(t):
                sch = obs.schemes[ptr][1]
                ptr += 1
            tl.append(coq_term(ictx, t, sch))
        blocks.append(f"({psl}, {adcio.coq_list(tl)})")
    return adcio.coq_list(blocks)


COQ_HEADER = """From Coq Require Import ZArith NArith QArith List String.
From ADC Require Import Core.Scalar Core.Index Core.Expr Models.Codegen.
Import ListNotations. Open Scope string_scope.
"""


def coq_tnames():
    tn = sys.modules["adcgen.tensor_names"].tensor_names
    return ("(Build_tnames " + " ".join(coq_str(getattr(tn, k)) for k in (
        "eri", "fock", "gs_amplitude", "gs_density", "left_adc_amplitude",
        "right_adc_amplitude")) + ")")


def half_eq_float():
    return bool(Rational(1, 2) == 0.5)


def coq_case(obs, backend):
    pin = coq_prog_in(obs)
    if pin is None:
        return None
    be = "Einsum" if backend == "einsum" else "Libtensor"
    hf = "true" if half_eq_float() else "false"
    exp = obs.text if obs.text is not None else ""
    return (f"match codegen {coq_tnames()} {hf} {be} {pin} with "
            f"| Ok p => if String.eqb (print_prog p) {coq_str(exp)} "
            f"then \"same\" else (\"DIFF:\" ++ print_prog p) "
            f"| Refuse => \"REFUSE\" | Crash => \"CRASH\" end")


def coq_check_cases(obs, backend, requested):
    """one Coq term `scheme_checks cfg be requested steps` per observed scheme
    (hypotheses of the C17 theorems as decidable checks)"""
    ictx = adcio.IdxCtx()
    be = "Einsum" if backend == "einsum" else "Libtensor"
    req = coq_idx_list(ictx, requested)
    out = []
    for _, rec in obs.schemes:
        if rec[0] != "ok":
            continue
        r = rec[1]
        steps = r if isinstance(r, list) else [r]
        out.append(f"scheme_checks {coq_tnames()} {be} {req} "
                   + adcio.coq_list(coq_step(ictx, c) for c in steps))
    return out


def coq_objs(term):
    """[(okind, exponent)] literal for term.objects, as read by the loop at
    the start of optimize_contractions / unoptimized_contraction"""
    from adcgen.sympy_objects import SymbolicTensor, KroneckerDelta
    objs = []
    for o in term.objects:
        base, ex = o.base_and_exponent
        ex = sympy.sympify(ex)
        if o.sympy.is_number:
            kind, ex = "OkNumber", sympy.Integer(1)
        elif not ex.is_Integer:
            raise adcio.Unsupported(f"non-integer exponent {ex}")
        elif isinstance(base, Symbol):
            kind = "OkSymbol"
        elif isinstance(base, (SymbolicTensor, KroneckerDelta)):
            kind = "OkTensor"
        else:
            kind = "OkOther"
        objs.append(f"({kind}, ({int(ex)})%Z)")
    return adcio.coq_list(objs)


def direct_guard_cases(obs, tstr, tspin, optimize):
    """calls the scheme search directly on every term with indices (also on
    those that generate_code refused earlier) -> [(str(term), coq term,
    expected value)]: ties scheme_guard to the code"""
    oc = sys.modules["adcgen.generate_code.optimize_contractions"]
    f = oc.optimize_contractions if optimize else oc.unoptimized_contraction
    tstr = tstr.replace(",", "")
    if tspin is not None:
        tspin = tspin.replace(",", "")
    out = []
    for _, terms in (obs.blocks or []):
        for t in terms:
            if not t.idx:
                continue
            try:
                f(term=t, target_indices=tstr, target_spin=tspin)
                want = "Ok tt"
            except NotImplementedError:
                want = "Refuse"
            except Exception:
                want = "Ok tt"     # not a refusal of the object loop
            try:
                out.append((str(t), f"scheme_guard {coq_objs(t)}", want))
            except adcio.Unsupported:
                pass
    return out


def coq_syms_case(obs):
    """Coq term: all symbol exponents of all terms are non-negative
    (hypothesis syms_nonneg of C17_prefactor_value_exact)"""
    lists = []
    for _, terms in (obs.blocks or []):
        for t in terms:
            sy = []
            for o in t.objects:
                base, ex = o.base_and_exponent
                if isinstance(base, Symbol) and not o.sympy.is_number:
                    sy.append(f"({coq_str(str(base))}, ({int(ex)})%Z)")
            lists.append(adcio.coq_list(sy))
    return f"forallb syms_nonneg {adcio.coq_list(lists)}"


def parse_checks(val):
    """'{| c_names := true; ... |}' -> dict"""
    return {k: v == "true" for k, v in re.findall(r"(c_\w+) := (true|false)",
                                                  val or "")}


def coq_longname_cases(obs):
    """[(description, coq term, expected value string)] for every tensor /
    delta object of the observed terms: Gallina longname vs Obj.longname()"""
    from adcgen.sympy_objects import (Amplitude, NonSymmetricTensor,
                                      AntiSymmetricTensor, KroneckerDelta)
    ictx = adcio.IdxCtx()
    out = []
    for _, terms in (obs.blocks or []):
        for t in terms:
            for o in t.objects:
                b = o.base
                if isinstance(b, NonSymmetricTensor):
                    lit = (f"(LTens false {coq_str(b.name)} "
                           f"{coq_idx_list(ictx, b.indices)} [])")
                elif isinstance(b, AntiSymmetricTensor):
                    amp = "true" if isinstance(b, Amplitude) else "false"
                    lit = (f"(LTens {amp} {coq_str(b.name)} "
                           f"{coq_idx_list(ictx, b.upper)} "
                           f"{coq_idx_list(ictx, b.lower)})")
                elif isinstance(b, KroneckerDelta):
                    lit = (f"(LDelta {ictx.conv(b.args[0]).coq()} "
                           f"{ictx.conv(b.args[1]).coq()})")
                else:
                    continue
                try:
                    want = f'Ok "{o.longname()}"'
                except NotImplementedError:
                    want = "Refuse"
                except Exception:
                    want = "Crash"
                out.append((str(o), f"longname {coq_tnames()} {lit}", want))
    return out


def expected_verdict(obs):
    return {"ok": '"same"', "refuse": '"REFUSE"', "crash": '"CRASH"'}[
        obs.outcome]


# --------------------------------------------------------------------------
# 3. independent interpreter of the emitted text

class ExecError(Exception):
    pass


class Arr:
    """positional array: axes = tuple of orbital lists, data = dict"""

    def __init__(self, axes, data):
        self.axes = tuple(tuple(a) for a in axes)
        self.data = data

    def get(self, key):
        return self.data.get(tuple(key), 0)


class Lab:
    """labelled tensor (libtensor): labels, axes per label, dict keyed in the
    order of `labels`"""

    def __init__(self, labels, axes, data):
        self.labels = tuple(labels)
        self.axes = tuple(tuple(a) for a in axes)
        self.data = data


_TOK = re.compile(r"""\s*(?:
    (?P<num>\d+\.\d+|\d+)
  | (?P<str>"[^"]*")
  | (?P<name>[A-Za-z_][A-Za-z_0-9.:]*)
  | (?P<op>->|[()*,/|])
)""", re.X)


def tokenize(s):
    pos, out = 0, []
    s = s.rstrip()
    while pos < len(s):
        m = _TOK.match(s, pos)
        if not m:
            raise ExecError(f"cannot tokenize {s[pos:pos + 20]!r}")
        pos = m.end()
        for k in ("num", "str", "name", "op"):
            if m.group(k) is not None:
                out.append((k, m.group(k)))
                break
    return out


class Parser:
    """product := atom (('*'|'/') atom)* ;
       atom := number | sqrt(n) | constants::sqn | einsum("spec", product,..)
             | contract(l|l, product, ..) | dot_product(product, ..)
             | name | name(l|l|..)"""

    def __init__(self, toks):
        self.t = toks
        self.i = 0

    def peek(self):
        return self.t[self.i] if self.i < len(self.t) else (None, None)

    def eat(self, kind=None, val=None):
        k, v = self.peek()
        if (kind and k != kind) or (val is not None and v != val):
            raise ExecError(f"parse error at token {self.i}: {k} {v!r}, "
                            f"expected {kind} {val!r}")
        self.i += 1
        return v

    def product(self):
        items = [("*", self.atom())]
        while self.peek() in (("op", "*"), ("op", "/")):
            op = self.eat()
            items.append((op, self.atom()))
        return ("prod", items)

    def labels(self, stop):
        ls = []
        if self.peek() == ("op", stop):
            return ls
        ls.append(self.eat("name"))
        while self.peek() == ("op", "|"):
            self.eat()
            ls.append(self.eat("name"))
        return ls

    def args(self):
        a = [self.product()]
        while self.peek() == ("op", ","):
            self.eat()
            a.append(self.product())
        self.eat("op", ")")
        return a

    def atom(self):
        k, v = self.peek()
        if k == "num":
            self.eat()
            return ("num", v)
        if k != "name":
            raise ExecError(f"parse error: unexpected {v!r}")
        self.eat()
        if v == "sqrt" and self.peek() == ("op", "("):
            self.eat()
            n = self.eat("num")
            self.eat("op", ")")
            return ("sqrt", int(n))
        m = re.fullmatch(r"constants::sq(\d+)", v)
        if m:
            return ("sqrt", int(m.group(1)))
        if v == "einsum" and self.peek() == ("op", "("):
            self.eat()
            spec = self.eat("str")[1:-1]
            self.eat("op", ",")
            return ("einsum", spec, self.args())
        if v == "contract" and self.peek() == ("op", "("):
            self.eat()
            con = self.labels(",")
            self.eat("op", ",")
            return ("contract", con, self.args())
        if v == "dot_product" and self.peek() == ("op", "("):
            self.eat()
            return ("dot", self.args())
        if self.peek() == ("op", "("):
            self.eat()
            ls = self.labels(")")
            self.eat("op", ")")
            return ("lab", v, ls)
        return ("name", v)


def parse_product(s):
    p = Parser(tokenize(s))
    r = p.product()
    if p.i != len(p.t):
        raise ExecError(f"trailing tokens in {s!r}")
    return r


_PERM = re.compile(r"P_([a-z]\d*)([a-z]\d*)")


def parse_program(text):
    """-> [ ( [(sign, [(p,q),..])], [ (sign, product-ast) ] ) ]"""
    blocks = []
    for blk in text.split("\n\n"):
        lines = blk.split("\n")
        if len(lines) < 2 or not lines[0].startswith("The scaling comment"):
            raise ExecError(f"unexpected block header {lines[0]!r}")
        m = re.fullmatch(r"Apply (.*) to:", lines[1])
        if not m:
            raise ExecError(f"unexpected line {lines[1]!r}")
        ps = m.group(1)
        perms = []
        if ps != "1":
            if not (ps.startswith("(1") and ps.endswith(")")):
                raise ExecError(f"perm string {ps!r}")
            body = ps[2:-1]
            for mm in re.finditer(r" ([+-]) ((?:P_[a-z]\d*[a-z]\d*)+)", body):
                perms.append((1 if mm.group(1) == "+" else -1,
                              _PERM.findall(mm.group(2))))
            rebuilt = "(1" + "".join(
                f" {'+' if s == 1 else '-'} " + "".join(f"P_{a}{b}"
                                                         for a, b in pl)
                for s, pl in perms) + ")"
            if rebuilt != ps:
                raise ExecError(f"perm string {ps!r} not understood")
        out = []
        for ln in lines[2:]:
            code = re.split(r"  (?:#|//) ", ln)[0]
            if code[:2] not in ("+ ", "- "):
                raise ExecError(f"line without sign: {ln!r}")
            out.append((1 if code[0] == "+" else -1, parse_product(code[2:])))
        blocks.append((perms, out))
    return blocks


# ---- naming conventions (own statement) -----------------------------------
def reference_names(pyterms, backend, tn):
    """printed name -> description of the array it denotes, derived from the
    objects of the input expression (pyterm atoms):
       ERI  V       -> hf.<spaces>      (einsum)   i_<spaces>  (libtensor)
       Fock f       -> hf.f<spaces>     (einsum)   f_<spaces>
       t<n>[cc]     -> t<rank>_<n>[cc]  (t without order: t<rank>)
       X / Y        -> ul<k> / ur<k>    k = excitation class
       p<n>         -> p0_<n>_<spaces>
       t2eri<k>     -> t2eri_<k>        (einsum)   pi<k>       (libtensor)
       t2sq         -> t2sq
       delta        -> d_<spaces>
       other        -> <name>_<spaces>
    Returns (table, conflicts)"""
    table, conflicts = {}, []

    def add(pname, desc):
        old = table.get(pname)
        if old is not None and old != desc:
            conflicts.append((pname, old, desc))
        table.setdefault(pname, desc)

    for _, facs in pyterms:
        for a, inv in facs:
            if a[0] == "D":
                idx = (a[1], a[2])
                sp = "".join(i.space[0] for i in idx)
                add(f"d_{sp}", ("D", tuple((i.space, i.spin) for i in idx)))
                continue
            if a[0] != "T":
                continue
            _, kind, name, bks, up, lo = a
            # axis order of the array: upper then lower, except amplitudes
            # (class Amplitude: "the lower indices are listed before the
            # upper indices")
            amp = kind == "KAmp"
            idx = tuple(lo) + tuple(up) if amp else tuple(up) + tuple(lo)
            sp = "".join(i.space[0] for i in idx)
            n_o, n_v = sp.count("o"), sp.count("v")
            if name == tn["eri"]:
                p = ("hf." if backend == "einsum" else "i_") + sp
            elif name == tn["fock"]:
                p = ("hf.f" if backend == "einsum" else "f_") + sp
            elif re.fullmatch(re.escape(tn["gs_amplitude"]) + r"(\d*)((?:cc)?)",
                              name):
                ext = name[len(tn["gs_amplitude"]):]
                p = f"{tn['gs_amplitude']}{len(up)}" + (f"_{ext}" if ext else "")
            elif name in (tn["left"], tn["right"]):
                k = n_o if n_o == n_v else min(n_o, n_v) + 1
                p = ("ul" if name == tn["left"] else "ur") + str(k)
            elif re.fullmatch(re.escape(tn["gs_density"]) + r"\d*", name):
                ext = name[len(tn["gs_density"]):]
                p = f"{tn['gs_density']}0_" + (f"{ext}_" if ext else "") + sp
            elif re.fullmatch(r"t2eri\w+", name):
                p = ("t2eri_" if backend == "einsum" else "pi") + name[5:]
            elif name == "t2sq":
                p = "t2sq"
            else:
                p = f"{name}_{sp}"
            add(p, ("T", kind, name, bks, len(lo) if amp else len(up), amp,
                    tuple((i.space, i.spin) for i in idx)))
    return table, conflicts


def tensor_names_dict():
    tn = sys.modules["adcgen.tensor_names"].tensor_names
    return {"eri": tn.eri, "fock": tn.fock, "gs_amplitude": tn.gs_amplitude,
            "gs_density": tn.gs_density, "left": tn.left_adc_amplitude,
            "right": tn.right_adc_amplitude}


class Interp:
    def __init__(self, model, table, symbols):
        self.m = model
        self.table = table
        self.symbols = symbols
        self.cache = {}

    # -- arrays for printed names
    def array(self, pname):
        if pname in self.cache:
            return self.cache[pname]
        d = self.table.get(pname)
        if d is None:
            raise ExecError(f"the program refers to the tensor {pname!r} "
                            "which does not denote any object of the "
                            "expression")
        if d[0] == "D":
            axes = [self.m.rng(sp, s) for sp, s in d[1]]
            data = {(x, y): 1 for x in axes[0] for y in axes[1] if x == y}
        else:
            _, kind, name, bks, nfirst, amp, ss = d
            axes = [self.m.rng(sp, s) for sp, s in ss]
            data = {}
            for key in itertools.product(*axes):
                up, lo = (key[nfirst:], key[:nfirst]) if amp else \
                    (key[:nfirst], key[nfirst:])
                v = self.m.tv(kind, name, bks, up, lo)
                if v:
                    data[key] = v
        arr = Arr(axes, data)
        self.cache[pname] = arr
        return arr

    # -- evaluation: returns int (scalar), Arr or Lab
    def ev(self, ast):
        k = ast[0]
        if k == "prod":
            acc = None
            for op, a in ast[1]:
                v = self.ev(a)
                if acc is None:
                    acc = v
                elif op == "*":
                    acc = self.mul(acc, v)
                else:
                    if not isinstance(v, int):
                        raise ExecError("division by a tensor")
                    acc = self.mul(acc, numeric.inv(v))
            return acc
        if k == "num":
            from fractions import Fraction
            return numeric.frac(Fraction(ast[1]))
        if k == "sqrt":
            return numeric.sqrt_mod(ast[1])
        if k == "name":
            if ast[1] in self.symbols:
                return self.m.symv(ast[1])
            a = self.array(ast[1])
            return a.get(()) if not a.axes else a
        if k == "lab":
            a = self.array(ast[1])
            if len(a.axes) != len(ast[2]):
                raise ExecError(f"{ast[1]}: {len(ast[2])} labels for a tensor "
                                f"of rank {len(a.axes)}")
            return self.lab_from(a, ast[2])
        if k == "einsum":
            return self.einsum(ast[1], [self.ev(a) for a in ast[2]])
        if k == "contract":
            return self.contract(ast[1], [self.ev(a) for a in ast[2]], False)
        if k == "dot":
            return self.contract(None, [self.ev(a) for a in ast[1]], True)
        raise ExecError(f"unknown node {k}")

    def lab_from(self, a, labels):
        # repeated labels on one tensor = diagonal
        uniq, axes = [], []
        for l, ax in zip(labels, a.axes):
            if l not in uniq:
                uniq.append(l)
                axes.append(ax)
        data = {}
        for key, v in a.data.items():
            env = {}
            ok = True
            for l, x in zip(labels, key):
                if env.setdefault(l, x) != x:
                    ok = False
                    break
            if ok:
                data[tuple(env[l] for l in uniq)] = v
        return Lab(uniq, axes, data)

    def mul(self, a, b):
        if isinstance(a, int) and isinstance(b, int):
            return a * b % P
        if isinstance(a, int):
            a, b = b, a
        if isinstance(b, int):
            data = {k: v * b % P for k, v in a.data.items()}
            if isinstance(a, Arr):
                return Arr(a.axes, data)
            return Lab(a.labels, a.axes, data)
        if isinstance(a, Lab) and isinstance(b, Lab):
            return self.contract([], [a, b], False)
        raise ExecError("product of two positional arrays of rank > 0 "
                        "(numpy would broadcast)")

    def einsum(self, spec, ops):
        if "->" not in spec:
            raise ExecError(f"einsum spec {spec!r}")
        ins, out = spec.split("->")
        ins = ins.split(",")
        if not re.fullmatch(r"[a-zA-Z,]*->[a-zA-Z]*", spec):
            raise ExecError(f"einsum spec {spec!r} is not a valid numpy "
                            "subscript string (letters only)")
        if len(ins) != len(ops):
            raise ExecError(f"einsum {spec!r}: {len(ops)} operands")
        rng = {}
        opsn = []
        for s, o in zip(ins, ops):
            if isinstance(o, int):
                o = Arr((), {(): o})
            if not isinstance(o, Arr):
                raise ExecError("einsum operand is not an array")
            if len(s) != len(o.axes):
                raise ExecError(f"einsum {spec!r}: operand of rank "
                                f"{len(o.axes)} for subscripts {s!r}")
            for l, ax in zip(s, o.axes):
                if rng.setdefault(l, ax) != ax:
                    raise ExecError(f"einsum {spec!r}: letter {l} has two "
                                    "different ranges")
            opsn.append(o)
        if len(set(out)) != len(out) or any(l not in rng for l in out):
            raise ExecError(f"einsum {spec!r}: bad output subscripts")
        letters = list(out) + [l for l in rng if l not in out]
        data = {}
        pos = [[letters.index(l) for l in s] for s in ins]
        for combo in itertools.product(*(rng[l] for l in letters)):
            v = 1
            for o, ps in zip(opsn, pos):
                v = v * o.data.get(tuple(combo[p] for p in ps), 0) % P
                if v == 0:
                    break
            if v:
                key = combo[:len(out)]
                data[key] = (data.get(key, 0) + v) % P
        if not out:
            return data.get((), 0)
        return Arr([rng[l] for l in out], data)

    def contract(self, con, ops, full):
        scal = 1
        labs = []
        for o in ops:
            if isinstance(o, int):
                scal = scal * o % P
            elif isinstance(o, Lab):
                labs.append(o)
            else:
                raise ExecError("libtensor operand is not a labelled tensor")
        rng = {}
        for o in labs:
            for l, ax in zip(o.labels, o.axes):
                if rng.setdefault(l, ax) != ax:
                    raise ExecError(f"label {l} has two different ranges")
        if full:
            con = list(rng)
        if any(c not in rng for c in con):
            raise ExecError(f"contract over {con}: label not on any operand")
        out = [l for l in rng if l not in con]
        letters = out + list(con)
        pos = [[letters.index(l) for l in o.labels] for o in labs]
        data = {}
        for combo in itertools.product(*(rng[l] for l in letters)):
            v = scal
            for o, ps in zip(labs, pos):
                v = v * o.data.get(tuple(combo[p] for p in ps), 0) % P
                if v == 0:
                    break
            if v:
                key = combo[:len(out)]
                data[key] = (data.get(key, 0) + v) % P
        if not out:
            return data.get((), 0)
        return Lab(out, [rng[l] for l in out], data)


def run_text(text, model, table, symbols, target_names, target_axes):
    """value of the emitted program as dict: target tuple -> value (entries
    for all assignments of the target indices in the requested order)"""
    blocks = parse_program(text)
    keys = list(itertools.product(*target_axes))
    total = {k: 0 for k in keys}
    it = Interp(model, table, symbols)
    for perms, lines in blocks:
        acc = {k: 0 for k in keys}
        for sign, ast in lines:
            v = it.ev(ast)
            if isinstance(v, int):
                if target_names:
                    raise ExecError("a line evaluates to a number but the "
                                    f"result has indices {target_names}")
                d = {(): v}
            elif isinstance(v, Arr):
                if v.axes != tuple(tuple(a) for a in target_axes):
                    raise ExecError(
                        f"a line evaluates to an array of rank {len(v.axes)} "
                        f"with axes {v.axes}; requested result {target_names}"
                        f" with axes {target_axes}")
                d = v.data
            else:
                if sorted(v.labels) != sorted(target_names):
                    raise ExecError(
                        f"a line evaluates to a tensor with labels "
                        f"{v.labels}; requested result {target_names}")
                perm = [v.labels.index(t) for t in target_names]
                d = {tuple(k[p] for p in perm): x for k, x in v.data.items()}
                for ax_l, ax_t in zip([v.axes[p] for p in perm], target_axes):
                    if tuple(ax_l) != tuple(ax_t):
                        raise ExecError("labelled result has a different "
                                        "range than the target index")
            for k, x in d.items():
                acc[k] = (acc[k] + sign * x) % P
        res = dict(acc)
        for sign, pl in perms:
            # X -> X o (p_n o ... o p_1) on the names of the target indices
            sigma = {t: t for t in target_names}
            for a, b in pl:
                if a not in sigma or b not in sigma:
                    raise ExecError(f"P_{a}{b}: not target indices")
                for t in sigma:
                    if sigma[t] == a:
                        sigma[t] = b
                    elif sigma[t] == b:
                        sigma[t] = a
            src = [target_names.index(sigma[t]) for t in target_names]
            for k in keys:
                k2 = tuple(k[s] for s in src)
                if k2 not in acc:
                    raise ExecError("permutation leaves the index range")
                res[k] = (res[k] + sign * acc[k2]) % P
        for k in keys:
            total[k] = (total[k] + res[k]) % P
    return total
