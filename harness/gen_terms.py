"""Structured random generators of adcgen tensor expressions (shared by several
property plug-ins).  Every random choice comes from the rng passed in."""
from sympy import Rational, S, Symbol, sqrt, Add, Mul
from adcgen.sympy_objects import (AntiSymmetricTensor, SymmetricTensor,
                                  Amplitude, NonSymmetricTensor,
                                  KroneckerDelta)
from adcgen.indices import get_symbols, Indices

OCC = "ijklmno"
VIRT = "abcdefgh"
GEN = "pqrstuvw"
LETTERS = {"o": OCC, "v": VIRT, "g": GEN}


def idx(names, spins=None):
    return get_symbols(names, spins)


def pool(space, n, spin="", numbered=False):
    """n index objects of a space"""
    letters = LETTERS[space]
    names = []
    k = 0
    while len(names) < n:
        for ch in letters:
            names.append(ch + (str(k) if k else ""))
            if len(names) == n:
                break
        k += 1
    if numbered:
        names = [nm if nm[1:] else nm for nm in names]
    return get_symbols(names, spin * n if spin else None)


# vocabulary: (name, kind, blocks (upper spaces, lower spaces), bks choices)
VOCAB = [
    ("V", "anti", [("oo", "vv"), ("oo", "oo"), ("vv", "vv"), ("ov", "ov"),
                   ("oo", "ov"), ("ov", "vv")], (1, 0)),
    ("f", "anti", [("o", "o"), ("v", "v"), ("o", "v")], (1, 0)),
    ("t1", "amp", [("vv", "oo")], (0,)),
    ("t2", "amp", [("v", "o"), ("vv", "oo"), ("vvv", "ooo")], (0,)),
    ("t1cc", "amp", [("vv", "oo")], (0,)),
    ("d", "anti", [("o", "o"), ("v", "v"), ("o", "v"), ("v", "o")], (0, 1)),
    ("A", "anti", [("o", "v"), ("oo", "vv"), ("ov", "ov")], (0, 1, -1)),
    ("B", "sym", [("oo", "vv"), ("o", "v"), ("ov", "ov")], (0, 1, -1)),
    ("D", "sym", [("oo", "vv"), ("o", "v")], (-1,)),
    ("X", "amp", [("v", "o"), ("vv", "oo")], (0,)),
    # amplitude vectors of the non-number-conserving variants: unequal
    # numbers of upper and lower indices
    ("Y", "amp", [("v", "o"), ("vv", "oo"), ("v", "oo"), ("vv", "o")], (0,)),
    # bra-ket (anti)symmetric tensors in diagonal blocks (bra and ket in the
    # same space): the canonical bra/ket orientation depends on the names
    ("K", "anti", [("o", "o"), ("v", "v"), ("oo", "oo"), ("vv", "vv")],
     (-1, 1)),
    ("L", "sym", [("o", "o"), ("oo", "oo"), ("vv", "vv")], (-1, 1)),
    ("n", "nonsym", [("ov", ""), ("oov", ""), ("o", ""), ("vv", "")], (0,)),
    ("e", "nonsym", [("o", ""), ("v", "")], (0,)),
]


def make_tensor(name, kind, upper, lower, bks):
    if kind == "anti":
        return AntiSymmetricTensor(name, tuple(upper), tuple(lower), bks)
    if kind == "sym":
        return SymmetricTensor(name, tuple(upper), tuple(lower), bks)
    if kind == "amp":
        return Amplitude(name, tuple(upper), tuple(lower), bks)
    return NonSymmetricTensor(name, tuple(upper))


def random_term(rng, n_tensors, pools, vocab=None, names=None, deltas=0,
                allow_pow=False):
    """product of tensors with indices drawn from pools {'o': [...],
    'v': [...]} (without replacement inside an antisymmetric group)."""
    vocab = vocab or VOCAB
    facs = []
    for _ in range(n_tensors):
        name, kind, blocks, bkss = rng.choice(vocab)
        if names is not None:
            cands = [v for v in vocab if v[0] in names]
            name, kind, blocks, bkss = rng.choice(cands)
        up_sp, lo_sp = rng.choice(blocks)
        bks = rng.choice(bkss)

        def draw(spaces):
            out = []
            for sp in spaces:
                cand = [x for x in pools[sp] if x not in out]
                out.append(rng.choice(cand))
            return out
        up, lo = draw(up_sp), draw(lo_sp)
        t = make_tensor(name, kind, up, lo, bks)
        if allow_pow and rng.random() < 0.1:
            t = t ** 2
        facs.append(t)
    for _ in range(deltas):
        sp = rng.choice("ov")
        a, b = rng.sample(pools[sp], 2)
        facs.append(KroneckerDelta(a, b))
    return Mul(*facs)


def random_coef(rng, allow_sqrt=False):
    c = Rational(rng.choice([1, -1, 2, -2, 1, 3, -1, 5]),
                 rng.choice([1, 2, 4, 1, 3, 8]))
    if allow_sqrt and rng.random() < 0.15:
        c *= sqrt(rng.choice([2, 3, 6])) ** rng.choice([1, -1])
    return c


def alpha_variant(rng, term, contracted_by_space, fresh_pools):
    """rename the contracted indices of `term` by a random injective map into
    fresh_pools[space] (which may overlap the old names) - simultaneous
    substitution, so the result is alpha-equivalent by construction."""
    sub = {}
    for sp, cs in contracted_by_space.items():
        new = rng.sample(fresh_pools[sp], len(cs))
        sub.update(dict(zip(cs, new)))
    return term.xreplace(sub)
