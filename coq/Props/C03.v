(* C03 - secular matrix = <I|H-E0|J> over explicitly built intermediate
   states.  Property theorems only (partial, see manifest). *)
From Coq Require Import ZArith QArith List.
From ADC Require Import Core.Scalar Core.Index Core.Expr Core.Swap Core.Canon Core.Equiv
  Core.DeltaRule Core.Equiv2 Models.Fock Models.Wick Models.WickProofs.

(* Instance theorems decided per run: a secular-matrix block accepted by the
   validator against the transposed bra/ket-swapped block (real orbital
   basis), resp. a matrix-vector product accepted against prefactor * block *
   amplitude vector, has the same value for every Hamiltonian, every amplitude
   tensors and every assignment of the bra / ket indices. *)
Theorem C03_block_pair_value :
  forall (S : Scalar) (T : tmodel S), respects S T -> DeltaRule.model_ok S T ->
  forall tg c1 c2 e1 e2, check_equiv2 tg c1 c2 e1 e2 = true ->
  forall r, DeltaRule.env_ok S T tg r -> eval S T tg r e1 = eval S T tg r e2.
Proof. exact check_equiv2_sound. Qed.
Print Assumptions C03_block_pair_value.

(* Semantic anchor: every Wick evaluation entering a matrix element
   <I| H - E0 |J> of the derivation equals, for arbitrary amplitude and
   integral tensors, the determinant-space expectation value of the same
   operator product (C01). The identification of the summed result with the
   explicitly constructed intermediate states is checked per run by exact
   linear algebra in determinant space and is not a Coq theorem: partial. *)
Theorem C03_matrix_elements_are_determinant_expectation_values_partial :
  forall (S : Scalar) M env gs (T : (index -> nat) -> K S) xs,
    Wick.env_ok M env -> groups_ok gs = true ->
    sum_idx S M xs env (fun e => kmul S (T e) (zK S (wval M e (wicks_groups gs)))) =
    sum_idx S M xs env (fun e => kmul S (T e) (zK S (gvev M (map (inst_group e) gs)))).
Proof. exact wicks_value. Qed.
Print Assumptions C03_matrix_elements_are_determinant_expectation_values_partial.
