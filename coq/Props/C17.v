(* C17 - generated contraction code evaluates to the expression it came from.
   Property theorems only; models in Models/Codegen.v, proofs in
   Models/CodegenProofs.v. *)
From Coq Require Import ZArith QArith List String.
From ADC Require Import Core.Scalar Core.Index Core.Expr Models.Codegen Models.CodegenProofs.
Import ListNotations.
Close Scope Q_scope. Close Scope string_scope. Open Scope list_scope.

(* The einsum call emitted for one contraction step: for all operand arrays
   whose axis ranges are those of the operand's indices, the interpreter's
   value of einsum("<names of ops>-><names of tgt>", args) at the values of the
   target indices equals the sum over the contracted indices of the product of
   the operand entries -- provided index names are pairwise distinct (inj_on)
   and contracted/target indices partition the operand indices. *)
Theorem C17_einsum_semantics :
  forall (S : Scalar) (T : tmodel S) (D : list index) (ops : list (list index))
         (args : list (arr S)) (tgt con : list index),
    inj_on D -> incl (List.concat ops) D -> incl tgt D ->
    Forall2 (dims_ok S T) ops args -> NoDup con ->
    (forall x, In x con -> In x (List.concat ops) /\ ~ In x tgt) ->
    (forall x, In x tgt -> In x (List.concat ops)) ->
    (forall x, In x (List.concat ops) -> In x tgt \/ In x con) ->
    let R := einsum_val S (map (map iname) ops) (map iname tgt) args in
    adims S R = map (irange S T) tgt /\
    (forall r : index -> nat, aval S R (map r tgt) = sum_over S T con r (ops_prod S ops args)).
Proof. exact einsum_semantics. Qed.
Print Assumptions C17_einsum_semantics.

(* format_contraction (numpy backend) on a well-formed step whose operands are
   bound (earlier results used with exactly their target indices, base tensors
   bound to the printed, translated name): the emitted text -- factors, single
   tensor or einsum, nested texts of inner contractions -- evaluates to
   sum_{contracted} prod operands, as an array in the step's target order. *)
Theorem C17_codegen_step_semantics :
  forall (S : Scalar) (T : tmodel S) (cfg : tnames) (tenv : string -> arr S)
         (B : string -> list index -> env -> K S) (D : list index)
         (cache : list (string * cexpr)) (acc : list (string * stepval S)) (st : cstep),
    inj_on D -> single_letter D = true ->
    cache_ok S T tenv cache acc -> step_ok S T cfg tenv B D acc st ->
    exists e : cexpr,
      format_contraction cfg Einsum cache st = Ok e /\
      dims_ok S T (cs_tgt st) (run_np S tenv e) /\
      (forall r : index -> nat,
         aval S (run_np S tenv e) (map r (cs_tgt st)) = step_val S T B acc st r).
Proof. exact codegen_step_semantics_np. Qed.
Print Assumptions C17_codegen_step_semantics.

(* Whole line of a term (numpy backend): whenever the generator model returns
   a line for a term whose scheme is well-formed step by step, the line's
   value at every assignment of the target letters is
   sign * printed prefactor * (value of the last step of the scheme computed
   step by step).  That the scheme value is the term's value is C16. *)
Theorem C17_codegen_semantics :
  forall (S : Scalar) (T : tmodel S) (cfg : tnames) (tenv : string -> arr S)
         (B : string -> list index -> env -> K S) (hf : bool) (D : list index)
         (t : cterm) (l : line) (steps : list cstep),
    inj_on D -> single_letter D = true ->
    ct_hasidx t = true -> ct_scheme t = Ok steps ->
    scheme_ok S T cfg tenv B D nil steps ->
    gen_term cfg hf Einsum t = Ok l ->
    exists (inner : list cstep) (o : cstep),
      steps = inner ++ o :: nil /\ l_neg l = ct_neg t /\
      format_prefactor hf Einsum (ct_nums t) (ct_syms t) = Ok (l_pref l) /\
      (forall p : lenv,
         run_line S T tenv Einsum (map iname (cs_tgt o)) l p =
         kmul S (kmul S (ksgn (ct_neg t)) (kprod (map (pfac_val S T) (l_pref l))))
              (step_val S T B (scheme_vals S T B nil inner) o (renv p))).
Proof. exact codegen_term_semantics_np. Qed.
Print Assumptions C17_codegen_semantics.

(* The printed prefactor (Python and C++ number formats, sqrt / constants::sq,
   symbols with exponents) denotes |number prefactor| * symbols. *)
Theorem C17_prefactor_value :
  forall (S : Scalar) (T : tmodel S) (hf : bool) (be : backend) (nums : list numarg)
         (syms : list (string * Z)) (pf : list pfac),
    format_prefactor hf be nums syms = Ok pf ->
    kprod (map (pfac_val S T) pf) =
    kmul S (kprod (map (numarg_val S T) nums)) (syms_val S T syms).
Proof. exact prefactor_value. Qed.
Print Assumptions C17_prefactor_value.

(* ... and it denotes the full symbolic prefactor, divisions included, when no
   symbol has a negative exponent (range(exponent) prints nothing for 1/x;
   the code now refuses such terms, see C17_emitted_prefactor_nonneg) *)
Theorem C17_prefactor_value_exact :
  forall (S : Scalar) (T : tmodel S) (hf : bool) (be : backend) (nums : list numarg)
         (syms : list (string * Z)) (pf : list pfac),
    syms_nonneg syms = true -> format_prefactor hf be nums syms = Ok pf ->
    kprod (map (pfac_val S T) pf) =
    kmul S (kprod (map (numarg_val S T) nums)) (syms_true S T syms).
Proof. exact prefactor_value_exact. Qed.
Print Assumptions C17_prefactor_value_exact.

(* the code's own refusal ("Prefactors not implemented for divisions")
   establishes syms_nonneg for every emitted prefactor ... *)
Theorem C17_emitted_prefactor_nonneg :
  forall (hf : bool) (be : backend) (nums : list numarg) (syms : list (string * Z)) (pf : list pfac),
    format_prefactor hf be nums syms = Ok pf -> syms_nonneg syms = true.
Proof. exact emitted_prefactor_nonneg. Qed.
Print Assumptions C17_emitted_prefactor_nonneg.

(* ... so every emitted prefactor denotes |number| * symbolic prefactor,
   divisions included, without side condition *)
Theorem C17_prefactor_value_emitted :
  forall (S : Scalar) (T : tmodel S) (hf : bool) (be : backend) (nums : list numarg)
         (syms : list (string * Z)) (pf : list pfac),
    format_prefactor hf be nums syms = Ok pf ->
    kprod (map (pfac_val S T) pf) =
    kmul S (kprod (map (numarg_val S T) nums)) (syms_true S T syms).
Proof. exact prefactor_value_emitted. Qed.
Print Assumptions C17_prefactor_value_emitted.

(* the prefactor is refused exactly for a division by a symbol or an
   unsupported number *)
Theorem C17_refusal_exact_prefactor :
  forall (hf : bool) (be : backend) (nums : list numarg) (syms : list (string * Z)),
    format_prefactor hf be nums syms = Refuse <->
    syms_nonneg syms = false \/
    exists a, In a nums /\ (a = NOther \/ (exists n, a = NSqrt n) /\ hf = false).
Proof. exact refusal_exact_prefactor. Qed.
Print Assumptions C17_refusal_exact_prefactor.

(* the scheme search (optimised or not) refuses a term exactly if one of its
   non-number objects has a negative exponent -- symbols included: the test
   precedes the symbol skip -- or is neither symbol, tensor nor delta *)
Theorem C17_refusal_exact_guard :
  forall objs : list (okind * Z),
    (scheme_guard objs = Refuse <-> existsb offending objs = true) /\
    (scheme_guard objs = Ok tt <-> existsb offending objs = false).
Proof. exact refusal_exact_guard. Qed.
Print Assumptions C17_refusal_exact_guard.

(* hence a line with a contraction is only emitted for terms without division *)
Theorem C17_emitted_contraction_no_division :
  forall (cfg : tnames) (hf : bool) (be : backend) (t : cterm) (l : line),
    ct_hasidx t = true -> gen_term cfg hf be t = Ok l ->
    existsb offending (ct_objs t) = false.
Proof. exact emitted_contraction_no_division. Qed.
Print Assumptions C17_emitted_contraction_no_division.

(* "Apply (1 +- P_ij P_ab ...) to:" evaluates to X plus, for every listed
   product of transpositions, sign * X with the transpositions applied to the
   assignment of the target indices (in the listed order). *)
Theorem C17_perm_apply_semantics :
  forall (S : Scalar) (D : list index) (ps : list (list (index * index) * Z))
         (ps' : permsym) (X : lenv -> K S) (Xe : env -> K S),
    inj_on D ->
    (forall pf pq, In pf ps -> In pq (fst pf) -> In (fst pq) D /\ In (snd pq) D) ->
    gen_permsym ps = Ok ps' -> depends_on S D Xe -> (forall p, X p = Xe (renv p)) ->
    forall p : lenv,
      apply_permsym S ps' X p =
      kadd S (Xe (renv p))
           (ksum ps (fun pf => kmul S (sgnZ S (snd pf))
                                      (Xe (fun x : index => renv p (perm_idx (fst pf) x))))).
Proof. exact perm_apply_semantics. Qed.
Print Assumptions C17_perm_apply_semantics.

(* Refusals (NotImplementedError): an operand is refused exactly for a partial
   trace on a libtensor tensor, or for an index name that is not a single
   letter on a numpy tensor (numbered indices) *)
Theorem C17_refusal_exact_operand :
  forall (cfg : tnames) (be : backend) (cache : list (string * cexpr))
         (con : list index) (op : string * list index),
    format_operand cfg be cache con op = Refuse <->
    is_contraction (fst op) = false /\
    (be = Einsum /\ multi_letter (snd op) = true \/
     be = Libtensor /\ partial_trace con (snd op) = true).
Proof. exact refusal_exact_operand. Qed.
Print Assumptions C17_refusal_exact_operand.

(* a number prefactor is refused exactly if it is neither a rational nor a
   square root, or a square root while sympy's  S.Half == 0.5  is False *)
Theorem C17_refusal_exact_number :
  forall (hf : bool) (be : backend) (a : numarg),
    match be with Einsum => format_python_num hf a | Libtensor => format_cpp_num hf a end = Refuse <->
    a = NOther \/ (exists n, a = NSqrt n) /\ hf = false.
Proof. exact refusal_exact_number. Qed.
Print Assumptions C17_refusal_exact_number.

(* the numpy backend refuses a contraction exactly if one of its tensors
   carries an index whose name is not a single letter (inner results being
   available in the cache) *)
Theorem C17_refusal_exact_einsum :
  forall (cfg : tnames) (cache : list (string * cexpr)) (st : cstep),
    (forall op, In op (cs_ops st) -> is_contraction (fst op) = true -> lookup (fst op) cache <> None) ->
    (format_contraction cfg Einsum cache st = Refuse <->
     exists op, In op (cs_ops st) /\ is_contraction (fst op) = false /\ multi_letter (snd op) = true).
Proof. exact refusal_exact_einsum. Qed.
Print Assumptions C17_refusal_exact_einsum.

(* libtensor refuses a contraction only for a partial trace or when there are
   neither contracted nor target indices (one direction: _partial) *)
Theorem C17_refusal_libtensor_partial :
  forall (cfg : tnames) (cache : list (string * cexpr)) (st : cstep),
    format_contraction cfg Libtensor cache st = Refuse ->
    (exists op, In op (cs_ops st) /\ is_contraction (fst op) = false /\
                partial_trace (cs_con st) (snd op) = true) \/
    (cs_con st = nil /\ cat (map iname (cs_tgt st)) = EmptyString).
Proof. exact refusal_exact_libtensor. Qed.
Print Assumptions C17_refusal_libtensor_partial.

(* libtensor backend, one step: whenever a text is produced, its free labels
   are the names of the step's target indices and its value (contract /
   dot_product / products of labelled tensors, nested) is
   sum_{contracted} prod operands *)
Theorem C17_codegen_step_semantics_libtensor :
  forall (S : Scalar) (T : tmodel S) (cfg : tnames) (tenv : string -> arr S)
         (B : string -> list index -> env -> K S) (D : list index)
         (cache : list (string * cexpr)) (acc : list (string * stepval S)) (st : cstep) (e : cexpr),
    inj_on D -> cache_ok_lt S T tenv cache acc -> step_ok_lt S T cfg tenv B D acc st ->
    format_contraction cfg Libtensor cache st = Ok e ->
    labs_of S T tenv e (cs_tgt st) /\
    (forall p : lenv, snd (run_lt S tenv e) p = step_val S T B acc st (renv p)) /\
    depends_on S (cs_tgt st) (step_val S T B acc st).
Proof. exact codegen_step_semantics_lt. Qed.
Print Assumptions C17_codegen_step_semantics_libtensor.

(* libtensor backend, whole line of a term *)
Theorem C17_codegen_semantics_libtensor :
  forall (S : Scalar) (T : tmodel S) (cfg : tnames) (tenv : string -> arr S)
         (B : string -> list index -> env -> K S) (hf : bool) (D : list index)
         (t : cterm) (l : line) (steps : list cstep),
    inj_on D -> ct_hasidx t = true -> ct_scheme t = Ok steps ->
    scheme_ok_lt S T cfg tenv B D nil steps ->
    gen_term cfg hf Libtensor t = Ok l ->
    exists (inner : list cstep) (o : cstep) (e : cexpr) (cm : string),
      steps = inner ++ o :: nil /\ l_neg l = ct_neg t /\ l_body l = Some (e, cm) /\
      format_prefactor hf Libtensor (ct_nums t) (ct_syms t) = Ok (l_pref l) /\
      labs_of S T tenv e (cs_tgt o) /\
      (forall (tg : list string) (p : lenv),
         run_line S T tenv Libtensor tg l p =
         kmul S (kmul S (ksgn (ct_neg t)) (kprod (map (pfac_val S T) (l_pref l))))
              (step_val S T B (scheme_vals S T B nil inner) o (renv p))).
Proof. exact codegen_term_semantics_lt. Qed.
Print Assumptions C17_codegen_semantics_libtensor.

(* whole program (either backend): if every line evaluates to the value V of
   its term, the program evaluates to the sum over its blocks of
   X + sum_k sign_k X o pi_k with X the sum of the term values of the block *)
Theorem C17_codegen_prog_semantics :
  forall (S : Scalar) (T : tmodel S) (tenv : string -> arr S) (be : backend)
         (tgt : list string) (D : list index)
         (bis : list (list (list (index * index) * Z) * list (env -> K S)))
         (pr : list (permsym * list line)),
    inj_on D -> Forall2 (block_ok S T tenv be tgt D) bis pr ->
    forall p : lenv,
      run_prog S T tenv be tgt pr p = ksum bis (fun bi => block_ref S bi (renv p)).
Proof. exact codegen_prog_semantics. Qed.
Print Assumptions C17_codegen_prog_semantics.

(* unoptimised scheme: the single simultaneous contraction of all objects
   of a term, times the coefficient, is the value of the term in the sense of
   Core/Expr.v (so for optimize_contraction_scheme=False the chain
   text -> scheme value -> term value is closed inside this development) *)
Theorem C17_unoptimized_step_is_term :
  forall (S : Scalar) (T : tmodel S) (B : string -> list index -> env -> K S)
         (tm : term) (tg : list index) (nm : string) (ops : list (string * list index))
         (con tgt : list index),
    Forall2 (fun (op : string * list index) (f : atom * bool) =>
               snd f = false /\ is_contraction (fst op) = false /\
               (forall r : env, B (fst op) (snd op) r = atom_val S T r (fst f)))
            ops (tfacs tm) ->
    NoDup con -> (forall x, In x con <-> In x (contracted tg tm)) ->
    forall r : env,
      kmul S (ofQ S (tcoef tm)) (step_val S T B nil (CStep nm ops con tgt) r) = eval_term S T tg r tm.
Proof. exact unoptimized_step_is_term. Qed.
Print Assumptions C17_unoptimized_step_is_term.

(* the decidable checks evaluated by the harness on every observed scheme
   (step_wf for all steps, link_ok) together with the binding of the base
   tensors imply the hypothesis scheme_ok of C17_codegen_semantics *)
Theorem C17_checks_imply_hypotheses :
  forall (S : Scalar) (T : tmodel S) (cfg : tnames) (tenv : string -> arr S)
         (B : string -> list index -> env -> K S) (D : list index) (steps : list cstep)
         (acc : list (string * stepval S)),
    forallb step_wf steps = true -> link_ok (prev_of S acc) steps = true ->
    base_bound_np S T cfg tenv B steps -> incl (scheme_idx steps) D ->
    scheme_ok S T cfg tenv B D acc steps.
Proof. exact scheme_ok_of_checks. Qed.
Print Assumptions C17_checks_imply_hypotheses.

(* The hypotheses are satisfiable: a nested two-step scheme
   (A_ij B_jk -> ik, then (ik) C_k -> i) over an arbitrary scalar ring and
   tensor model, with the arrays read off the tensor model. *)
Section Example.
Variable S : Scalar. Variable T : tmodel S.
Let i := Idx Occ NoSpin 105 0 0. Let j := Idx Occ NoSpin 106 0 0. Let k := Idx Occ NoSpin 107 0 0.
Let R := rng T Occ NoSpin.
Let tenv (s : string) : arr S :=
  if String.eqb s "C_o"%string then Arr S [R] (fun xs => tv T KNonSym s 0%Z xs [])
  else Arr S [R; R] (fun xs => tv T KNonSym s 0%Z xs []).
Let B (nm : string) (idx : list index) (r : env) : K S := tv T KNonSym nm 0%Z (map r idx) [].
Let steps := [CStep "contraction_0"%string [("A_oo"%string, [i; j]); ("B_oo"%string, [j; k])] [j] [i; k];
              CStep "contraction_1"%string [("contraction_0"%string, [i; k]); ("C_o"%string, [k])] [k] [i]].
Example C17_hypotheses_satisfiable :
  scheme_ok S T default_tnames tenv B (scheme_idx steps) nil steps /\
  names_inj (scheme_idx steps) = true /\ single_letter (scheme_idx steps) = true.
Proof. split; [|split; vm_compute; reflexivity].
  apply scheme_ok_of_checks; try (vm_compute; reflexivity).
  - intros op Hop. vm_compute in Hop. destruct Hop as [<-|[<-|[<-|[]]]]; (split; [reflexivity|intros r; reflexivity]).
  - intros z Hz; exact Hz. Qed.
End Example.
