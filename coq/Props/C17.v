(* C17 - generated contraction code evaluates to the expression it came from.
   Property theorems only; models in Models/Codegen.v, proofs in
   Models/CodegenProofs.v. *)
From Coq Require Import ZArith QArith List String.
From ADC Require Import Core.Scalar Core.Index Core.Expr Models.Codegen Models.CodegenProofs.
Import ListNotations.
Close Scope Q_scope. Close Scope string_scope. Open Scope list_scope.

(* The einsum call emitted for one contraction step: for all operand arrays
   whose axis ranges are those of the operand's indices, the interpreter's
   value of einsum("<names of ops>-><names of tgt>", args) at the values of the
   target indices equals the sum over the contracted indices of the product of
   the operand entries -- provided index names are pairwise distinct (inj_on)
   and contracted/target indices partition the operand indices. *)
Theorem C17_einsum_semantics :
  forall (S : Scalar) (T : tmodel S) (D : list index) (ops : list (list index))
         (args : list (arr S)) (tgt con : list index),
    inj_on D -> incl (List.concat ops) D -> incl tgt D ->
    Forall2 (dims_ok S T) ops args -> NoDup con ->
    (forall x, In x con -> In x (List.concat ops) /\ ~ In x tgt) ->
    (forall x, In x tgt -> In x (List.concat ops)) ->
    (forall x, In x (List.concat ops) -> In x tgt \/ In x con) ->
    let R := einsum_val S (map (map iname) ops) (map iname tgt) args in
    adims S R = map (irange S T) tgt /\
    (forall r : index -> nat, aval S R (map r tgt) = sum_over S T con r (ops_prod S ops args)).
Proof. exact einsum_semantics. Qed.
Print Assumptions C17_einsum_semantics.

(* format_contraction (numpy backend) on a well-formed step whose operands are
   bound (earlier results used with exactly their target indices, base tensors
   bound to the printed, translated name): the emitted text -- factors, single
   tensor or einsum, nested texts of inner contractions -- evaluates to
   sum_{contracted} prod operands, as an array in the step's target order. *)
Theorem C17_codegen_step_semantics :
  forall (S : Scalar) (T : tmodel S) (cfg : tnames) (tenv : string -> arr S)
         (B : string -> list index -> env -> K S) (D : list index)
         (cache : list (string * cexpr)) (acc : list (string * stepval S)) (st : cstep),
    inj_on D -> single_letter D = true ->
    cache_ok S T tenv cache acc -> step_ok S T cfg tenv B D acc st ->
    exists e : cexpr,
      format_contraction cfg Einsum cache st = Ok e /\
      dims_ok S T (cs_tgt st) (run_np S tenv e) /\
      (forall r : index -> nat,
         aval S (run_np S tenv e) (map r (cs_tgt st)) = step_val S T B acc st r).
Proof. exact codegen_step_semantics_np. Qed.
Print Assumptions C17_codegen_step_semantics.

(* Whole line of a term (numpy backend): whenever the generator model returns
   a line for a term whose scheme is well-formed step by step, the line's
   value at every assignment of the target letters is
   sign * printed prefactor * (value of the last step of the scheme computed
   step by step).  That the scheme value is the term's value is C16. *)
Theorem C17_codegen_semantics :
  forall (S : Scalar) (T : tmodel S) (cfg : tnames) (tenv : string -> arr S)
         (B : string -> list index -> env -> K S) (hf : bool) (D : list index)
         (t : cterm) (l : line) (steps : list cstep),
    inj_on D -> single_letter D = true ->
    ct_hasidx t = true -> ct_scheme t = Ok steps ->
    scheme_ok S T cfg tenv B D nil steps ->
    gen_term cfg hf Einsum t = Ok l ->
    exists (inner : list cstep) (o : cstep),
      steps = inner ++ o :: nil /\ l_neg l = ct_neg t /\
      format_prefactor hf Einsum (ct_nums t) (ct_syms t) = Ok (l_pref l) /\
      (forall p : lenv,
         run_line S T tenv Einsum (map iname (cs_tgt o)) l p =
         kmul S (kmul S (ksgn (ct_neg t)) (kprod (map (pfac_val S T) (l_pref l))))
              (step_val S T B (scheme_vals S T B nil inner) o (renv p))).
Proof. exact codegen_term_semantics_np. Qed.
Print Assumptions C17_codegen_semantics.

(* The printed prefactor (Python and C++ number formats, sqrt / constants::sq,
   symbols with exponents) denotes |number prefactor| * symbols. *)
Theorem C17_prefactor_value :
  forall (S : Scalar) (T : tmodel S) (hf : bool) (be : backend) (nums : list numarg)
         (syms : list (option string * nat)) (pf : list pfac),
    format_prefactor hf be nums syms = Ok pf ->
    kprod (map (pfac_val S T) pf) =
    kmul S (kprod (map (numarg_val S T) nums)) (syms_val S T syms).
Proof. exact prefactor_value. Qed.
Print Assumptions C17_prefactor_value.

(* "Apply (1 +- P_ij P_ab ...) to:" evaluates to X plus, for every listed
   product of transpositions, sign * X with the transpositions applied to the
   assignment of the target indices (in the listed order). *)
Theorem C17_perm_apply_semantics :
  forall (S : Scalar) (D : list index) (ps : list (list (index * index) * Z))
         (ps' : permsym) (X : lenv -> K S) (Xe : env -> K S),
    inj_on D ->
    (forall pf pq, In pf ps -> In pq (fst pf) -> In (fst pq) D /\ In (snd pq) D) ->
    gen_permsym ps = Ok ps' -> depends_on S D Xe -> (forall p, X p = Xe (renv p)) ->
    forall p : lenv,
      apply_permsym S ps' X p =
      kadd S (Xe (renv p))
           (ksum ps (fun pf => kmul S (sgnZ S (snd pf))
                                      (Xe (fun x : index => renv p (perm_idx (fst pf) x))))).
Proof. exact perm_apply_semantics. Qed.
Print Assumptions C17_perm_apply_semantics.

(* Refusals (NotImplementedError): an operand is refused exactly for a partial
   trace on a libtensor tensor *)
Theorem C17_refusal_exact_operand :
  forall (cfg : tnames) (be : backend) (cache : list (string * cexpr))
         (con : list index) (op : string * list index),
    format_operand cfg be cache con op = Refuse <->
    be = Libtensor /\ is_contraction (fst op) = false /\ partial_trace con (snd op) = true.
Proof. exact refusal_exact_operand. Qed.
Print Assumptions C17_refusal_exact_operand.

(* a number prefactor is refused exactly if it is neither a rational nor a
   square root, or a square root while sympy's  S.Half == 0.5  is False *)
Theorem C17_refusal_exact_number :
  forall (hf : bool) (be : backend) (a : numarg),
    match be with Einsum => format_python_num hf a | Libtensor => format_cpp_num hf a end = Refuse <->
    a = NOther \/ (exists n, a = NSqrt n) /\ hf = false.
Proof. exact refusal_exact_number. Qed.
Print Assumptions C17_refusal_exact_number.

(* the numpy backend never refuses a contraction *)
Theorem C17_refusal_never_einsum :
  forall (cfg : tnames) (cache : list (string * cexpr)) (st : cstep),
    format_contraction cfg Einsum cache st <> Refuse.
Proof. exact refusal_never_einsum. Qed.
Print Assumptions C17_refusal_never_einsum.

(* libtensor refuses a contraction only for a partial trace or when there are
   neither contracted nor target indices (one direction: _partial) *)
Theorem C17_refusal_libtensor_partial :
  forall (cfg : tnames) (cache : list (string * cexpr)) (st : cstep),
    format_contraction cfg Libtensor cache st = Refuse ->
    (exists op, In op (cs_ops st) /\ is_contraction (fst op) = false /\
                partial_trace (cs_con st) (snd op) = true) \/
    (cs_con st = nil /\ cat (map iname (cs_tgt st)) = EmptyString).
Proof. exact refusal_exact_libtensor. Qed.
Print Assumptions C17_refusal_libtensor_partial.
