(* C07 - simplify preserves the value and merges alpha-equivalent terms.
   Property theorems only; proofs live in Core/. *)
From Coq Require Import ZArith QArith List.
From ADC Require Import Core.Scalar Core.Index Core.Expr Core.Swap Core.Canon Core.Equiv.

(* Renaming contracted indices by a sort-preserving transposition that avoids
   the targets never changes the value of a term (all models, all targets). *)
Theorem C07_renaming_preserves_value :
  forall (S : Scalar) (T : tmodel S) a b tg r t,
    same_sort a b = true -> ~ In a tg -> ~ In b tg ->
    eval_term S T tg r (swap_term a b t) = eval_term S T tg r t.
Proof. exact eval_term_swap. Qed.
Print Assumptions C07_renaming_preserves_value.

(* Every (input, output) pair of simplify accepted by the validator has the
   same value in every model respecting the declared tensor symmetries, for
   every assignment of the target indices. *)
Theorem C07_simplify_pair_value :
  forall (S : Scalar) (T : tmodel S), respects S T ->
  forall tg c1 c2 e1 e2, check_equiv tg c1 c2 e1 e2 = true ->
  forall r, eval S T tg r e1 = eval S T tg r e2.
Proof. exact check_equiv_sound. Qed.
Print Assumptions C07_simplify_pair_value.
