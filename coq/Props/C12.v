(* C12 - registered intermediate definitions equal the quantities they name.
   Property theorems only. *)
From Coq Require Import ZArith QArith List Ring_polynom.
From Coq Require String.
From ADC Require Import Core.Scalar Core.Index Core.Expr Core.Swap Core.Canon Core.Equiv
  Core.DeltaRule Core.Equiv2 Core.Frac Core.FracSound Core.SwapAny.

(* A registered definition accepted by the fraction validator against the
   derived quantity (amplitude, residual, density block) or against its
   other expansion level has the same value for every Hamiltonian (tensor
   model respecting the declared symmetries, field-valued, non-vanishing
   denominators), every orbital space and every assignment of its indices. *)
Theorem C12_definition_equals_named_quantity :
  forall (S : Scalar) (T : tmodel S) (en : String.string) (vs : list index),
  respects S T -> model_ok S T ->
  (forall x, x <> k0 S -> kmul S x (kinv S x) = k1 S) ->
  forall tg c1 c2 definition named,
  check_equiv_frac en vs tg c1 c2 definition named = true -> k1 S <> k0 S ->
  (forall r' d, In d (frac_dens en vs tg c1 c2 definition named) ->
                pe_eval S (venv S T en vs r') d <> k0 S) ->
  forall r, env_ok S T tg r -> eval S T tg r definition = eval S T tg r named.
Proof. exact check_equiv_frac_sound. Qed.
Print Assumptions C12_definition_equals_named_quantity.

(* A declared symmetry (perms, f) accepted in the form
   permute(definition) == f * definition means: evaluating the definition at
   the permuted index assignment gives f times its value. *)
Theorem C12_declared_symmetry_holds :
  forall (S : Scalar) (T : tmodel S) (en : String.string) (vs : list index),
  respects S T -> model_ok S T ->
  (forall x, x <> k0 S -> kmul S x (kinv S x) = k1 S) ->
  forall tg ps c1 c2 def scaled,
  perms_ok tg ps = true ->
  check_equiv_frac en vs tg c1 c2 (permute_expr ps def) scaled = true -> k1 S <> k0 S ->
  (forall r' d, In d (frac_dens en vs tg c1 c2 (permute_expr ps def) scaled) ->
                pe_eval S (venv S T en vs r') d <> k0 S) ->
  forall r, env_ok S T tg r ->
  eval S T tg (permute_env ps r) def = eval S T tg r scaled.
Proof. intros S T en vs R M F tg ps c1 c2 def scaled Hp Hc H10 Hd r Hr.
  rewrite <- (eval_permute S T tg ps Hp).
  exact (check_equiv_frac_sound S T en vs R M F tg c1 c2 _ _ Hc H10 Hd r Hr). Qed.
Print Assumptions C12_declared_symmetry_holds.
