(* C16 -- Contraction schemes compute the term and respect their stated bounds.
   Model: Models/Contraction.v, proofs: Models/ContractionProofs.v. *)
From Coq Require Import ZArith NArith List Bool Permutation.
From ADC Require Import Core.Scalar Core.Index Core.Expr Models.Contraction Models.ContractionProofs
  Models.ContractionEnumProofs.
Import ListNotations.

(* Central theorem.  A scheme accepted by the decision procedure [wf_scheme]
   evaluates, step by step, to the value of the term (sum over all non-target
   indices of the product of all objects) -- for every scalar ring, all index
   ranges, all tensor values and every assignment of the target indices. *)
Theorem C16_wf_scheme_correct :
  forall (S : Scalar) (R : space -> spin -> list nat) (tval : nat -> list nat -> K S)
         (objs : list obj) (tg : list index) (s : scheme),
  wf_scheme objs tg s = true ->
  forall r : env, run_scheme S R tval s (map r tg) = term_value S R tval tg objs r.
Proof. exact wf_scheme_correct_. Qed.
Print Assumptions C16_wf_scheme_correct.

(* every tensor/delta of the term and every intermediate result is consumed
   exactly once, with multiplicity *)
Theorem C16_wf_objects_once :
  forall objs tg s, wf_scheme objs tg s = true ->
  Permutation (flat_map c_objs s) (objs ++ map result_obj (removelast s)).
Proof. exact wf_scheme_objects_once. Qed.
Print Assumptions C16_wf_objects_once.

(* ... and an intermediate result only after it has been computed *)
Theorem C16_wf_results_later :
  forall objs tg s, wf_scheme objs tg s = true ->
  forall s1 c s2, s = s1 ++ c :: s2 ->
  forall o, In o (c_objs c) -> In o objs \/ In o (map result_obj s1).
Proof. exact wf_scheme_results_later. Qed.
Print Assumptions C16_wf_results_later.

(* every contracted (non-target) index of the term is summed in exactly one
   step; nothing else is summed *)
Theorem C16_wf_index_once :
  forall objs tg s, wf_scheme objs tg s = true ->
  forall x, icount x (flat_map c_contracted s) =
            if imem x (pool_idx objs) && negb (imem x tg) then 1 else 0.
Proof. exact wf_scheme_index_once. Qed.
Print Assumptions C16_wf_index_once.

(* the scheme ends in a contraction whose result carries the requested target
   indices in the requested order *)
Theorem C16_wf_last_target :
  forall objs tg s, wf_scheme objs tg s = true ->
  s <> [] /\ forall d, c_target (last s d) = tg.
Proof. exact wf_scheme_last_target. Qed.
Print Assumptions C16_wf_last_target.

(* the scaling computed by Contraction.__init__ is the number of distinct
   indices of the step (computational) resp. of its target (memory), in total
   and per space *)
Theorem C16_scaling_true :
  forall id names idxs tg,
  let c := mk_contraction id names idxs tg in
  s_comp (c_scaling c) = counts (inodup (concat idxs)) /\
  s_mem (c_scaling c) = counts (c_target c).
Proof. exact scaling_true_. Qed.
Print Assumptions C16_scaling_true.

(* same statement for arbitrary step data accepted by the per-run checkers *)
Theorem C16_step_scaling_true :
  forall c, step_local_ok c = true -> scaling_ok c = true ->
  s_comp (c_scaling c) = counts (inodup (concat (c_idx c))) /\
  s_mem (c_scaling c) = counts (c_target c).
Proof. exact step_scaling_true. Qed.
Print Assumptions C16_step_scaling_true.

(* a step all of whose indices come from the term scales component-wise at
   most like the single simultaneous contraction of all objects *)
Theorem C16_scaling_le_hyper :
  forall objs tg c, step_local_ok c = true -> scaling_ok c = true ->
  incl (concat (c_idx c)) (pool_idx objs) ->
  let h := s_comp (c_scaling (mk_contraction 0%N (map fst objs) (map snd objs) tg)) in
  scomp_cw_leb (s_comp (c_scaling c)) h = true /\ scomp_cw_leb (s_mem (c_scaling c)) h = true.
Proof. exact step_le_hyper. Qed.
Print Assumptions C16_scaling_le_hyper.

(* hence for every well-formed scheme with true scalings the maximum over the
   steps, field by field, is never worse *)
Theorem C16_wf_scheme_max_le_hyper :
  forall objs tg s, wf_scheme objs tg s = true -> forallb scaling_ok s = true ->
  let h := s_comp (c_scaling (mk_contraction 0%N (map fst objs) (map snd objs) tg)) in
  forall k, k < 4 ->
  list_max (map (fun c => nth k (scomp_fields (s_comp (c_scaling c))) 0) s) <= nth k (scomp_fields h) 0 /\
  list_max (map (fun c => nth k (scomp_fields (s_mem (c_scaling c))) 0) s) <= nth k (scomp_fields h) 0.
Proof. exact wf_scheme_max_le_hyper. Qed.
Print Assumptions C16_wf_scheme_max_le_hyper.

(* soundness of the limit checker *)
Theorem C16_limits_respected :
  forall tg mid mg s, limits_respected tg mid mg s = true ->
  forall c, In c s ->
  (forall d, mid = Some d -> c_target c <> tg -> length (c_target c) <= d) /\
  (forall m, mg = Some m -> length (c_names c) <= m).
Proof. exact limits_respected_sound. Qed.
Print Assumptions C16_limits_respected.

(* unoptimized_contraction (the simultaneous contraction of all objects) is
   well-formed whenever the request is consistent: distinct target indices
   that occur in the term and include every index occurring exactly once *)
Theorem C16_unoptimized_wf :
  forall cnt objs tg,
  forallb is_base objs = true -> NoDup tg ->
  (forall x, In x tg -> In x (pool_idx objs)) ->
  (forall x, icount x (pool_idx objs) = 1 -> In x tg) ->
  wf_scheme objs tg (unoptimized_contraction cnt objs tg) = true.
Proof. exact unoptimized_wf_. Qed.
Print Assumptions C16_unoptimized_wf.

(* POSITIVE THEOREM (refuted before the fix of _optimize_contractions): with
   the leak guard every scheme yielded by the enumeration is well-formed, for
   every consistent request ([consistent tg ix]: the requested targets are
   pairwise distinct, occur in the term and contain every index that occurs
   exactly once), all limit settings and all counter values *)
Theorem C16_enumerate_schemes_wf :
  forall objs tg mid mg cnt,
  forallb is_base objs = true -> consistent tg (pool_idx objs) ->
  forall s, In s (fst (enumerate_schemes tg mid mg cnt objs)) -> wf_scheme objs tg s = true.
Proof. exact enumerate_schemes_wf_. Qed.
Print Assumptions C16_enumerate_schemes_wf.

(* hence every scheme returned by optimize_contractions (incl. the
   single-object case) is well-formed ... *)
Theorem C16_optimize_contractions_wf :
  forall objs tg mid mg cnt s cnt',
  forallb is_base objs = true -> consistent tg (pool_idx objs) ->
  optimize_contractions cnt objs tg mid mg = OScheme s cnt' -> wf_scheme objs tg s = true.
Proof. exact optimize_contractions_wf_. Qed.
Print Assumptions C16_optimize_contractions_wf.

(* ... and computes the term *)
Theorem C16_optimize_contractions_correct :
  forall (S : Scalar) (R : space -> spin -> list nat) (tval : nat -> list nat -> K S)
         objs tg mid mg cnt s cnt',
  forallb is_base objs = true -> consistent tg (pool_idx objs) ->
  optimize_contractions cnt objs tg mid mg = OScheme s cnt' ->
  forall r : env, run_scheme S R tval s (map r tg) = term_value S R tval tg objs r.
Proof. exact optimize_contractions_correct_. Qed.
Print Assumptions C16_optimize_contractions_correct.

(* regression examples on the inputs of the two defects repaired in the
   implementation (fix: leak guard in _optimize_contractions, single-object
   case): A_ij B_ik C_ij D_j -> k now yields well-formed schemes only *)
Theorem C16_regression_unclosed_group :
  group_objects (map snd wit_objs) [wit_k] None = [[0; 1; 2]; [0; 1; 2; 3]; [0; 2; 3]; [1; 3]] /\
  forallb (wf_scheme wit_objs [wit_k]) (fst (enumerate_schemes [wit_k] None None 0%N wit_objs)) = true /\
  length (fst (enumerate_schemes [wit_k] None None 0%N wit_objs)) = 2 /\
  exists s cnt, optimize_contractions 0%N wit_objs [wit_k] None None = OScheme s cnt /\
                wf_scheme wit_objs [wit_k] s = true.
Proof. exact regression_unclosed_group_. Qed.
Print Assumptions C16_regression_unclosed_group.

Theorem C16_regression_single_object :
  exists s cnt, optimize_contractions 0%N [(NBase 0, [wit_i; wit_j])] [wit_j; wit_i] None None = OScheme s cnt /\
    wf_scheme [(NBase 0, [wit_i; wit_j])] [wit_j; wit_i] s = true /\
    forall d, c_target (last s d) = [wit_j; wit_i].
Proof. exact regression_single_object_. Qed.
Print Assumptions C16_regression_single_object.

(* the hypotheses of the theorems above are satisfiable on a non-trivial
   instance: the scheme selected for Y_jb t_jkbc W_ikac -> ia (two steps) *)
Theorem C16_example_satisfiable :
  exists objs tg s, wf_scheme objs tg s = true /\ length s = 2 /\
    optimize_contractions 0%N objs tg None None = OScheme s 6%N.
Proof. exact wf_scheme_satisfiable. Qed.
Print Assumptions C16_example_satisfiable.
