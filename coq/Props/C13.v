(* C13 - orbital-energy fraction algebra and Fock diagonalisation preserve the
   value.  Property theorems only. *)
From Coq Require Import ZArith QArith List Ring_polynom.
From Coq Require String.
From ADC Require Import Core.Scalar Core.Index Core.Expr Core.Swap Core.Canon Core.Equiv
  Core.DeltaRule Core.Equiv2 Core.Frac Core.FracSound Models.OrbEnergy.

(* Every pair accepted by the fraction validator (renaming of contracted
   indices, declared tensor symmetries, Kronecker-delta elimination, and
   identity of the orbital-energy fractions as rational functions) has the
   same value in every field-valued tensor model with non-vanishing
   denominator brackets, for every in-range assignment of the targets.  Used
   for: split/rebuild, sign canonicalisation, numerator symmetrisation,
   fraction cancelling, grouping by remainder / denominator. *)
Theorem C13_fraction_pair_value :
  forall (S : Scalar) (T : tmodel S) (en : String.string) (vs : list index),
  respects S T -> model_ok S T ->
  (forall x, x <> k0 S -> kmul S x (kinv S x) = k1 S) ->
  forall tg c1 c2 e1 e2,
  check_equiv_frac en vs tg c1 c2 e1 e2 = true -> k1 S <> k0 S ->
  (forall r' d, In d (frac_dens en vs tg c1 c2 e1 e2) ->
                pe_eval S (venv S T en vs r') d <> k0 S) ->
  forall r, env_ok S T tg r -> eval S T tg r e1 = eval S T tg r e2.
Proof. exact check_equiv_frac_sound. Qed.
Print Assumptions C13_fraction_pair_value.

(* Switching to explicit denominators: in a model where the symbolic
   denominator tensor D has the value 1/(sum e_upper - sum e_lower), replacing
   every D by the explicit bracket leaves the value unchanged (all
   expressions, targets, assignments). *)
Theorem C13_symbolic_denominators_value :
  forall (S : Scalar) (T : tmodel S) (en dn : String.string),
  (forall x, kinv S (kinv S x) = x) -> D_model S T en dn ->
  forall tg r e, eval S T tg r (unfold_D en dn e) = eval S T tg r e.
Proof. exact unfold_D_sound. Qed.
Print Assumptions C13_symbolic_denominators_value.

(* Canonical orbitals: with f_pq = delta_pq e_p every Fock matrix element can
   be replaced by delta_pq e_p without changing the value. *)
Theorem C13_canonical_fock_value :
  forall (S : Scalar) (T : tmodel S) (en fn : String.string),
  fock_model S T en fn ->
  forall tg r e, eval S T tg r (unfold_fock en fn e) = eval S T tg r e.
Proof. exact unfold_fock_sound. Qed.
Print Assumptions C13_canonical_fock_value.
