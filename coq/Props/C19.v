(* C19 - results are independent of call history, hash seed and tensor-name
   configuration.  Property theorems only (partial: hash seeds / dict order
   are CPython behaviour that no Gallina model exhibits - differential runs
   only). *)
From Coq Require Import List NArith.
From ADC Require Import Core.Scalar Core.Index Core.Expr Core.Swap Core.Canon Core.Equiv
  Models.Substitution Models.Registry Models.RegistryProofs Models.History.

(* Wavefunctions / norm factors requested repeatedly never share contracted
   indices: in ANY history of index requests, the generic indices returned by
   two different requests are pairwise different in (space, spin, name). *)
Theorem C19_fresh_disjoint :
  forall (ops1 ops2 : list op) (r1 r2 : list (sort * nat)) (e1 e2 : entry),
  In e1 (out_entries (snd (step (fst (history ops1)) (OpGeneric r1)))) ->
  In e2 (out_entries (snd (step (fst (history (ops1 ++ OpGeneric r1 :: ops2))) (OpGeneric r2)))) ->
  e_key e1 <> e_key e2.
Proof. exact fresh_disjoint. Qed.
Print Assumptions C19_fresh_disjoint.

(* ... and never coincide with any index handed out earlier by any request. *)
Theorem C19_fresh_vs_earlier :
  forall (ops1 ops2 : list op) (o : op) (r2 : list (sort * nat)) (e1 e2 : entry),
  In e1 (out_entries (snd (step (fst (history ops1)) o))) ->
  In e2 (out_entries (snd (step (fst (history (ops1 ++ o :: ops2))) (OpGeneric r2)))) ->
  e_key e1 <> e_key e2.
Proof. exact fresh_vs_explicit. Qed.
Print Assumptions C19_fresh_vs_earlier.

(* A cached member returns the value of its first evaluation whatever is
   called in between and whatever the state of the world is at later calls. *)
Theorem C19_memo_stable :
  forall (A B W : Type) (eqb : A -> A -> bool) (f : W -> A -> B) a v m,
  lookup eqb a m = Some v ->
  forall (calls : list (W * A)),
    let m' := fold_left (fun m wa => snd (call eqb f (fst wa) (snd wa) m)) calls m in
    lookup eqb a m' = Some v /\ forall w, fst (call eqb f w a m') = v.
Proof. intros A B W eqb f a v m H calls. exact (memo_stable eqb f a v m H calls). Qed.
Print Assumptions C19_memo_stable.

(* Results obtained under two different histories differ by the names of
   their contracted indices only: any such renaming (sort-preserving
   transpositions avoiding the targets) leaves the value unchanged, and a pair
   accepted by the validator has equal value in every model. *)
Theorem C19_history_renaming_value :
  forall (S : Scalar) (T : tmodel S), respects S T ->
  forall tg c1 c2 e1 e2, check_equiv tg c1 c2 e1 e2 = true ->
  forall r, eval S T tg r e1 = eval S T tg r e2.
Proof. exact check_equiv_sound. Qed.
Print Assumptions C19_history_renaming_value.
