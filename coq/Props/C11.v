(* C11 - expanding, factoring and reducing intermediates are mutually
   consistent.  Property theorems only. *)
From Coq Require Import ZArith QArith List Ring_polynom.
From Coq Require String.
From ADC Require Import Core.Scalar Core.Index Core.Expr Core.Swap Core.Canon Core.Equiv
  Core.DeltaRule Core.Equiv2 Core.Frac Core.FracSound Core.Unfold Models.Itmd.

(* Every (result, expected) pair accepted by the fraction validator - the
   library's expansion against the expansion with the registered definitions
   inserted, the expansion of a factored expression against the expansion of
   its input, the reduced expression against the full expansion - has the
   same value for every Hamiltonian, every free tensor and every assignment
   of the target indices. *)
Theorem C11_expansion_pair_value :
  forall (S : Scalar) (T : tmodel S) (en : String.string) (vs : list index),
  respects S T -> model_ok S T ->
  (forall x, x <> k0 S -> kmul S x (kinv S x) = k1 S) ->
  forall tg c1 c2 e1 e2,
  check_equiv_frac en vs tg c1 c2 e1 e2 = true -> k1 S <> k0 S ->
  (forall r' d, In d (frac_dens en vs tg c1 c2 e1 e2) ->
                pe_eval S (venv S T en vs r') d <> k0 S) ->
  forall r, env_ok S T tg r -> eval S T tg r e1 = eval S T tg r e2.
Proof. exact check_equiv_frac_sound. Qed.
Print Assumptions C11_expansion_pair_value.

(* Expansion as repeated replacement of an intermediate tensor factor by an
   instance of its definition (fresh contracted indices, checked): in every
   tensor model in which each replaced tensor instance has the value of the
   inserted definition body - "every intermediate tensor takes the value of
   its registered definition" - the expanded expression has the same value,
   for every target assignment.  The per-run check lets Coq perform this
   expansion (`unfold_expr`) and compares it with the library's output. *)
Theorem C11_expansion_by_definition_value :
  forall (S : Scalar) (T : tmodel S) tg steps e e' used,
  Itmd.unfold_expr tg steps e = Some (e', used) -> Itmd.defs_hold S T used ->
  forall r, eval S T tg r e = eval S T tg r e'.
Proof. exact Itmd.unfold_expr_sound. Qed.
Print Assumptions C11_expansion_by_definition_value.
