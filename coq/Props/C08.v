(* C08 - index renaming is capture-free and yields the documented names.
   Property theorems only; models in Models/Substitution.v, Models/Registry.v,
   proofs in Models/SubstitutionProofs.v, Models/RegistryProofs.v. *)
From Coq Require Import ZArith NArith List Permutation.
From ADC Require Import Core.Scalar Core.Index Core.Expr Core.Swap Core.Canon Core.Equiv.
From ADC Require Import Models.Substitution Models.SubstitutionProofs Models.Renaming
                        Models.Registry Models.RegistryProofs.
Import ListNotations.

(* ---- ordered substitution list = simultaneous substitution ---- *)
(* Applying the list returned by order_substitutions one pair after another
   equals the simultaneous substitution, for every dict with distinct keys
   (chains, cycles, many-to-one, identity pairs, any insertion order) whose
   indices are older than the temporaries, and every index that is not one
   of the temporaries created by the call. *)
Theorem C08_order_substitutions_correct :
  forall (u0 : N) (m : list (index * index)) (x : index),
    NoDup (map fst m) -> older u0 m -> ~ In x (temporaries u0 m) ->
    subst_seq (order_substitutions u0 m) x = subst_sim m x.
Proof. exact order_substitutions_correct. Qed.
Print Assumptions C08_order_substitutions_correct.

(* ---- permutation operators ---- *)
(* The dict composed by Container.permute, applied simultaneously, equals the
   transpositions applied one after another, for every list of pairs. *)
Theorem C08_permute_map_correct :
  forall (perms : list (index * index)) (x : index),
    subst_sim (permute_map perms) x = swaps_seq perms x.
Proof. exact permute_map_correct. Qed.
Print Assumptions C08_permute_map_correct.

(* ... and so does the ordered list that permute hands to subs(). *)
Theorem C08_permute_subs_correct :
  forall (u0 : N) (perms : list (index * index)) (x : index),
    (forall y, In y (perm_indices perms) -> (iuid y < u0)%N) -> (iuid x < u0)%N ->
    subst_seq (permute_subs u0 perms) x = swaps_seq perms x.
Proof. exact permute_subs_correct. Qed.
Print Assumptions C08_permute_subs_correct.

(* ---- lowest available names ---- *)
(* get_lowest_avail_indices returns the first n unused names of the infinite
   stream base, base1, base2, ... (every sufficiently long prefix gives the same
   answer), exactly n of them, duplicate-free, disjoint from used, of the
   requested space. *)
Theorem C08_lowest_avail_spec :
  forall (n : nat) (used : list name) (sp : space),
    (forall K, length used + n < K ->
       lowest_avail n used sp = firstn n (filter (unused used) (stream (base sp) K))) /\
    length (lowest_avail n used sp) = n /\
    NoDup (lowest_avail n used sp) /\
    (forall s, In s (lowest_avail n used sp) -> ~ In s used /\ In (fst s) (base sp)).
Proof. exact lowest_avail_spec. Qed.
Print Assumptions C08_lowest_avail_spec.

(* ---- substitute_contracted: the renaming ---- *)
(* For every duplicate-free list of contracted indices and every target list:
   exactly the contracted indices are renamed, no two are merged, space and spin
   are kept, no target is hit, and per (space, spin) the new names are the lowest
   unused names in the order of the contracted indices. *)
Theorem C08_substitute_contracted_renaming :
  forall (c tg : list index), NoDup c ->
    Permutation c (map fst (sc_map c tg)) /\
    NoDup (map snd (sc_map c tg)) /\
    (forall o n, In (o, n) (sc_map c tg) -> same_sort o n = true /\ ~ In n tg /\ iuid n = 0%N) /\
    (forall k l, In (k, l) (group_by_sort c) ->
       map (subst_sim (sc_map c tg)) l =
       map (reg_index k) (lowest_avail (length l) (used_names tg k) (fst k))).
Proof. exact sc_map_spec. Qed.
Print Assumptions C08_substitute_contracted_renaming.

(* The ordered list built by substitute_contracted realises this renaming. *)
Theorem C08_substitute_contracted_subs :
  forall (u0 : N) (c tg : list index) (x : index), NoDup c ->
    (forall y, In y c -> (iuid y < u0)%N) -> (0 < u0)%N -> (iuid x < u0)%N ->
    subst_seq (sc_subs u0 c tg) x = subst_sim (sc_map c tg) x.
Proof. exact sc_subs_correct. Qed.
Print Assumptions C08_substitute_contracted_subs.

(* ---- the value clause ---- *)
(* Renaming contracted indices by sort-preserving transpositions that avoid the
   targets leaves the value of a term unchanged in every tensor model. *)
Theorem C08_renaming_by_transpositions_value :
  forall (S : Scalar) (T : tmodel S) (tg : list index) (r : env) (sw : swaps) (t : term),
    swaps_ok tg sw = true ->
    eval_term S T tg r (apply_swaps sw t) = eval_term S T tg r t.
Proof. exact apply_swaps_sound. Qed.
Print Assumptions C08_renaming_by_transpositions_value.

(* Every (term, renamed term) pair accepted by the validator has the same value in
   every model respecting the declared symmetries (checked on every observed
   output of substitute_contracted / substitute_with_generic). *)
Theorem C08_renamed_pair_value :
  forall (S : Scalar) (T : tmodel S), respects S T ->
  forall tg c1 c2 e1 e2, check_equiv tg c1 c2 e1 e2 = true ->
  forall r, eval S T tg r e1 = eval S T tg r e2.
Proof. exact check_equiv_sound. Qed.
Print Assumptions C08_renamed_pair_value.

(* An injective, space-and-spin preserving renaming (given as a dict) of indices
   that are not targets onto non-targets, covering every non-target index of the
   term, leaves the value of the term unchanged: it is a product of admissible
   transpositions.  (Holds for the fresh generic names of substitute_with_generic
   as well as for the lowest names of substitute_contracted.) *)
Theorem C08_renaming_preserves_value :
  forall (S : Scalar) (T : tmodel S) (tg : list index) (r : env) (s : list (index * index)) (t : term),
    admissible tg s ->
    (forall x, In x (term_idx t) -> In x (map fst s) \/ In x tg) ->
    eval_term S T tg r (map_term (subst_sim s) t) = eval_term S T tg r t.
Proof. exact renaming_preserves_value. Qed.
Print Assumptions C08_renaming_preserves_value.

(* substitute_contracted: renaming all contracted indices of a term to the lowest
   unused names leaves its value unchanged - every term, every target list, every
   tensor model, every assignment of the targets. *)
Theorem C08_substitute_contracted_value :
  forall (S : Scalar) (T : tmodel S) (tg : list index) (r : env) (t : term),
    eval_term S T tg r (map_term (subst_sim (sc_map (contracted tg t) tg)) t) = eval_term S T tg r t.
Proof. exact substitute_contracted_value. Qed.
Print Assumptions C08_substitute_contracted_value.

(* While the ordered list is applied pair by pair, two indices that the dict keeps
   apart are never identified, not even transiently (no spurious zero such as
   t_ijcd -> t_iicd can appear in an intermediate expression). *)
Theorem C08_subst_seq_no_collision :
  forall (u0 : N) (m l1 l2 : list (index * index)) (x y : index),
    NoDup (map fst m) -> older u0 m -> order_substitutions u0 m = l1 ++ l2 ->
    ~ In x (temporaries u0 m) -> ~ In y (temporaries u0 m) ->
    subst_sim m x <> subst_sim m y -> subst_seq l1 x <> subst_seq l1 y.
Proof. exact subst_seq_no_collision. Qed.
Print Assumptions C08_subst_seq_no_collision.

(* minimize_tensor_indices: the returned tuple is the image of the input under
   the returned transpositions applied one after another. *)
Theorem C08_minimize_image :
  forall (ix : list index) (tgn : list (sort * list name)),
    fst (minimize_tensor_indices ix tgn) =
    map (swaps_seq (snd (minimize_tensor_indices ix tgn))) ix.
Proof. exact minimize_image. Qed.
Print Assumptions C08_minimize_image.

(* ---- the registry, over all operation histories ---- *)
(* After every history of get_indices / get_generic_indices / get_symbols calls:
   symbol keys and object identities are duplicate-free, the unused generic names
   are not in the symbol table, carry a base letter of their space and a number
   >= 3 and < counter, and are duplicate-free. *)
Theorem C08_registry_invariant : forall ops : list op, Inv (fst (history ops)).
Proof. exact registry_invariant. Qed.
Print Assumptions C08_registry_invariant.

(* Any two indices returned at any two points of any history: same (space, spin,
   name) iff identical object. *)
Theorem C08_get_indices_identity :
  forall (ops : list op) (e1 e2 : entry),
    In e1 (outs_entries (snd (history ops))) -> In e2 (outs_entries (snd (history ops))) ->
    (e_key e1 = e_key e2 <-> e_uid e1 = e_uid e2).
Proof. exact get_indices_identity. Qed.
Print Assumptions C08_get_indices_identity.

(* A successful get_indices answers every request with an index of the requested
   name and spin (so the identity theorem is not vacuous). *)
Theorem C08_get_indices_complete :
  forall st reqs st' r, Inv st -> get_indices st reqs = (st', Some r) ->
  forall nm spn, In (nm, spn) reqs ->
    exists sp u, space_of_letter (fst nm) = Some sp /\ In ((sp, spn), nm, u) (ret_entries r).
Proof. exact get_indices_complete. Qed.
Print Assumptions C08_get_indices_complete.

(* The names returned by get_generic_indices after any history were never
   returned by any earlier operation of that history ... *)
Theorem C08_generic_never_handed_out_before :
  forall (ops : list op) (reqs : list (sort * nat)) (e e' : entry),
    In e (out_entries (snd (step (fst (history ops)) (OpGeneric reqs)))) ->
    In e' (outs_entries (snd (history ops))) ->
    e_key e <> e_key e'.
Proof. exact generic_never_handed_out_before. Qed.
Print Assumptions C08_generic_never_handed_out_before.

(* ... and are new objects. *)
Theorem C08_generic_objects_are_new :
  forall (ops : list op) (reqs : list (sort * nat)) (e : entry),
    In e (out_entries (snd (step (fst (history ops)) (OpGeneric reqs)))) ->
    ~ In e (symbols (fst (history ops))).
Proof. exact generic_objects_are_new. Qed.
Print Assumptions C08_generic_objects_are_new.

(* The bound on the generation loop used by the model always reaches the exit
   condition of `while n > len(generic)`. *)
Theorem C08_generation_loop_exits :
  forall st k n, n <= length (generic (gen_loop (gen_fuel st n) st k n) k).
Proof. exact gen_loop_exit. Qed.
Print Assumptions C08_generation_loop_exits.

(* ---- the hypotheses are satisfiable: a 3-cycle with a chain hanging on it ---- *)
Example C08_example :
  let i := Idx Occ NoSpin 105 0 0 in let j := Idx Occ NoSpin 106 0 0 in
  let k := Idx Occ NoSpin 107 0 0 in let l := Idx Occ NoSpin 108 0 0 in
  let m := [(l, i); (i, j); (j, k); (k, i)] in
  NoDup (map fst m) /\ older 1 m /\ ~ In l (temporaries 1 m) /\
  order_substitutions 1 m = [(l, tmp 1); (i, tmp 2); (j, tmp 3); (k, tmp 4);
                             (tmp 1, i); (tmp 2, j); (tmp 3, k); (tmp 4, i)] /\
  map (subst_seq (order_substitutions 1 m)) [i; j; k; l] = [j; k; i; i] /\
  lowest_avail 3 [(105, 0); (107, 0)]%N Occ = [(106, 0); (108, 0); (109, 0)]%N /\
  (exists u, snd (step (fst (history [OpGet [((105, 5)%N, NoSpin)]])) (OpGeneric [((Occ, NoSpin), 8)]))
             = ORet [((Occ, NoSpin), u)] /\
             map e_name u = [(105,3); (106,3); (107,3); (108,3); (109,3); (110,3); (111,3); (105,4)]%N).
Proof.
  cbv zeta. split; [|split; [|split; [|split; [|split; [|split]]]]].
  - repeat constructor; simpl; intuition discriminate.
  - intros a b H0; simpl in H0.
    repeat (destruct H0 as [H0|H0]; [inversion H0; subst; simpl; split; reflexivity|]). destruct H0.
  - vm_compute. intros H0. repeat (destruct H0 as [H0|H0]; [discriminate|]). destruct H0.
  - vm_compute. reflexivity.
  - vm_compute. reflexivity.
  - vm_compute. reflexivity.
  - vm_compute. eexists. split; reflexivity.
Qed.
