(* C08 - index renaming is capture-free and yields the documented names.
   Property theorems only; models in Models/Substitution.v, Models/Registry.v,
   proofs in Models/SubstitutionProofs.v, Models/RegistryProofs.v. *)
From Coq Require Import ZArith NArith List.
From ADC Require Import Core.Scalar Core.Index Core.Expr Core.Swap Core.Canon Core.Equiv.
From ADC Require Import Models.Substitution Models.SubstitutionProofs.
Import ListNotations.

(* Applying the ordered substitution list one pair after another equals the
   simultaneous substitution, for every dict with distinct keys (chains, cycles,
   many-to-one, identity pairs, any insertion order) and every index that is not
   one of the temporaries created by the call. *)
Theorem C08_order_substitutions_correct :
  forall (u0 : N) (m : list (index * index)) (x : index),
    NoDup (map fst m) -> older u0 m -> ~ In x (temporaries u0 m) ->
    subst_seq (order_substitutions u0 m) x = subst_sim m x.
Proof. exact order_substitutions_correct. Qed.
Print Assumptions C08_order_substitutions_correct.

(* The dict composed by Container.permute, applied simultaneously, equals the
   transpositions applied one after another, for every list of pairs. *)
Theorem C08_permute_map_correct :
  forall (perms : list (index * index)) (x : index),
    subst_sim (permute_map perms) x = swaps_seq perms x.
Proof. exact permute_map_correct. Qed.
Print Assumptions C08_permute_map_correct.

(* ... and so does the ordered list that permute hands to subs(). *)
Theorem C08_permute_subs_correct :
  forall (u0 : N) (perms : list (index * index)) (x : index),
    (forall y, In y (perm_indices perms) -> (iuid y < u0)%N) -> (iuid x < u0)%N ->
    subst_seq (permute_subs u0 perms) x = swaps_seq perms x.
Proof. exact permute_subs_correct. Qed.
Print Assumptions C08_permute_subs_correct.

(* get_lowest_avail_indices returns the first n unused names of the infinite
   stream base, base1, base2, ... (every sufficiently long prefix gives the same
   answer), exactly n of them, duplicate-free, disjoint from used, of the
   requested space. *)
Theorem C08_lowest_avail_spec :
  forall (n : nat) (used : list name) (sp : space),
    (forall K, length used + n < K ->
       lowest_avail n used sp = firstn n (filter (unused used) (stream (base sp) K))) /\
    length (lowest_avail n used sp) = n /\
    NoDup (lowest_avail n used sp) /\
    (forall s, In s (lowest_avail n used sp) -> ~ In s used /\ In (fst s) (base sp)).
Proof. exact lowest_avail_spec. Qed.
Print Assumptions C08_lowest_avail_spec.
